"""Triage repro for C14.B (hooks touched although tracing is disabled) and C14.D / C09 (failing flush aborts shutdown)."""
import sys, threading
from deep.config import ConfigService
from deep.processor.trigger_handler import TriggerHandler
from deep.task import TaskHandler


def debugger_hook(frame, event, arg):
    return None


class Push:
    def push_snapshot(self, s): pass


sys.settrace(debugger_hook); threading.settrace(debugger_hook)
h = TriggerHandler(ConfigService({"NO_TRACE": True}), Push())
h.start()
print("after start   (NO_TRACE): sys hook is debugger's:", sys.gettrace() is debugger_hook)
h.shutdown()
print("after shutdown(NO_TRACE): sys hook is debugger's:", sys.gettrace() is debugger_hook,
      "| threading hook is debugger's:", threading.gettrace() is debugger_hook)
sys.settrace(None); threading.settrace(None)

th = TaskHandler()
def boom(): raise RuntimeError("send failed")
import time
th.submit_task(lambda: time.sleep(0.2) or boom())
try:
    th.flush()
    print("flush returned normally")
except BaseException as e:
    print("flush re-raised the task failure:", repr(e))
