"""Repro (triage only): C08 "the message ... carries every field ... attributes, resource ... and survives serialisation",
C20 "a plugin ... costs only its own contribution ... the snapshot is still delivered with the remaining decorations".

The attribute store accepts values the wire conversion could not carry: an int outside 64 bit, text with a lone surrogate, a
sequence with an element that was cleaned to None (e.g. undecodable bytes). One such attribute from one decorator plugin made
convert_snapshot fail as a whole (snapshot dropped); in the resource it made every poll request fail.

Run: PYTHONPATH=/repo/src /venv/bin/python /verif/findings/repro/c08_attribute_values.py   (exit 0 = property holds)
"""
import logging
import sys

logging.disable(logging.CRITICAL)

from deep.api.attributes import BoundedAttributes  # noqa: E402
from deep.api.resource import Resource  # noqa: E402
from deep.api.tracepoint.eventsnapshot import EventSnapshot  # noqa: E402
from deep.api.tracepoint.tracepoint_config import TracePointConfig  # noqa: E402
from deep.grpc import convert_resource  # noqa: E402
from deep.push import convert_snapshot  # noqa: E402


def main():
    tp = TracePointConfig('id', 'f.py', 1, {}, [], [])
    bad = []
    cases = (("an int of 2**64", 2 ** 64), ("an int below -2**63", -2 ** 63 - 1), ("a tuple with an element cleaned to None", (b"\xff",)),
             ("text with a lone surrogate", "report-\udcff.txt"))
    for name, val in cases:
        attrs = BoundedAttributes(attributes={"from.plugin": val, "other": "kept"})
        if "from.plugin" not in attrs:
            continue        # rejected by the store: nothing to send
        snap = EventSnapshot(tp, 1, Resource.create(), [], {})
        snap.attributes.merge_in(attrs)
        wire = convert_snapshot(snap)
        try:
            ok = wire is not None and len(wire.SerializeToString()) > 0
        except Exception as e:
            ok = False
            name += " (%s)" % type(e).__name__
        if not ok:
            bad.append("a snapshot decorated with %s is not delivered at all" % name)
        elif not any(kv.key == "other" and kv.value.string_value == "kept" for kv in wire.attributes):
            bad.append("the other decoration is lost with %s" % name)
        try:
            convert_resource(Resource({"from.plugin": val})).SerializeToString()
        except Exception as e:
            bad.append("a resource holding %s cannot be converted (%s): every poll fails" % (name, type(e).__name__))
    if bad:
        print("FAIL")
        for b in bad:
            print(" -", b)
        return 1
    print("PASS")
    return 0


if __name__ == '__main__':
    sys.exit(main())
