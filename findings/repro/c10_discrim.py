"""Triage repro for C10.DISCRIM: a failed expression is indistinguishable from one that evaluated to an exception."""
import sys
from deep.api.tracepoint.trigger import build_trigger
from deep.config import ConfigService
from deep.processor.context.trigger_context import TriggerContext


class Push:
    def push_snapshot(self, s): pass


def validate():
    raise ValueError("1")          # a host function that fails; str(exception) happens to read as a true word


def host():
    frame = sys._getframe()
    cfg = ConfigService({})
    action = build_trigger("tp", "f.py", 1, {"condition": "validate()", "snapshot": "no_collect", "log_msg": "x"}, [], []).actions[0]
    ctx = TriggerContext(cfg, Push(), frame, "line", None).action_context(action)
    print("condition `validate()` fails to evaluate; can_trigger ->", ctx.can_trigger())
    w, _vars, text = ctx.eval_watch("missing_name", "WATCH")
    print("watch `missing_name`: error =", repr(w.error), "| good result =", w.result, "->",
          _vars[w.result.vid].type if w.result else None)


host()
