"""Triage repro for C08.TYPES: sequence attributes are frozen to tuples, which convert_value does not handle."""
from deep.api.attributes import BoundedAttributes
from deep.grpc import convert_value

attrs = BoundedAttributes(attributes={"tags": ["a", "b"], "name": "x"})
for k, v in attrs.items():
    print(k, repr(v), "->", repr(convert_value(v)).strip() or None)
