"""Triage repro for C11.KEYS (stage never reaches the snapshot action) and C11.ISOLATE (one uninterpretable tracepoint
rejects the whole response / installs a None trigger)."""
from deepproto.proto.tracepoint.v1.tracepoint_pb2 import TracePointConfig, Metric
from deep.api.tracepoint.trigger import build_trigger
from deep.config.tracepoint_config import TracepointConfigService
from deep.grpc import convert_response

t = build_trigger("tp", "f.py", 1, {"stage": "method_capture", "method_name": "f"}, [], [])
print("stage=method_capture -> snapshot action config has 'stage':", "stage" in t.actions[0].config)

good = TracePointConfig(ID="good", path="a.py", line_number=3)
bad_stage = TracePointConfig(ID="bad", path="a.py", line_number=4, args={"stage": "no_such_stage"})
try:
    print("response [good, bad stage] ->", len(convert_response([good, bad_stage])), "triggers")
except Exception as e:
    print("response [good, bad stage] -> whole response rejected:", repr(e))
bad_metric = TracePointConfig(ID="bad2", path="a.py", line_number=5, metrics=[Metric(name="m", type=99)])
try:
    print("response [good, unknown metric type] ->", len(convert_response([good, bad_metric])), "triggers")
except Exception as e:
    print("response [good, unknown metric type] -> whole response rejected:", repr(e))
svc = TracepointConfigService()
svc.add_custom("a.py", 1, {"stage": "no_such_stage"}, [], [])
print("custom list after registering an unknown stage:", svc._custom)
