"""Triage repro for C16.ROLE: the tracepoint logger receives the context id as tp_id and the tracepoint id as ctx_id."""
import sys
from deep.api.plugin import TracepointLogger
from deep.api.tracepoint.trigger import build_trigger
from deep.config import ConfigService
from deep.processor.context.trigger_context import TriggerContext


class Rec(TracepointLogger):
    def log_tracepoint(self, log_msg, tp_id, ctx_id):
        print("logger got tp_id=%r ctx_id=%r" % (tp_id, ctx_id))


class Push:
    def push_snapshot(self, s): pass


cfg = ConfigService({}); cfg.plugins = [Rec(config=cfg)]
action = build_trigger("TRACEPOINT-ID", "f.py", 1, {"snapshot": "no_collect", "log_msg": "hello"}, [], []).actions[0]
tc = TriggerContext(cfg, Push(), sys._getframe(), "line", None)
print("context id is", tc.id)
with tc:
    with tc.action_context(action) as c:
        if c.can_trigger():
            c.process()
