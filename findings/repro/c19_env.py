"""Triage repro for C19.ENV: documented settings given through the environment break (text where a number/list of text is needed)."""
import os, subprocess, sys
code = r'''
import os, threading, time
from deep.config import ConfigService
from deep.utils import RepeatedTimer
cfg = ConfigService({})
print("POLL_TIMER from env:", repr(cfg.POLL_TIMER))
t = RepeatedTimer("poll", cfg.POLL_TIMER, lambda: None)
t.start(); time.sleep(0.3)
print("poll timer thread alive after first wait:", t.thread.is_alive())
print("IN_APP_EXCLUDE from env:", cfg.IN_APP_EXCLUDE[:2])
try:
    print("is_app_frame ->", cfg.is_app_frame("/app/x.py"))
except Exception as e:
    print("is_app_frame raised", type(e).__name__, e)
'''
env = dict(os.environ, DEEP_POLL_TIMER="5", DEEP_IN_APP_EXCLUDE="/venv,/usr")
print(subprocess.run([sys.executable, "-c", code], env=env, capture_output=True, text=True).stdout)
