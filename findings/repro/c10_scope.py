"""Triage repro for C10.SCOPE: expressions are evaluated with the agent module's globals, not the paused frame's."""
import sys
from deep.processor.context.trigger_context import TriggerContext

THRESHOLD = 10          # a global of the host module, visible at the paused line


def host(x):
    frame = sys._getframe()
    tc = TriggerContext(None, None, frame, "line", None)
    print("x > THRESHOLD  ->", repr(tc.evaluate_expression("x > THRESHOLD")))
    print("agent-only name `uuid` visible ->", repr(tc.evaluate_expression("uuid"))[:60])


host(11)
