"""Triage repro for C13.HANDLE: two registrations on one location get the same handle; unregistering the second removes the first."""
from deep.config.tracepoint_config import TracepointConfigService

svc = TracepointConfigService()
h1 = svc.add_custom("app.py", 10, {"log_msg": "first", "snapshot": "no_collect"}, [], [])
h2 = svc.add_custom("app.py", 10, {"log_msg": "second", "snapshot": "no_collect"}, [], [])
print("handles:", h1, h2, "equal:", h1 == h2)
svc.remove_custom(h2)
left = [a.config["log_msg"] for t in svc._custom for a in t.actions]
print("after unregistering the SECOND registration, still installed:", left)
