"""Repro (triage only): C06 "strings that are not valid UTF-8 text - a due snapshot is still produced and delivered,
with every other variable intact" / C08 "survives serialisation (any unicode including lone surrogates)".

A str can hold lone surrogates (os.fsdecode(b'\\xff') == '\\udcff': every file name with undecodable bytes; JSON with a
broken \\ud83d escape). A protobuf string field only takes text that UTF-8 can encode, so one such local, dictionary key
or failure text of a watch made convert_snapshot fail as a whole (it logs and returns None): the snapshot was never sent.

Run: PYTHONPATH=/repo/src /venv/bin/python /verif/findings/repro/c06_lone_surrogate.py   (exit 0 = property holds)
"""
import logging
import os
import sys
import threading

from deep.api.resource import Resource
from deep.api.tracepoint.trigger import build_trigger
from deep.config import ConfigService
from deep.config.tracepoint_config import TracepointConfigService
from deep.processor.trigger_handler import TriggerHandler
from deep.push import convert_snapshot
from deep.push.push_service import PushService

logging.getLogger("deep").addHandler(logging.NullHandler())
logging.getLogger("deep").propagate = False
logging.getLogger().addHandler(logging.NullHandler())
THIS_FILE = os.path.basename(__file__)


def broken(name):
    raise ValueError("cannot open " + name)


def list_files():
    other = "still here"
    name = os.fsdecode(b'report-\xff.txt')      # 'report-\udcff.txt'
    by_name = {name: 1}
    return other, name, by_name  # TP1


def line_of(tag):
    return [i + 1 for i, ln in enumerate(open(__file__).read().splitlines()) if ln.rstrip().endswith("# " + tag)][0]


class MockPush(PushService):
    def __init__(self):
        super().__init__(None, None)
        self.pushed = []

    def push_snapshot(self, snapshot):
        self.pushed.append(snapshot)


def main():
    config = ConfigService({'APP_ROOT': os.path.dirname(os.path.abspath(__file__))}, TracepointConfigService())
    config.resource = Resource.get_empty()
    config.plugins = []
    push = MockPush()
    handler = TriggerHandler(config, push)
    handler.new_config([
        build_trigger("tp-1", THIS_FILE, line_of("TP1"), {'log_msg': 'file {name}'}, ['broken(name)', 'name'], []),
    ])

    def target():
        sys.settrace(handler.trace_call)
        try:
            list_files()
        finally:
            sys.settrace(None)

    th = threading.Thread(target=target)
    th.start()
    th.join()
    bad = []
    if len(push.pushed) != 1:
        bad.append("%d snapshots collected, expected 1" % len(push.pushed))
    for s in push.pushed:
        wire = convert_snapshot(s)
        if wire is None:
            bad.append("the snapshot cannot be converted for the service (a text in it does not encode): it is dropped, `other` and all is lost")
            continue
        try:
            data = wire.SerializeToString()
        except Exception as e:
            bad.append("the converted snapshot does not serialise: %r" % e)
            continue
        names = {v.name for v in s.frames[0].variables}
        if names != {"other", "name", "by_name"}:
            bad.append("frame variables %s" % sorted(names))
        if not any(v.value == "still here" for v in s.var_lookup.values()):
            bad.append("the other variable is not intact")
        if len(data) < 50:
            bad.append("suspiciously small message")
    if bad:
        print("FAIL")
        for b in bad:
            print(" -", b)
        return 1
    print("PASS")
    return 0


if __name__ == '__main__':
    sys.exit(main())
