"""Triage repro for C07.OPTIONAL (reference with id None after the budget ran out) and C07.DELETE (dangling `locals()`)."""
import sys
from deep.api.resource import Resource
from deep.api.tracepoint.trigger import build_trigger
from deep.config import ConfigService
from deep.processor.context.trigger_context import TriggerContext


class Push:
    def __init__(self): self.pushed = []
    def push_snapshot(self, s): self.pushed.append(s)


def host(watches, many):
    cfg = ConfigService({}); cfg.plugins = []; cfg.resource = Resource.create(); push = Push()
    data = {str(i): 10000 + i for i in range(many)}       # distinct ints -> distinct variables (dicts are not size capped)
    extra = "not collected yet"
    tc = TriggerContext(cfg, push, sys._getframe(), "line", None)
    action = build_trigger("tp", "f.py", 1, {}, watches, []).actions[0]
    with tc:
        with tc.action_context(action) as c:
            c.process()
    s = push.pushed[0]
    for w in s.watches:
        vid = w.result.vid if w.result else None
        print("  watch %-10s -> error=%r id=%r resolves=%s" % (w.expression, w.error, vid, vid in s.var_lookup))


print("variable budget exhausted by the frame, then a watch on a fresh value:")
host(["extra.upper()"], 1200)
print("watch on the frame's own locals mapping:")
host(["locals()"], 1)
