"""Triage repro for C01.R3 (process-global state): creating a snapshot draws its id from the *global* random
generator, so a program that seeds `random` for reproducible results gets different numbers whenever a
tracepoint fires.

Run: PYTHONPATH=/repo/src /venv/bin/python /verif/findings/repro/c01_global_random.py   (exit 0 = property holds)
"""
import random
import sys

from deep.api.resource import Resource
from deep.api.tracepoint import EventSnapshot
from deep.api.tracepoint.tracepoint_config import TracePointConfig
from deep.utils import time_ns


def program(with_snapshot):
    random.seed(1234)
    first = random.random()
    if with_snapshot:
        tp = TracePointConfig("tp", "x.py", 1, {}, [], [])
        EventSnapshot(tp, time_ns(), Resource.get_empty(), [], {})      # what a firing tracepoint does
    return first, random.random(), random.randint(0, 10 ** 6)


a, b = program(False), program(True)
print("without agent:", a)
print("with a snapshot taken:", b)
if a != b:
    print("FAIL: the program's seeded random sequence changes when a snapshot is taken")
    sys.exit(1)
print("PASS")
