"""Triage repro for C20.ISO: a plugin raising in one callback aborts the other plugins' contributions."""
from deep.api.plugin import load_plugins, Plugin
from deep.api.plugin.metric import MetricProcessor
from deep.api.plugin.span import SpanProcessor, Span
from deep.api.tracepoint.tracepoint_config import MetricDefinition
from deep.api.tracepoint.trigger import build_trigger
from deep.config import ConfigService
from deep.processor.context.trigger_context import TriggerContext
import sys

calls = []


class BadMetrics(MetricProcessor):
    def counter(self, *a): raise RuntimeError("bad plugin")
    gauge = histogram = summary = counter


class GoodMetrics(MetricProcessor):
    def counter(self, *a): calls.append("good.counter")
    gauge = histogram = summary = counter


class S(Span):
    def __init__(self, n, bad): self.n, self.bad = n, bad
    name = trace_id = span_id = None
    def add_attribute(self, k, v): pass
    def add_event(self, n, attributes=None): pass
    def close(self):
        if self.bad: raise RuntimeError("bad close")
        calls.append("closed " + self.n)


class BadSpans(SpanProcessor):
    def create_span(self, *a): raise RuntimeError("bad create")
    def current_span(self): return None


class GoodSpans(SpanProcessor):
    def create_span(self, *a): calls.append("good.create"); return S("good", False)
    def current_span(self): return None


class Push:
    def push_snapshot(self, s): pass


cfg = ConfigService({})
cfg.plugins = [BadMetrics(config=cfg), GoodMetrics(config=cfg), BadSpans(config=cfg), GoodSpans(config=cfg)]
trig = build_trigger("tp", "x.py", 1, {"span": "line", "snapshot": "no_collect"}, [], [MetricDefinition("m", "COUNTER")])
frame = sys._getframe()
for action in trig.actions:
    tc = TriggerContext(cfg, Push(), frame, "line", None)
    try:
        with tc:
            with tc.action_context(action) as ctx:
                if ctx.can_trigger():
                    ctx.process()
    except Exception as e:
        print(action.action_type, "aborted by", repr(e))
print("calls reaching the healthy plugins:", calls)


class OrderBoom(Plugin):
    def order(self): raise RuntimeError("bad order")

try:
    print("loaded:", [p.name for p in load_plugins(cfg, ["__main__.OrderBoom"])])
except Exception as e:
    print("load_plugins aborted by", repr(e))
