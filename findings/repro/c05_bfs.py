"""Triage repro for C05.QUEUE: the work list is popped from the end, so the search is depth-first and one
large structure crowds out the frame's own locals when the variable budget runs out."""
from deep.processor.variable_set_processor import VariableSetProcessor, VariableCacheProvider, VariableProcessorConfig

big = {"k%d" % i: {"x": i, "y": [i, i + 1]} for i in range(50)}
locals_ = {"a": 1, "big": big, "z": "last"}
lookup = {}
cfg = VariableProcessorConfig(max_variables=8)
vid, _ = VariableSetProcessor(lookup, VariableCacheProvider(), cfg).process_variable("locals", locals_)
names = [c.name for c in lookup[vid.vid].children]
print("locals recorded on the frame:", names, "(expected a, big, z before anything deeper)")
