"""Triage repro for C04.KEYS (configured window ignored) and C04.ATOMIC (check-then-record not atomic)."""
import sys, time
from deep.api.tracepoint.trigger import build_trigger
from deep.config import ConfigService
from deep.processor.context.trigger_context import TriggerContext


class Push:
    def push_snapshot(self, s): pass


now = time.time_ns()
# a window that ended an hour ago (ns and ms spellings): the action must not fire any more
for unit, div in (("ns", 1), ("ms", 1_000_000)):
    args = {"window_start": str((now - 7200 * 10**9) // div), "window_end": str((now - 3600 * 10**9) // div)}
    action = build_trigger("tp", "f.py", 1, args, [], []).actions[0]
    print("window ended 1h ago (%s): can_trigger ->" % unit, action.can_trigger(now), "| config keys:", sorted(action.config))

# two threads reach a fire_count=1 tracepoint at the same time: both pass the check before either records
cfg = ConfigService({})
action = build_trigger("tp2", "f.py", 1, {"fire_count": "1", "snapshot": "no_collect", "log_msg": "hit"}, [], []).actions[0]
frame = sys._getframe()
tc1 = TriggerContext(cfg, Push(), frame, "line", None)
tc2 = TriggerContext(cfg, Push(), frame, "line", None)
c1 = tc1.action_context(action).__enter__()
c2 = tc2.action_context(action).__enter__()
ok1 = c1.can_trigger()          # thread A: check
ok2 = c2.can_trigger()          # thread B: check (A is still collecting)
if ok1: c1.process()
if ok2: c2.process()
c1.__exit__(None, None, None); c2.__exit__(None, None, None)
print("fire_count=1, collections performed:", int(ok1) + int(ok2))
