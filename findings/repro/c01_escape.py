"""Triage repro for C01.R1 (run once by hand; not a registered check).

A method tracepoint without method_name on a file whose frames have no retrievable source makes
inspect.getsourcelines raise OSError inside TriggerHandler.trace_call, outside every guard: the
exception is raised into the application and CPython removes the trace function.
"""
import sys
from deep.api.tracepoint.trigger import build_trigger
from deep.config import ConfigService
from deep.processor.trigger_handler import TriggerHandler


class Push:
    def push_snapshot(self, s):
        pass


cfg = ConfigService({})
h = TriggerHandler(cfg, Push())
h.new_config([build_trigger("tp1", "nosource_app.py", 3, {"span": "method"}, [], [])])
src = "def f(x):\n    y = x + 1\n    return y\n"
ns = {}
exec(compile(src, "/tmp/nosource_app.py", "exec"), ns)
sys.settrace(h.trace_call)
try:
    r = ns["f"](1)
    print("app result", r, "trace still on:", sys.gettrace() is not None)
except BaseException as e:
    print("RAISED INTO APPLICATION:", type(e).__name__, e, "| trace fn now:", sys.gettrace())
finally:
    sys.settrace(None)
