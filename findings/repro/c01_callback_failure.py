"""Repro (triage only, not a registered check): C01 "tracing is not silently switched off for the thread as a
side effect of such a failure".

A method_capture tracepoint on open_handle(): capturing the returned value fails inside the deferred callback
(the value's attribute lookup raises). The failure is contained by trace_call - but __process_call_backs had
already popped the callback context, so the per-thread callback stack stays "set" and empty. Every later
line/return/exception event of that thread then fails with IndexError before tracepoint matching, so a line
tracepoint that the thread reaches afterwards never fires.

Run: PYTHONPATH=/repo/src /venv/bin/python /verif/findings/repro/c01_callback_failure.py   (exit 0 = property holds)
"""
import logging
import os
import sys
import threading

from deep.api.plugin import TracepointLogger
from deep.api.resource import Resource
from deep.api.tracepoint.trigger import build_trigger
from deep.config import ConfigService
from deep.config.tracepoint_config import TracepointConfigService
from deep.processor.trigger_handler import TriggerHandler
from deep.push.push_service import PushService

logging.getLogger("deep").addHandler(logging.NullHandler())
logging.getLogger("deep").propagate = False
THIS_FILE = os.path.basename(__file__)


class Handle:
    __slots__ = ('fd',)

    def __init__(self, fd):
        self.fd = fd

    def __getattr__(self, item):
        raise RuntimeError("handle %s is not connected, cannot look up %s" % (self.fd, item))


def open_handle(fd):
    number = fd + 1
    handle = Handle(number)
    return handle


def later_work(values):
    total = 0
    for value in values:
        total += value   # LINE_TP
    return total


LINE_TP = [i + 1 for i, ln in enumerate(open(__file__).read().splitlines()) if ln.rstrip().endswith("# LINE_TP")][0]


class MockPush(PushService):
    def __init__(self):
        super().__init__(None, None)
        self.pushed = []

    def push_snapshot(self, snapshot):
        self.pushed.append(snapshot)


class MockLogger(TracepointLogger):
    def __init__(self):
        super().__init__()
        self.logged = []

    def log_tracepoint(self, log_msg, tp_id, ctx_id):
        self.logged.append((tp_id, log_msg))


def main():
    config = ConfigService({'APP_ROOT': os.path.dirname(os.path.abspath(__file__))}, TracepointConfigService())
    config.resource = Resource.get_empty()
    config.plugins = [MockLogger()]
    push = MockPush()
    handler = TriggerHandler(config, push)
    handler.new_config([
        build_trigger("tp-capture", THIS_FILE, 0, {'stage': 'method_capture', 'method_name': 'open_handle'}, [], []),
        build_trigger("tp-line", THIS_FILE, LINE_TP, {'fire_count': '1'}, [], []),
    ])
    out = {}

    def target():
        sys.settrace(handler.trace_call)
        try:
            open_handle(41)
            out['total'] = later_work([1, 2, 3])
        finally:
            out['traced'] = sys.gettrace() == handler.trace_call
            sys.settrace(None)

    th = threading.Thread(target=target)
    th.start()
    th.join()
    ids = [s.tracepoint.id for s in push.pushed]
    print("snapshots:", ids, "still traced:", out.get('traced'), "total:", out.get('total'))
    if "tp-line" not in ids:
        print("FAIL: after one failing deferred capture the thread's later line tracepoint never fired "
              "(tracing silently switched off for the thread)")
        return 1
    print("PASS")
    return 0


if __name__ == '__main__':
    sys.exit(main())
