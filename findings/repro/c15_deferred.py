"""Triage repro for C15.IDENT (a pending capture is completed by another invocation of the same function) and
C15.THREAD (pending work lives in a class-level dict keyed by thread ident: shared between handlers, inherited by a
later thread that gets the same ident)."""
import sys, threading
from deep.api.resource import Resource
from deep.api.tracepoint.constants import STAGE, METHOD_CAPTURE, FIRE_COUNT
from deep.api.tracepoint.trigger import build_trigger
from deep.config import ConfigService
from deep.processor.trigger_handler import TriggerHandler
from deep.thread_local import ThreadLocal


class Push:
    def __init__(self): self.pushed = []
    def push_snapshot(self, s): self.pushed.append(s)


def fact(n):
    if n <= 1:
        return 1
    return n * fact(n - 1)


cfg = ConfigService({}); cfg.plugins = []; cfg.resource = Resource.create()
push = Push()
h = TriggerHandler(cfg, push)
h.new_config([build_trigger("tp", "c15_deferred.py", 0, {STAGE: METHOD_CAPTURE, "method_name": "fact", FIRE_COUNT: "1"}, [], [])])
sys.settrace(h.trace_call)
try:
    r = fact(4)
finally:
    sys.settrace(None)
s = push.pushed[0]
w = [x for x in s.watches if x.expression == "return"][0]
print("fact(4) returned", r, "- the capture opened by the outermost call fact(4) reports return value:",
      s.var_lookup[w.result.vid].value)

a, b = ThreadLocal(lambda: []), ThreadLocal(lambda: [])
a.get().append("pending work of handler A")
print("a second, unrelated ThreadLocal instance sees:", b.get())
a.clear()


def worker():
    a.get().append("left pending by a finished thread")


t1 = threading.Thread(target=worker); t1.start(); t1.join()
seen = []
for _ in range(50):
    t2 = threading.Thread(target=lambda: seen.append((threading.current_thread().ident, a.is_set and list(a.get())))); t2.start(); t2.join()
    if seen[-1][0] == t1.ident:
        break
print("a new thread with the recycled ident", seen[-1][0] == t1.ident, "inherits:", seen[-1][1])
