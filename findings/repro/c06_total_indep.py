"""Triage repro for C06: abort sites of the collector (TOTAL) and snapshots of one event sharing their table (INDEP)."""
import sys
from deep.api.tracepoint.trigger import build_trigger
from deep.config import ConfigService
from deep.api.resource import Resource
from deep.processor.context.trigger_context import TriggerContext


class Push:
    def __init__(self): self.pushed = []
    def push_snapshot(self, s): self.pushed.append(s)


class NoDict:
    __slots__ = ("x",)
    def __init__(self): self.x = 1


class BadStr:
    def __str__(self): raise RuntimeError("no str for you")
    __repr__ = __str__


def run(locals_maker, label, n_actions=1):
    cfg = ConfigService({}); cfg.plugins = []
    push = Push()

    def host():
        locals_maker(sys._getframe())
        frame = sys._getframe()
        tc = TriggerContext(cfg, push, frame, "line", None)
        actions = []
        for i in range(n_actions):
            actions += build_trigger("tp%d" % i, "f.py", 1, {}, [], []).actions
        with tc:
            for a in actions:
                try:
                    with tc.action_context(a) as c:
                        if c.can_trigger():
                            c.process()
                except BaseException as e:
                    print("  %s: action aborted by %s: %s" % (label, type(e).__name__, e))
        return push.pushed
    return host()


def slots(frame): frame.f_locals  # noqa
print("locals with an object without __dict__ (slots):")
def f1():
    cfg = ConfigService({}); cfg.plugins = []; cfg.resource = Resource.create(); push = Push()
    nd = NoDict(); other = 5
    tc = TriggerContext(cfg, push, sys._getframe(), "line", None)
    for a in build_trigger("tp", "f.py", 1, {}, [], []).actions:
        try:
            with tc.action_context(a) as c:
                c.process()
            print("  snapshot produced")
        except BaseException as e:
            print("  snapshot LOST:", type(e).__name__, e)
f1()
print("locals with a dict with a non-str key:")
def f2():
    cfg = ConfigService({}); cfg.plugins = []; cfg.resource = Resource.create(); push = Push()
    d = {1: "one"}; other = 5
    tc = TriggerContext(cfg, push, sys._getframe(), "line", None)
    for a in build_trigger("tp", "f.py", 1, {}, [], []).actions:
        try:
            with tc.action_context(a) as c:
                c.process()
            print("  snapshot produced")
        except BaseException as e:
            print("  snapshot LOST:", type(e).__name__, e)
f2()
print("locals with an object whose __str__/__repr__ raise:")
def f3():
    cfg = ConfigService({}); cfg.plugins = []; cfg.resource = Resource.create(); push = Push()
    b = BadStr(); other = 5
    tc = TriggerContext(cfg, push, sys._getframe(), "line", None)
    for a in build_trigger("tp", "f.py", 1, {}, [], []).actions:
        try:
            with tc.action_context(a) as c:
                c.process()
            print("  snapshot produced")
        except BaseException as e:
            print("  snapshot LOST:", type(e).__name__, e)
f3()
print("two snapshot tracepoints on one line:")
def f4():
    cfg = ConfigService({}); cfg.plugins = []; cfg.resource = Resource.create(); push = Push()
    a_local = 1; b_local = "two"
    tc = TriggerContext(cfg, push, sys._getframe(), "line", None)
    with tc:
        for i in range(2):
            for a in build_trigger("tp%d" % i, "f.py", 1, {}, [], []).actions:
                with tc.action_context(a) as c:
                    c.process()
    for s in push.pushed:
        print("  snapshot", s.tracepoint.id, "top frame variables:", [v.name for v in s.frames[0].variables][:4],
              "| table shared with the other snapshot:", s.var_lookup is push.pushed[0].var_lookup if s is not push.pushed[0] else "-")
f4()
