"""Triage repro for C20.ISO (handler of the resource-provider guard in Deep.start): a third-party resource provider
that overrides __init__ without calling the base constructor (so it has no name) and fails in resource() makes
the *handler* fail (it logs provider.name) - the agent does not start although only one plugin is faulty.

Run: PYTHONPATH=/repo/src /venv/bin/python /verif/findings/repro/c20_start_handler.py   (exit 0 = property holds)
"""
import sys
from unittest import mock

from deep.api.deep import Deep
from deep.api.plugin import ResourceProvider
from deep.api.resource import Resource
from deep.config import ConfigService
from deep.config.tracepoint_config import TracepointConfigService


class Vendor(ResourceProvider):
    # noinspection PyMissingConstructor
    def __init__(self, config=None):
        self.config = config          # forgets super().__init__: there is no _name

    def is_active(self):
        return True

    def resource(self):
        raise RuntimeError("cannot reach the metadata service")


class Good(ResourceProvider):
    def resource(self):
        return Resource.create({"good": "yes"})


config = ConfigService({'PLUGINS': [], 'SERVICE_URL': 'localhost:0'}, TracepointConfigService())
deep = Deep(config)
with mock.patch("deep.api.deep.load_plugins", lambda cfg, custom: [Vendor(cfg), Good(config=cfg)]), \
        mock.patch.object(deep.trigger_handler, "start"), mock.patch.object(deep.grpc, "start"), mock.patch.object(deep.poll, "start"):
    try:
        deep.start()
    except BaseException as e:
        print("FAIL: the agent did not start: %r" % e)
        sys.exit(1)
if config.resource.attributes.get("good") != "yes":
    print("FAIL: the healthy provider's resource was lost")
    sys.exit(1)
print("PASS")
