"""Triage repro for C12.ORDER: two in-flight configuration updates are applied in either order (2-worker pool,
configuration captured at submit time): an older configuration stays installed while the newer hash is reported."""
import threading
from deep.config.tracepoint_config import TracepointConfigService, ConfigUpdateListener
from deep.task import TaskHandler

svc = TracepointConfigService()
th = TaskHandler()
svc.set_task_handler(th)
installed = {}
gate = threading.Event()


class Slow(ConfigUpdateListener):
    """stands for a worker thread that is descheduled while applying the first update"""
    def config_change(self, ts, old_hash, current_hash, old_config, new_config):
        if current_hash == "hash-1":
            gate.wait(5)


class Handler(ConfigUpdateListener):
    def config_change(self, ts, old_hash, current_hash, old_config, new_config):
        installed["config"] = new_config


svc.add_listener(Slow())
svc.add_listener(Handler())
svc.update_new_config(1, "hash-1", ["tracepoints of response 1"])
svc.update_new_config(2, "hash-2", ["tracepoints of response 2"])
import time; time.sleep(0.3)          # update 2 is applied by the second worker
gate.set()                            # update 1 now finishes - last
th.flush()
print("hash reported in the next poll:", svc.current_hash)
print("configuration the trigger handler acts on:", installed["config"])
