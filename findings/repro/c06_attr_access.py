"""Repro (triage only): C06 "objects whose ... attribute access raise ... a due snapshot is still produced, with
every other variable intact and the offending value represented by a placeholder".

1. A local holding a slotted proxy whose __getattr__ raises RuntimeError: hasattr(value, '__dict__') only
   swallows AttributeError, the error aborts the whole snapshot.
2. A method whose `self` forwards __class__ through a property with a side effect (lazy proxies do this): the
   frame collector reads self.__class__ and so runs program code / changes program state.

Run: PYTHONPATH=/repo/src /venv/bin/python /verif/findings/repro/c06_attr_access.py   (exit 0 = property holds)
"""
import logging
import os
import sys
import threading

from deep.api.resource import Resource
from deep.api.tracepoint.trigger import build_trigger
from deep.config import ConfigService
from deep.config.tracepoint_config import TracepointConfigService
from deep.processor.trigger_handler import TriggerHandler
from deep.push.push_service import PushService

logging.getLogger("deep").addHandler(logging.NullHandler())
logging.getLogger("deep").propagate = False
THIS_FILE = os.path.basename(__file__)


class Handle:
    __slots__ = ('fd',)

    def __init__(self, fd):
        self.fd = fd

    def __getattr__(self, item):
        raise RuntimeError("handle %s is not connected, cannot look up %s" % (self.fd, item))


def use_handle():
    other = "still here"
    handle = Handle(3)
    return other, handle  # TP1


class Lazy:
    evaluated = 0

    @property
    def __class__(self):
        Lazy.evaluated += 1
        return Lazy

    def work(self):
        x = 1
        return x  # TP2


def line_of(tag):
    return [i + 1 for i, ln in enumerate(open(__file__).read().splitlines()) if ln.rstrip().endswith("# " + tag)][0]


class MockPush(PushService):
    def __init__(self):
        super().__init__(None, None)
        self.pushed = []

    def push_snapshot(self, snapshot):
        self.pushed.append(snapshot)


def main():
    config = ConfigService({'APP_ROOT': os.path.dirname(os.path.abspath(__file__))}, TracepointConfigService())
    config.resource = Resource.get_empty()
    config.plugins = []
    push = MockPush()
    handler = TriggerHandler(config, push)
    handler.new_config([
        build_trigger("tp-1", THIS_FILE, line_of("TP1"), {}, [], []),
        build_trigger("tp-2", THIS_FILE, line_of("TP2"), {}, [], []),
    ])

    def target():
        sys.settrace(handler.trace_call)
        try:
            use_handle()
            Lazy().work()
        finally:
            sys.settrace(None)

    th = threading.Thread(target=target)
    th.start()
    th.join()
    bad = []
    snaps = {s.tracepoint.id: s for s in push.pushed}
    if "tp-1" not in snaps:
        bad.append("no snapshot for the frame holding a slotted object whose __getattr__ raises RuntimeError")
    else:
        s = snaps["tp-1"]
        names = {v.name for v in s.frames[0].variables}
        if names != {"other", "handle"}:
            bad.append("frame variables %s, expected other and handle" % sorted(names))
    if Lazy.evaluated:
        bad.append("the collector ran the program's __class__ property of `self` %d time(s)" % Lazy.evaluated)
    if "tp-2" not in snaps:
        bad.append("no snapshot for the method of the lazy object")
    if bad:
        print("FAIL")
        for b in bad:
            print(" -", b)
        return 1
    print("PASS")
    return 0


if __name__ == '__main__':
    sys.exit(main())
