#!/bin/sh
# regenerate the evidence of all twenty checks from /repo as it stands, then MANIFEST.json and the rule table of DESIGN 7.8
set -e
cd /verif
for i in 01 02 03 04 05 06 07 08 09 10 11 12 13 14 15 16 17 18 19 20; do
  /venv/bin/python sa/check.py C$i --tier quick > /tmp/final_C$i.log 2>&1 || { echo "C$i exit $?"; tail -3 /tmp/final_C$i.log; }
done
grep -h "KNOWN-FINDING\|VIOLATION\|ANALYSIS-ERROR" /tmp/final_C*.log || true
/venv/bin/python sa/mkmanifest.py
/venv/bin/python sa/mkrules_table.py
python3-vt - <<'PY'
import json, jsonschema
m = json.load(open('/verif/MANIFEST.json')); jsonschema.validate(m, json.load(open('/root/.vp/MANIFEST.schema.json')))
s = json.load(open('/root/.vp/EVIDENCE.schema.json'))
import glob
for f in sorted(glob.glob('/verif/evidence/C*.json')):
    jsonschema.validate(json.load(open(f)), s)
print("manifest and", len(glob.glob('/verif/evidence/C*.json')), "evidence files valid")
PY
rm -f /tmp/final_C*.log
