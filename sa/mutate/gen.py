"""Systematic mutant generator for the sweep (`sa/mutate/sweep.py`): classic mutation operators applied
node by node to the repository's python sources. Each mutant is one textual splice of the original file, so
everything else stays byte-identical. Generated protobuf code and license/docstring text are not mutated.

A mutant is a dict: id, file (relative to the repo), func, line, op, before, after, start, end (offsets in the file).
"""
import ast
import os
from typing import List

SKIP_DIRS = ("deepproto",)

CMP_SWAP = {
    ast.Lt: [ast.LtE, ast.Gt], ast.LtE: [ast.Lt, ast.GtE], ast.Gt: [ast.GtE, ast.Lt], ast.GtE: [ast.Gt, ast.LtE],
    ast.Eq: [ast.NotEq], ast.NotEq: [ast.Eq], ast.Is: [ast.IsNot], ast.IsNot: [ast.Is],
    ast.In: [ast.NotIn], ast.NotIn: [ast.In],
}
BIN_SWAP = {ast.Add: ast.Sub, ast.Sub: ast.Add, ast.Mult: ast.FloorDiv, ast.Div: ast.Mult, ast.FloorDiv: ast.Mult,
            ast.Mod: ast.Mult}


class _Offsets:
    def __init__(self, src: str):
        self.src = src
        self.line_starts = [0]
        for ln in src.splitlines(keepends=True):
            self.line_starts.append(self.line_starts[-1] + len(ln.encode()))
        self.bsrc = src.encode()

    def span(self, node):
        s = self.line_starts[node.lineno - 1] + node.col_offset
        e = self.line_starts[node.end_lineno - 1] + node.end_col_offset
        return s, e

    def text(self, s, e):
        return self.bsrc[s:e].decode()


def _is_docstring(stmt, parent):
    return (isinstance(stmt, ast.Expr) and isinstance(stmt.value, ast.Constant) and isinstance(stmt.value.value, str)
            and getattr(parent, "body", None) and parent.body[0] is stmt)


def mutants_of_file(repo: str, rel: str) -> List[dict]:
    path = os.path.join(repo, rel)
    src = open(path).read()
    tree = ast.parse(src)
    off = _Offsets(src)
    out: List[dict] = []
    parents = {}
    for n in ast.walk(tree):
        for c in ast.iter_child_nodes(n):
            parents[c] = n

    def func_of(n):
        names = []
        while n in parents:
            n = parents[n]
            if isinstance(n, (ast.FunctionDef, ast.AsyncFunctionDef, ast.ClassDef)):
                names.append(n.name)
        return ".".join(reversed(names)) or "<module>"

    def in_annotation_or_decorator(n):
        c = n
        while c in parents:
            p = parents[c]
            if isinstance(p, (ast.FunctionDef, ast.AsyncFunctionDef)):
                if c in p.decorator_list or c is p.returns:
                    return True
            if isinstance(p, ast.arg) and c is p.annotation:
                return True
            if isinstance(p, ast.AnnAssign) and c is p.annotation:
                return True
            if isinstance(p, ast.ClassDef) and (c in p.decorator_list or c in p.bases):
                return True
            c = p
        return False

    def add(node, op, new_text, s=None, e=None):
        if s is None:
            s, e = off.span(node)
        before = off.text(s, e)
        if before == new_text:
            return
        out.append({"file": rel, "func": func_of(node), "line": node.lineno, "op": op, "before": before[:200],
                    "after": new_text[:200], "start": s, "end": e, "new": new_text})

    def indent_of(stmt):
        return " " * stmt.col_offset

    for node in ast.walk(tree):
        if isinstance(node, ast.expr) and in_annotation_or_decorator(node):
            continue
        # ---- expressions
        if isinstance(node, ast.Compare) and len(node.ops) == 1:
            for alt in CMP_SWAP.get(type(node.ops[0]), []):
                new = ast.Compare(left=node.left, ops=[alt()], comparators=node.comparators)
                add(node, "cmp", "(" + ast.unparse(new) + ")")
        elif isinstance(node, ast.BoolOp):
            alt = ast.Or if isinstance(node.op, ast.And) else ast.And
            add(node, "boolop", "(" + ast.unparse(ast.BoolOp(op=alt(), values=node.values)) + ")")
            # drop one operand
            if len(node.values) == 2:
                for i in (0, 1):
                    add(node, "boolop-drop%d" % i, "(" + ast.unparse(node.values[1 - i]) + ")")
        elif isinstance(node, ast.UnaryOp) and isinstance(node.op, ast.Not):
            add(node, "not-drop", "(" + ast.unparse(node.operand) + ")")
        elif isinstance(node, ast.BinOp) and type(node.op) in BIN_SWAP:
            if isinstance(node.op, ast.Mod) and isinstance(node.left, ast.Constant) and isinstance(node.left.value, str):
                continue   # string formatting
            if isinstance(node.op, ast.Add) and any(isinstance(x, ast.Constant) and isinstance(x.value, str)
                                                    for x in (node.left, node.right)):
                continue
            new = ast.BinOp(left=node.left, op=BIN_SWAP[type(node.op)](), right=node.right)
            add(node, "binop", "(" + ast.unparse(new) + ")")
        elif isinstance(node, ast.IfExp):
            add(node, "ifexp-swap", "(" + ast.unparse(ast.IfExp(test=node.test, body=node.orelse, orelse=node.body)) + ")")
        elif isinstance(node, ast.Constant):
            p = parents.get(node)
            if isinstance(p, ast.Expr):
                continue   # docstring / bare string
            if isinstance(p, ast.JoinedStr) or isinstance(p, ast.FormattedValue):
                continue
            v = node.value
            if v is True or v is False:
                add(node, "const-bool", repr(not v))
            elif isinstance(v, int):
                add(node, "const-int+1", repr(v + 1))
                if v != 0:
                    add(node, "const-int-1", repr(v - 1))
                if v not in (0, 1):
                    add(node, "const-int0", "0")
            elif isinstance(v, float):
                add(node, "const-float", repr(v * 2 + 1))
            elif isinstance(v, str) and v and len(v) < 40 and "\n" not in v:
                # only keys / identifiers, not messages (messages with spaces are log text)
                if " " not in v and "%" not in v:
                    add(node, "const-str", repr(v + "_x"))
            elif v is None and isinstance(p, (ast.Return, ast.keyword, ast.Call)):
                pass
        elif isinstance(node, ast.Call):
            if len(node.args) >= 2 and not any(isinstance(a, ast.Starred) for a in node.args[:2]):
                a0, a1 = ast.unparse(node.args[0]), ast.unparse(node.args[1])
                if a0 != a1:
                    new = ast.Call(func=node.func, args=[node.args[1], node.args[0]] + node.args[2:], keywords=node.keywords)
                    add(node, "arg-swap", ast.unparse(new))
        elif isinstance(node, ast.Subscript):
            if isinstance(node.slice, ast.Slice) and not in_annotation_or_decorator(node):
                sl = node.slice
                if sl.upper is not None and sl.lower is None:
                    new = ast.Subscript(value=node.value, slice=ast.Slice(lower=None, upper=ast.BinOp(left=sl.upper, op=ast.Add(), right=ast.Constant(1)), step=sl.step), ctx=node.ctx)
                    add(node, "slice+1", ast.unparse(new))

        # ---- statements
        if isinstance(node, (ast.If, ast.While)):
            s, e = off.span(node.test)
            add(node.test, "neg-cond", "not (" + off.text(s, e) + ")")
            if isinstance(node, ast.If):
                add(node.test, "cond-true", "True", s, e)
                add(node.test, "cond-false", "False", s, e)
        if isinstance(node, ast.stmt):
            p = parents.get(node)
            if _is_docstring(node, p):
                continue
            if isinstance(node, (ast.Expr, ast.Assign, ast.AugAssign, ast.Delete, ast.Break, ast.Continue, ast.Raise)) \
                    or (isinstance(node, ast.AnnAssign) and node.value is not None):
                if isinstance(p, ast.ClassDef) or isinstance(p, ast.Module):
                    if not isinstance(node, ast.Expr):
                        pass
                    else:
                        continue
                if isinstance(node, ast.Assign) and isinstance(p, (ast.Module, ast.ClassDef)):
                    continue
                if isinstance(node, ast.AnnAssign) and isinstance(p, (ast.Module, ast.ClassDef)):
                    continue
                add(node, "stmt-del", "pass")
            if isinstance(node, ast.Return) and node.value is not None:
                if not (isinstance(node.value, ast.Constant) and node.value.value is None):
                    add(node, "return-none", "return None")
                if isinstance(node.value, ast.Constant) and node.value.value in (True, False):
                    pass  # covered by const-bool
            if isinstance(node, ast.AugAssign):
                s, e = off.span(node)
                tgt = ast.unparse(node.target)
                add(node, "aug-to-assign", "%s = %s" % (tgt, ast.unparse(node.value)))
            if isinstance(node, ast.With) and all(i.optional_vars is None for i in node.items):
                # drop the context manager (lock): `with X:` -> `if True:`
                s, _ = off.span(node)
                e = off.line_starts[node.body[0].lineno - 1] if node.body[0].lineno > node.lineno else None
                if e is not None:
                    hdr = off.text(s, e)
                    colon = hdr.rstrip().rfind(":")
                    add(node, "with-drop", "if True:", s, s + len(hdr[:colon + 1].encode()))
            if isinstance(node, ast.Try):
                for h in node.handlers:
                    if h.type is not None:
                        t = ast.unparse(h.type)
                        if t == "BaseException":
                            add(h.type, "except-narrow", "Exception")
                        elif t == "Exception":
                            add(h.type, "except-narrow", "ValueError")
                        else:
                            add(h.type, "except-narrow", "KeyboardInterrupt")
                    # handler re-raises
                    b0, b1 = h.body[0], h.body[-1]
                    s = off.line_starts[b0.lineno - 1] + b0.col_offset
                    e = off.line_starts[b1.end_lineno - 1] + b1.end_col_offset
                    add(b0, "except-reraise", "raise", s, e)
                if node.finalbody:
                    b0, b1 = node.finalbody[0], node.finalbody[-1]
                    s = off.line_starts[b0.lineno - 1] + b0.col_offset
                    e = off.line_starts[b1.end_lineno - 1] + b1.end_col_offset
                    add(b0, "finally-drop", "pass", s, e)
            if isinstance(node, ast.For) and not node.orelse:
                s, e = off.span(node.iter)
                add(node.iter, "for-first-only", "list(" + off.text(s, e) + ")[:1]", s, e)
    # statement swap: adjacent simple statements in a function body
    for node in ast.walk(tree):
        body_lists = []
        for fld in ("body", "orelse", "finalbody"):
            b = getattr(node, fld, None)
            if isinstance(b, list) and b and isinstance(b[0], ast.stmt):
                body_lists.append(b)
        if isinstance(node, (ast.Module, ast.ClassDef)):
            continue
        for b in body_lists:
            for i in range(len(b) - 1):
                x, y = b[i], b[i + 1]
                simple = (ast.Expr, ast.Assign, ast.AugAssign, ast.AnnAssign)
                if isinstance(x, simple) and isinstance(y, simple) and not _is_docstring(x, node):
                    if x.col_offset != y.col_offset:
                        continue
                    sx, ex = off.span(x)
                    sy, ey = off.span(y)
                    tx, ty = off.text(sx, ex), off.text(sy, ey)
                    if "\n" in off.text(ex, sy).strip("\n ").strip():
                        continue
                    new = ty + off.text(ex, sy) + tx
                    add(x, "stmt-swap", new, sx, ey)
    # de-duplicate and number
    seen = set()
    res = []
    for m in out:
        k = (m["start"], m["end"], m["new"])
        if k in seen:
            continue
        seen.add(k)
        res.append(m)
    res.sort(key=lambda m: (m["line"], m["start"], m["op"], m["new"]))
    for i, m in enumerate(res):
        m["id"] = "%s:%d:%s:%d" % (rel.replace("src/deep/", "").replace("/", "."), m["line"], m["op"], i)
    return res


def apply(src_bytes: bytes, m: dict) -> bytes:
    return src_bytes[:m["start"]] + m["new"].encode() + src_bytes[m["end"]:]


def all_files(repo: str) -> List[str]:
    out = []
    root = os.path.join(repo, "src", "deep")
    for dp, dn, fn in os.walk(root):
        dn[:] = sorted(d for d in dn if d not in SKIP_DIRS and d != "__pycache__")
        for f in sorted(fn):
            if f.endswith(".py"):
                out.append(os.path.relpath(os.path.join(dp, f), repo))
    return sorted(out)


if __name__ == "__main__":
    import sys
    repo = sys.argv[1] if len(sys.argv) > 1 else "/repo"
    tot = 0
    for rel in all_files(repo):
        ms = mutants_of_file(repo, rel)
        ok = 0
        for m in ms:
            try:
                compile(apply(open(os.path.join(repo, rel), "rb").read(), m), rel, "exec")
                ok += 1
            except SyntaxError:
                pass
        print("%-60s %5d mutants, %5d compile" % (rel, len(ms), ok))
        tot += ok
    print("total", tot)
