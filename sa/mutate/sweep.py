#!/venv/bin/python
"""Mutation sweep: every mutant of `gen.py` is (a) analysed by all 20 checks and (b) run through the
repository's unedited test suite, both on scratch copies under $TMPDIR/verif-mut (outside /repo and /verif,
removed at the end). The sweep is a development instrument for the checkers (which mutants that pass the tests
stay silent?) - it is not registered in MANIFEST.json and decides no property.

  sweep.py checks [-j N] [--only SUBSTR] [--out FILE]     static checks on every mutant
  sweep.py tests  [-j N] [--only SUBSTR] [--out FILE]     test suite on every mutant (-x, 169 baseline tests)
  sweep.py report                                         join both result files

Results are JSON lines keyed by mutant id; a rerun skips ids already present.
"""
import argparse
import json
import os
import shutil
import subprocess
import sys
import tempfile
import threading
from concurrent.futures import ThreadPoolExecutor

HERE = os.path.dirname(os.path.abspath(__file__))
SA = os.path.dirname(HERE)
VERIF = os.path.dirname(SA)
sys.path.insert(0, VERIF)
from sa.mutate import gen  # noqa: E402

REPO = os.environ.get("DEEP_VERIF_REPO", "/repo")
PY = "/venv/bin/python"
OUTDIR = os.path.join(VERIF, "findings", "sweep")
ROOT = os.path.join(tempfile.gettempdir(), "verif-mut-%d" % os.getpid())

TAG = [""]
_local = threading.local()
_lock = threading.Lock()
_n = [0]


def scratch():
    d = getattr(_local, "dir", None)
    if d is None:
        with _lock:
            _n[0] += 1
            d = os.path.join(ROOT, "w%d_%d" % (os.getpid(), _n[0]))
        if os.path.exists(d):
            shutil.rmtree(d)
        shutil.copytree(REPO, d, ignore=shutil.ignore_patterns(".git", "__pycache__", "*.pyc", "*.egg-info", ".pytest_cache"))
        _local.dir = d
    return d


def with_mutant(m, fn):
    d = scratch()
    path = os.path.join(d, m["file"])
    orig = open(os.path.join(REPO, m["file"]), "rb").read()
    open(path, "wb").write(gen.apply(orig, m))
    try:
        return fn(d)
    finally:
        open(path, "wb").write(orig)


def run_checks(m):
    def go(d):
        try:
            out = subprocess.run([PY, os.path.join(SA, "multi.py"), "--repo", d], capture_output=True, text=True, timeout=900)
            line = [l for l in out.stdout.splitlines() if l.startswith("{")]
            if not line:
                return {"id": m["id"], "error": (out.stdout + out.stderr)[-300:]}
            r = json.loads(line[-1])
            return {"id": m["id"],
                    "violation": {p: v["rules"] for p, v in r.items() if v["status"] == "violation"},
                    "error": {p: v["error"] for p, v in r.items() if v["status"] == "error"}}
        except subprocess.TimeoutExpired:
            return {"id": m["id"], "error": "timeout"}
    return with_mutant(m, go)


def run_tests(m):
    def go(d):
        cmd = ("cd %s && unshare -n sh -c 'ip link set lo up; %s -m pytest -x -q -p no:cacheprovider --timeout=300 "
               "--ignore=tests/unit_tests/api/plugin/metrics/test_otel_metrics.py tests'" % (d, PY))
        try:
            out = subprocess.run(cmd, shell=True, capture_output=True, text=True, timeout=1200)
            tail = out.stdout.strip().splitlines()[-1] if out.stdout.strip() else ""
            return {"id": m["id"], "tests_pass": out.returncode == 0 and "169 passed" in tail, "tail": tail[-160:]}
        except subprocess.TimeoutExpired:
            return {"id": m["id"], "tests_pass": False, "tail": "timeout"}
    return with_mutant(m, go)


def all_mutants(only=None):
    ms = []
    for rel in gen.all_files(REPO):
        for m in gen.mutants_of_file(REPO, rel):
            if only and not any(o in m["id"] for o in only):
                continue
            ms.append(m)
    return ms


def load(path):
    d = {}
    if os.path.exists(path):
        for ln in open(path):
            ln = ln.strip()
            if ln:
                r = json.loads(ln)
                d[r["id"]] = r
    return d


def snapshot_repo():
    """Work from a private snapshot so that seeds being applied to /repo meanwhile cannot race with the sweep."""
    global REPO
    if subprocess.run("git -C %s status --porcelain" % REPO, shell=True, capture_output=True, text=True).stdout.strip():
        sys.exit("the repository has uncommitted changes: not sweeping")
    base = os.path.join(ROOT, "base")
    shutil.copytree(REPO, base, ignore=shutil.ignore_patterns(".git", "__pycache__", "*.pyc", "*.egg-info", ".pytest_cache"))
    REPO = base


def stage(name, fn, jobs, only, out):
    os.makedirs(OUTDIR, exist_ok=True)
    os.makedirs(ROOT, exist_ok=True)
    snapshot_repo()
    done = load(out)
    todo = [m for m in all_mutants(only) if m["id"] not in done]
    if name == "tests":
        # mutants on which every check stayed silent first: those are the ones to triage
        ck = load(os.path.join(OUTDIR, "checks%s.jsonl" % TAG[0]))
        todo.sort(key=lambda m: 0 if (m["id"] in ck and not ck[m["id"]].get("violation") and not ck[m["id"]].get("error")) else 1)
    print("%s: %d mutants to do (%d done)" % (name, len(todo), len(done)), flush=True)
    fh = open(out, "a")
    n = 0
    try:
        with ThreadPoolExecutor(max_workers=jobs) as ex:
            for r in ex.map(fn, todo):
                fh.write(json.dumps(r) + "\n")
                fh.flush()
                n += 1
                if n % 50 == 0:
                    print("  %d/%d" % (n, len(todo)), flush=True)
    finally:
        fh.close()
        shutil.rmtree(ROOT, ignore_errors=True)


def report(args):
    ck = load(os.path.join(OUTDIR, "checks%s.jsonl" % args.tag))
    ts = load(os.path.join(OUTDIR, "tests%s.jsonl" % args.tag))
    ms = {m["id"]: m for m in all_mutants()}
    rows = []
    for mid, m in ms.items():
        c, t = ck.get(mid), ts.get(mid)
        if c is None:
            continue
        flagged = bool(c.get("violation")) if isinstance(c.get("violation"), dict) else False
        errored = bool(c.get("error"))
        rows.append((mid, m, flagged, errored, None if t is None else t["tests_pass"], c))
    tot = len(rows)
    fl = sum(1 for r in rows if r[2])
    er = sum(1 for r in rows if r[3] and not r[2])
    print("mutants analysed: %d  flagged by a check: %d  analysis-error only: %d  silent: %d" % (tot, fl, er, tot - fl - er))
    tp = [r for r in rows if r[4] is True]
    print("pass the unedited test suite: %d ; of those flagged: %d, analysis-error: %d, silent: %d" % (
        len(tp), sum(1 for r in tp if r[2]), sum(1 for r in tp if r[3] and not r[2]), sum(1 for r in tp if not r[2] and not r[3])))
    surv = [r for r in rows if not r[2] and not r[3] and r[4] is not False]
    path = os.path.join(OUTDIR, "survivors%s.json" % args.tag)
    json.dump([{"id": r[0], "file": r[1]["file"], "func": r[1]["func"], "line": r[1]["line"], "op": r[1]["op"],
                "before": r[1]["before"], "after": r[1]["after"], "tests_pass": r[4]} for r in surv],
              open(path, "w"), indent=1)
    print("survivors (silent and not killed by the tests): %d -> %s" % (len(surv), path))
    byf = {}
    for r in surv:
        k = r[1]["file"] + " :: " + r[1]["func"]
        byf[k] = byf.get(k, 0) + 1
    for k, v in sorted(byf.items(), key=lambda kv: -kv[1])[:80]:
        print("  %4d %s" % (v, k))


if __name__ == "__main__":
    ap = argparse.ArgumentParser()
    ap.add_argument("cmd", choices=["checks", "tests", "report", "probe"])
    ap.add_argument("--pids", default="")
    ap.add_argument("-j", type=int, default=14)
    ap.add_argument("--only", action="append")
    ap.add_argument("--out")
    ap.add_argument("--tag", default="", help="suffix of the result files (checks<tag>.jsonl / tests<tag>.jsonl)")
    a = ap.parse_args()
    if a.cmd == "checks":
        stage("checks", run_checks, a.j, a.only, a.out or os.path.join(OUTDIR, "checks%s.jsonl" % a.tag))
    elif a.cmd == "tests":
        TAG[0] = a.tag
        stage("tests", run_tests, a.j, a.only, a.out or os.path.join(OUTDIR, "tests%s.jsonl" % a.tag))
    elif a.cmd == "probe":
        # run (some) checks on the mutants selected with --only, print the verdicts, keep nothing
        os.makedirs(ROOT, exist_ok=True)
        snapshot_repo()
        pids = a.pids.split(",") if a.pids else []

        def one(m):
            def go(d):
                out = subprocess.run([PY, os.path.join(SA, "multi.py"), "--repo", d] + pids, capture_output=True, text=True, timeout=900)
                line = [l for l in out.stdout.splitlines() if l.startswith("{")]
                r = json.loads(line[-1]) if line else {}
                return m, {p_: (v["rules"] or v["error"][:80]) for p_, v in r.items() if v["status"] != "ok"}
            return with_mutant(m, go)
        try:
            with ThreadPoolExecutor(max_workers=a.j) as ex:
                for m, r in ex.map(one, all_mutants(a.only)):
                    print("%-60s %-40s -> %-40s %s" % (m["id"], m["before"][:40].replace("\n", "\\n"), m["after"][:40].replace("\n", "\\n"), r or "SILENT"))
        finally:
            shutil.rmtree(ROOT, ignore_errors=True)
    else:
        report(a)
