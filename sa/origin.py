"""E5 - origin expansion: rewrite an expression into canonical text over its origin atoms.

Locals are replaced by their definitions, property reads by the getter's return expression (receiver
substituted for `self`), calls to small repo functions by their return expressions (arguments bound through
the real signature), module constants by their literal value, private attributes by their mangled name.
Parameters of the function the expansion started in are written `@name`. Loop-carried or multiply defined
locals yield several alternatives. Nothing is executed.
"""
import ast
import copy
from typing import Dict, List, Optional

from .index import Program, FuncInfo, norm
from .typesys import Types

MAX_ALT = 12


class Expander:
    def __init__(self, prog: Program, types: Types, max_depth: int = 4):
        self.p = prog
        self.t = types
        self.max_depth = max_depth

    # ------------------------------------------------------------------ public
    def expand(self, e: ast.expr, fi: FuncInfo, depth: Optional[int] = None) -> List[str]:
        alts = self._ex(e, fi, {}, self.max_depth if depth is None else depth, frozenset())
        out = []
        for a in alts:
            s = norm(a)
            if s not in out:
                out.append(s)
        return out

    def expand_nodes(self, e: ast.expr, fi: FuncInfo, depth: Optional[int] = None) -> List[ast.expr]:
        return self._ex(e, fi, {}, self.max_depth if depth is None else depth, frozenset())

    # ------------------------------------------------------------------ core
    def _ex(self, e, fi: FuncInfo, env: Dict[str, List[ast.expr]], depth: int, busy) -> List[ast.expr]:
        if isinstance(e, ast.Constant):
            return [e]
        if isinstance(e, ast.Name):
            return self._name(e, fi, env, depth, busy)
        if isinstance(e, ast.Attribute):
            return self._attr(e, fi, env, depth, busy)
        if isinstance(e, ast.Call):
            return self._call(e, fi, env, depth, busy)
        if isinstance(e, ast.Subscript):
            out = []
            for v in self._ex(e.value, fi, env, depth, busy):
                for s in self._ex(e.slice, fi, env, depth, busy):
                    out.append(ast.Subscript(value=v, slice=s, ctx=ast.Load()))
            return out[:MAX_ALT]
        if isinstance(e, ast.IfExp):
            # both branches are alternatives; the test is kept in the text so that a changed test is visible
            out = []
            for t in self._ex(e.test, fi, env, depth, busy)[:2]:
                for b in self._ex(e.body, fi, env, depth, busy)[:3]:
                    for o in self._ex(e.orelse, fi, env, depth, busy)[:3]:
                        out.append(ast.IfExp(test=t, body=b, orelse=o))
            return out[:MAX_ALT]
        if isinstance(e, (ast.Tuple, ast.List, ast.Set)):
            return self._product(e, "elts", [self._ex(x, fi, env, depth, busy) for x in e.elts])
        if isinstance(e, ast.BinOp):
            out = []
            for l in self._ex(e.left, fi, env, depth, busy)[:3]:
                for r in self._ex(e.right, fi, env, depth, busy)[:3]:
                    out.append(ast.BinOp(left=l, op=e.op, right=r))
            return out
        if isinstance(e, ast.UnaryOp):
            return [ast.UnaryOp(op=e.op, operand=o) for o in self._ex(e.operand, fi, env, depth, busy)]
        if isinstance(e, ast.BoolOp):
            return self._product(e, "values", [self._ex(x, fi, env, depth, busy) for x in e.values])
        if isinstance(e, ast.Compare):
            out = []
            for l in self._ex(e.left, fi, env, depth, busy)[:3]:
                comps = [self._ex(c, fi, env, depth, busy)[:2] for c in e.comparators]
                for combo in self._combos(comps):
                    out.append(ast.Compare(left=l, ops=e.ops, comparators=list(combo)))
            return out[:MAX_ALT]
        if isinstance(e, ast.Dict):
            vals = [self._ex(v, fi, env, depth, busy)[:2] if v is not None else [ast.Constant(None)] for v in e.values]
            keys = [self._ex(k, fi, env, depth, busy)[:1] if k is not None else [ast.Constant(None)] for k in e.keys]
            out = []
            for combo in self._combos(vals):
                out.append(ast.Dict(keys=[k[0] for k in keys], values=list(combo)))
            return out[:MAX_ALT]
        if isinstance(e, (ast.ListComp, ast.SetComp, ast.GeneratorExp)):
            # keep the shape: elt and iterables expanded, comprehension variables left as they are
            bound = set()
            for g_ in e.generators:
                for n in ast.walk(g_.target):
                    if isinstance(n, ast.Name):
                        bound.add(n.id)
            env2 = dict(env)
            for b in bound:
                env2[b] = [ast.Name(id=b, ctx=ast.Load())]
            gens = []
            for g_ in e.generators:
                its = self._ex(g_.iter, fi, env, depth, busy)
                # the filters are expanded as well (an inlined helper's parameters are replaced by the caller's arguments there too)
                ifs_ = [self._ex(i_, fi, env2, depth, busy)[0] for i_ in g_.ifs]
                gens.append(ast.comprehension(target=g_.target, iter=its[0], ifs=ifs_, is_async=0))
            elts = self._ex(e.elt, fi, env2, depth, busy)
            return [type(e)(elt=elts[0], generators=gens)]
        if isinstance(e, ast.JoinedStr):
            vals = []
            for v in e.values:
                if isinstance(v, ast.FormattedValue):
                    vals.append(ast.FormattedValue(value=self._ex(v.value, fi, env, depth, busy)[0],
                                                   conversion=v.conversion, format_spec=v.format_spec))
                else:
                    vals.append(v)
            return [ast.JoinedStr(values=vals)]
        if isinstance(e, ast.Starred):
            return [ast.Starred(value=v, ctx=ast.Load()) for v in self._ex(e.value, fi, env, depth, busy)]
        if isinstance(e, ast.Slice):
            lo = self._ex(e.lower, fi, env, depth, busy)[0] if e.lower is not None else None
            up = self._ex(e.upper, fi, env, depth, busy)[0] if e.upper is not None else None
            st = self._ex(e.step, fi, env, depth, busy)[0] if e.step is not None else None
            return [ast.Slice(lower=lo, upper=up, step=st)]
        if isinstance(e, ast.Lambda):
            return [e]
        return [e]

    def _combos(self, lists):
        out = [()]
        for lst in lists:
            out = [o + (x,) for o in out for x in lst][:MAX_ALT]
        return out

    def _product(self, e, field, lists):
        out = []
        for combo in self._combos([l[:3] for l in lists]):
            n = copy.copy(e)
            setattr(n, field, list(combo))
            out.append(n)
        return out[:MAX_ALT]

    # ------------------------------------------------------------------ names
    def _name(self, e: ast.Name, fi, env, depth, busy):
        if e.id in env:
            return env[e.id]
        if e.id.startswith("@") or e.id.startswith("<"):
            return [e]
        # enclosing functions' locals (closures) are looked up in their own function
        f = fi
        while f is not None:
            binds = self.t.local_bindings(f, e.id)
            if binds:
                return self._from_bindings(e, f, binds, env if f is fi else {}, depth, busy)
            f = f.parent
        m = fi.module
        r = self.p.resolve_expr_static(m, e, fi.cls, fi)
        if r is not None:
            if r[0] == "const":
                try:
                    return [ast.Constant(self.p.const_value(r[1], r[2]))]
                except (KeyError, TypeError):
                    return [ast.Name(id="%s.%s" % (r[1].name, r[2]), ctx=ast.Load())]
            if r[0] == "func":
                return [ast.Name(id=r[1].qname, ctx=ast.Load())]
            if r[0] == "cls":
                return [ast.Name(id=r[1].qname, ctx=ast.Load())]
            if r[0] == "mod":
                return [ast.Name(id=r[1].name, ctx=ast.Load())]
            if r[0] == "ext":
                d = r[1]
                return [ast.Name(id=d[9:] if d.startswith("builtins.") else d, ctx=ast.Load())]
        return [e]

    def _from_bindings(self, e, f, binds, env, depth, busy):
        key = (self.t.fkey(f), e.id)
        if key in busy:
            return [ast.Name(id="<loop:%s>" % e.id, ctx=ast.Load())]
        busy2 = busy | {key}
        out = []
        for kind, b in binds:
            if kind == "param":
                out.append(ast.Name(id="@" + e.id, ctx=ast.Load()))
            elif kind in ("vararg", "kwarg"):
                out.append(ast.Name(id="@*" + e.id, ctx=ast.Load()))
            elif kind == "ann":
                if b.value is not None:
                    out += self._ex(b.value, f, env, depth, busy2)
            elif kind == "aug":
                out.append(ast.Name(id="<aug:%s>" % e.id, ctx=ast.Load()))
            elif kind == "except":
                out.append(ast.Name(id="<caught:%s>" % (norm(b.type) if b.type is not None else "BaseException"),
                                    ctx=ast.Load()))
            elif kind == "import":
                r = self.p.resolve_name_in_module(f.module, e.id)
                out.append(ast.Name(id=(r[1].qname if r and r[0] in ("func", "cls") else e.id), ctx=ast.Load()))
            else:
                tgt, value, idx = b
                if value is None:
                    out.append(ast.Name(id="<unpack:%s>" % e.id, ctx=ast.Load()))
                    continue
                vals = self._ex(value, f, env, depth, busy2)
                for v in vals:
                    if kind == "for":
                        v = ast.Call(func=ast.Name(id="<elem>", ctx=ast.Load()), args=[v], keywords=[])
                    elif kind == "with":
                        v = ast.Call(func=ast.Name(id="<enter>", ctx=ast.Load()), args=[v], keywords=[])
                    if idx is not None:
                        if isinstance(v, (ast.Tuple, ast.List)) and idx < len(v.elts):
                            v = v.elts[idx]
                        else:
                            v = ast.Subscript(value=v, slice=ast.Constant(idx), ctx=ast.Load())
                    out.append(v)
        return out[:MAX_ALT] or [e]

    # ------------------------------------------------------------------ attributes
    def _attr(self, e: ast.Attribute, fi, env, depth, busy):
        bases = self._ex(e.value, fi, env, depth, busy)
        # property inlining is driven by the static type of the *original* receiver expression
        props = []
        if depth > 0 and not (isinstance(e.value, ast.Name) and e.value.id in env and False):
            props = [g for g in self.t.property_targets(e, fi)
                     if g.name == e.attr and not g.is_abstract and g.is_property]
        out = []
        for b in bases[:4]:
            inlined = False
            for g in props[:3]:
                rets = [n for n in self.t.nodes_in(g, ast.Return) if n.value is not None]
                if len(rets) == 1 and len(g.node.body) <= 3:
                    key = ("prop", self.t.fkey(g))
                    if key in busy:
                        continue
                    env2 = {g.params[0]: [b]} if g.params else {}
                    out += self._ex(rets[0].value, g, env2, depth - 1, busy | {key})
                    inlined = True
            if not inlined:
                attr = e.attr
                from . import normalise as _nz
                if attr in _nz.NT_FIELDS and (isinstance(b, ast.Tuple) or any(ty[0] == "tuple" for ty in self.t.type_of(e.value, fi))):
                    # a named position of a NamedTuple result (its construction is read as a plain tuple)
                    ix = _nz.NT_FIELDS[attr]
                    out.append(b.elts[ix] if isinstance(b, ast.Tuple) and ix < len(b.elts) else ast.Subscript(value=b, slice=ast.Constant(ix), ctx=ast.Load()))
                    continue
                if attr.startswith("__") and not attr.endswith("__"):
                    k = fi.cls or (fi.parent.cls if fi.parent else None)
                    if k is not None:
                        attr = k.mangle(attr)
                out.append(ast.Attribute(value=b, attr=attr, ctx=ast.Load()))
        return out[:MAX_ALT]

    # ------------------------------------------------------------------ calls
    def _call(self, e: ast.Call, fi, env, depth, busy):
        tg = self.t.resolve_call(e, fi)
        # str(<integer / text constant>) is the text of that constant (defaults written as str(DEFAULT_X))
        if isinstance(e.func, ast.Name) and e.func.id in ("str", "int") and len(e.args) == 1 and not e.keywords and "builtins." + e.func.id in tg.ext:
            a0 = self._ex(e.args[0], fi, env, depth, busy)
            if len(a0) == 1 and isinstance(a0[0], ast.Constant) and isinstance(a0[0].value, (int, str)) and not isinstance(a0[0].value, bool):
                try:
                    return [ast.Constant(value=str(a0[0].value) if e.func.id == "str" else int(a0[0].value))]
                except ValueError:
                    pass
        # inline small repo functions (single return, no ctor)
        if len(tg.repo) == 1 and not tg.ctor and not tg.ext and not tg.by_name:
            g = tg.repo[0]
            rets = [n for n in self.t.nodes_in(g, ast.Return) if n.value is not None]
            key = ("call", self.t.fkey(g))
            # small helpers are inlined; a helper with a few returns gives one alternative per return (flow-insensitive)
            nstmts = len(list(self.t.nodes_in(g, ast.stmt)))
            loops = list(self.t.nodes_in(g, (ast.For, ast.While, ast.Try)))
            small = not g.is_abstract and not g.is_wrapped and ((len(rets) == 1 and nstmts <= 8) or (2 <= len(rets) <= 4 and nstmts <= 12 and not loops
                                                                             and g.name.startswith("_") and not g.name.endswith("__")))
            # a guarded conversion - `try: return conv(x) except <errors>: return default` and nothing else - stands for its
            # conversion (what happens to unparsable input is the business of the rule that looks at the guard)
            body_ = [st for st in g.node.body if not (isinstance(st, ast.Expr) and isinstance(st.value, ast.Constant))]
            if not small and not g.is_abstract and not g.is_wrapped and len(body_) == 1 and isinstance(body_[0], ast.Try) and not body_[0].finalbody \
                    and not body_[0].orelse and len(body_[0].body) == 1 and isinstance(body_[0].body[0], ast.Return) and isinstance(body_[0].body[0].value, ast.Call) \
                    and all(len(h.body) == 1 and isinstance(h.body[0], ast.Return) for h in body_[0].handlers):
                small = True
                rets = [body_[0].body[0]]
                free = True
            else:
                # pure delegation (`return other(args)`) costs no depth either
                free = len(body_) == 1 and isinstance(body_[0], ast.Return) and isinstance(body_[0].value, ast.Call) and small
            if not free and depth <= 0:
                small = False
            if small and key not in busy:
                bound = self.t.bind_args(g, e)
                env2: Dict[str, List[ast.expr]] = {}
                for pname, arg in bound.items():
                    env2[pname] = self._ex(arg, fi, env, depth, busy)
                if g.cls is not None and not g.is_static and g.params and isinstance(e.func, ast.Attribute):
                    env2[g.params[0]] = self._ex(e.func.value, fi, env, depth, busy)
                # defaults of unbound parameters
                a = g.node.args
                pos = a.posonlyargs + a.args
                for p_, d in zip(pos[len(pos) - len(a.defaults):], a.defaults):
                    env2.setdefault(p_.arg, [d])
                for p_ in pos:
                    env2.setdefault(p_.arg, [ast.Name(id="<unbound:%s>" % p_.arg, ctx=ast.Load())])
                out_ = []
                for r_ in rets:
                    out_ += self._ex(r_.value, g, env2, depth if free else depth - 1, busy | {key})
                return out_[:MAX_ALT]
        # keep the call, canonical callee name, expanded arguments
        if tg.repo and not tg.by_name and len(tg.repo) == 1 and not isinstance(e.func, ast.Attribute):
            fn = [ast.Name(id=tg.repo[0].qname, ctx=ast.Load())]
        elif tg.ctor and len(tg.ctor) == 1:
            fn = [ast.Name(id=tg.ctor[0].qname, ctx=ast.Load())]
        elif isinstance(e.func, ast.Attribute):
            fn = [ast.Attribute(value=b, attr=e.func.attr, ctx=ast.Load())
                  for b in self._ex(e.func.value, fi, env, depth, busy)[:3]]
        else:
            fn = self._ex(e.func, fi, env, depth, busy)[:2]
        arglists = [self._ex(a_, fi, env, depth, busy)[:3] for a_ in e.args]
        kwlists = [self._ex(k.value, fi, env, depth, busy)[:2] for k in e.keywords]
        out = []
        for f_ in fn:
            for combo in self._combos(arglists):
                for kcombo in self._combos(kwlists):
                    out.append(ast.Call(func=f_, args=list(combo),
                                        keywords=[ast.keyword(arg=k.arg, value=v) for k, v in zip(e.keywords, kcombo)]))
        return out[:MAX_ALT]
