"""E1 - program index: modules, classes (MRO), functions (nested too), imports, constants.

Everything is built from the source text under <repo>/src/deep with the stdlib `ast` module. No repo
code is imported or executed.
"""
import ast
import builtins
import hashlib
import os
from typing import Dict, List, Optional, Set


class AnalysisError(Exception):
    """The checker could not analyse the tree (anchor vanished, shape not understood)."""


PKG = "deep"


def repo_root() -> str:
    return os.environ.get("DEEP_VERIF_REPO", "/repo")


class FuncInfo:
    def __init__(self, qname, node, module, cls=None, parent=None):
        self.qname: str = qname
        self.node: ast.FunctionDef = node
        self.module: "ModuleInfo" = module
        self.cls: Optional["ClassInfo"] = cls      # class the function is a method of
        self.parent: Optional["FuncInfo"] = parent  # enclosing function (nested defs / classes in funcs)
        self.name: str = node.name
        self.decorators: List[str] = [ast.unparse(d) for d in node.decorator_list]
        self.locals_funcs: Dict[str, "FuncInfo"] = {}
        self.locals_classes: Dict[str, "ClassInfo"] = {}

    @property
    def is_property(self):
        return any(d == "property" or d.endswith(".getter") for d in self.decorators)

    @property
    def is_setter(self):
        return any(d.endswith(".setter") for d in self.decorators)

    @property
    def is_static(self):
        return "staticmethod" in self.decorators

    @property
    def is_classmethod(self):
        return "classmethod" in self.decorators

    @property
    def is_abstract(self):
        return any("abstractmethod" in d for d in self.decorators)

    @property
    def is_wrapped(self):
        """Decorated with something that replaces the function by another callable (a cache, a wrapper): its body no
        longer says what a call does, so nothing may be inlined or summarised through it."""
        plain = ("property", "staticmethod", "classmethod", "abc.abstractmethod", "abstractmethod", "typing.overload", "overload")
        return any(not (d in plain or d.endswith(".getter") or d.endswith(".setter") or d.endswith(".deleter")) for d in self.decorators)

    @property
    def params(self) -> List[str]:
        a = self.node.args
        return [x.arg for x in a.posonlyargs + a.args]

    @property
    def file(self):
        return self.module.relpath

    def loc(self, node=None):
        n = node if node is not None else self.node
        return "%s:%s" % (self.module.relpath, getattr(n, "_src_line", getattr(n, "lineno", "?")))

    def __repr__(self):
        return "<Func %s>" % self.qname


class ClassInfo:
    def __init__(self, qname, node, module, parent_func=None, outer=None):
        self.qname: str = qname
        self.node: ast.ClassDef = node
        self.module: "ModuleInfo" = module
        self.parent_func: Optional[FuncInfo] = parent_func
        self.outer: Optional["ClassInfo"] = outer
        self.name: str = node.name
        self.methods: Dict[str, List[FuncInfo]] = {}   # name -> defs (property getter + setter share a name)
        self.inner: Dict[str, "ClassInfo"] = {}
        self.base_exprs: List[ast.expr] = list(node.bases)
        self.bases: List["ClassInfo"] = []     # resolved repo bases
        self.ext_bases: List[str] = []         # external base names (qualified if possible)
        self.class_attrs: Dict[str, ast.expr] = {}
        self.class_ann: Dict[str, ast.expr] = {}
        self._mro = None

    def own_method(self, name, setter=False) -> Optional[FuncInfo]:
        for f in self.methods.get(name, []):
            if f.is_setter == setter:
                return f
        return None

    @property
    def mro(self) -> List["ClassInfo"]:
        if self._mro is None:
            # C3 is overkill for this code base; DFS left-to-right with de-duplication (keep last) matches
            # C3 for the diamond-free hierarchies found here and is conservative otherwise.
            seen, out = set(), []

            def visit(c):
                if c.qname in seen:
                    return
                seen.add(c.qname)
                out.append(c)
                for b in c.bases:
                    visit(b)
            visit(self)
            self._mro = out
        return self._mro

    def lookup(self, name, setter=False) -> Optional[FuncInfo]:
        for c in self.mro:
            f = c.own_method(name, setter)
            if f is not None:
                return f
        return None

    def is_subclass_of(self, other: "ClassInfo") -> bool:
        return any(c.qname == other.qname for c in self.mro)

    def ext_base_names(self) -> Set[str]:
        out = set()
        for c in self.mro:
            out.update(c.ext_bases)
        return out

    def mangle(self, attr: str) -> str:
        if attr.startswith("__") and not attr.endswith("__"):
            return "_%s%s" % (self.name.lstrip("_"), attr)
        return attr

    def __repr__(self):
        return "<Class %s>" % self.qname


class ModuleInfo:
    def __init__(self, name, path, relpath, source):
        self.name: str = name
        self.path: str = path
        self.relpath: str = relpath
        self.source: str = source
        self.tree: ast.Module = ast.parse(source, filename=path)
        self.is_pkg = os.path.basename(path) == "__init__.py"
        self.imports: Dict[str, str] = {}      # local name -> qualified dotted target
        self.functions: Dict[str, FuncInfo] = {}
        self.classes: Dict[str, ClassInfo] = {}
        self.consts: Dict[str, ast.expr] = {}  # NAME = <expr> at module level (last one wins)
        self.aug: Dict[str, List[ast.expr]] = {}  # NAME += <expr>
        self.type_checking_imports: Set[str] = set()
        self.module_imports: Set[str] = set()  # local names bound by `import x` (modules for sure)

    @property
    def package(self):
        return self.name if self.is_pkg else self.name.rsplit(".", 1)[0]


class Program:
    def __init__(self, root: Optional[str] = None):
        self.root = root or repo_root()
        self.src = os.path.join(self.root, "src")
        self.modules: Dict[str, ModuleInfo] = {}
        self.functions: Dict[str, FuncInfo] = {}
        self.classes: Dict[str, ClassInfo] = {}
        self.func_of_node: Dict[int, FuncInfo] = {}
        self.parent: Dict[int, ast.AST] = {}
        self.owner: Dict[int, FuncInfo] = {}   # id(node) -> innermost function containing it
        self._load()
        self._link()

    # ------------------------------------------------------------------ loading
    def _load(self):
        pkgdir = os.path.join(self.src, PKG)
        if not os.path.isdir(pkgdir):
            raise AnalysisError("package directory %s not found" % pkgdir)
        for dirpath, dirnames, filenames in os.walk(pkgdir):
            dirnames.sort()
            for fn in sorted(filenames):
                if not fn.endswith(".py"):
                    continue
                path = os.path.join(dirpath, fn)
                rel = os.path.relpath(path, self.root)
                parts = os.path.relpath(path, self.src)[:-3].split(os.sep)
                if parts[-1] == "__init__":
                    parts = parts[:-1]
                name = ".".join(parts)
                with open(path, encoding="utf-8") as fh:
                    src = fh.read()
                try:
                    m = ModuleInfo(name, path, rel, src)
                except SyntaxError as e:
                    raise AnalysisError("cannot parse %s: %s" % (rel, e))
                self.modules[name] = m
        # undo extract-method refactorings (helpers the reference tree does not know) before indexing
        from .normalise import undo_extractions
        self.normalised = []
        if os.environ.get("DEEP_VERIF_NORMALISE", "1") != "0":
            try:
                self.normalised = undo_extractions(self.modules)
            except RecursionError:
                self.normalised = []
        for m in self.modules.values():
            self._index_module(m)

    def digest(self) -> str:
        h = hashlib.sha256()
        for name in sorted(self.modules):
            h.update(name.encode())
            h.update(self.modules[name].source.encode())
        return h.hexdigest()[:16]

    def _index_module(self, m: ModuleInfo):
        for n in ast.walk(m.tree):
            for ch in ast.iter_child_nodes(n):
                self.parent[id(ch)] = n
        self._index_body(m, m.tree.body, prefix=m.name, cls=None, func=None, type_checking=False)

    def _abs_import(self, m: ModuleInfo, node: ast.ImportFrom) -> str:
        if node.level == 0:
            return node.module or ""
        base = m.package.split(".")
        up = node.level - 1
        if up:
            base = base[:-up]
        if node.module:
            base = base + node.module.split(".")
        return ".".join(base)

    def _index_imports(self, m, stmt, type_checking):
        if isinstance(stmt, ast.Import):
            for a in stmt.names:
                if a.asname:
                    m.imports[a.asname] = a.name
                    m.module_imports.add(a.asname)
                else:
                    # `import a.b.c` binds `a`
                    top = a.name.split(".")[0]
                    m.imports.setdefault(top, top)
                    m.module_imports.add(top)
        elif isinstance(stmt, ast.ImportFrom):
            base = self._abs_import(m, stmt)
            for a in stmt.names:
                local = a.asname or a.name
                m.imports[local] = (base + "." + a.name) if base else a.name
                if type_checking:
                    m.type_checking_imports.add(local)

    def _index_body(self, m, body, prefix, cls, func, type_checking):
        for stmt in body:
            if isinstance(stmt, (ast.Import, ast.ImportFrom)):
                # function-level imports are also recorded at module level (late imports such as
                # `from deep.push import convert_snapshot` inside a method).
                self._index_imports(m, stmt, type_checking)
            elif isinstance(stmt, (ast.FunctionDef, ast.AsyncFunctionDef)):
                self._index_func(m, stmt, prefix, cls, func)
            elif isinstance(stmt, ast.ClassDef):
                self._index_class(m, stmt, prefix, cls, func)
            elif isinstance(stmt, ast.If):
                tc = type_checking or "TYPE_CHECKING" in ast.unparse(stmt.test)
                self._index_body(m, stmt.body, prefix, cls, func, tc)
                self._index_body(m, stmt.orelse, prefix, cls, func, type_checking)
            elif isinstance(stmt, ast.Try):
                for b in (stmt.body, stmt.orelse, stmt.finalbody):
                    self._index_body(m, b, prefix, cls, func, type_checking)
                for h in stmt.handlers:
                    self._index_body(m, h.body, prefix, cls, func, type_checking)
            elif isinstance(stmt, (ast.With, ast.For, ast.While)):
                self._index_body(m, stmt.body, prefix, cls, func, type_checking)
                self._index_body(m, getattr(stmt, "orelse", []), prefix, cls, func, type_checking)
            elif isinstance(stmt, ast.Assign) and func is None:
                for t in stmt.targets:
                    if isinstance(t, ast.Name):
                        if cls is None:
                            m.consts[t.id] = stmt.value
                        else:
                            cls.class_attrs[t.id] = stmt.value
            elif isinstance(stmt, ast.AnnAssign) and func is None and isinstance(stmt.target, ast.Name):
                if cls is None:
                    if stmt.value is not None:
                        m.consts[stmt.target.id] = stmt.value
                else:
                    cls.class_ann[stmt.target.id] = stmt.annotation
                    if stmt.value is not None:
                        cls.class_attrs[stmt.target.id] = stmt.value
            elif isinstance(stmt, ast.AugAssign) and func is None and cls is None \
                    and isinstance(stmt.target, ast.Name):
                m.aug.setdefault(stmt.target.id, []).append(stmt.value)

    def _index_func(self, m, node, prefix, cls, func):
        qn = "%s.%s" % (prefix, node.name)
        fi = FuncInfo(qn, node, m, cls=cls, parent=func)
        # property setter shares the qname of the getter: keep both, key setter distinctly
        key = qn + ("#setter" if fi.is_setter else "")
        self.functions[key] = fi
        self.func_of_node[id(node)] = fi
        if cls is not None:
            cls.methods.setdefault(node.name, []).append(fi)
        elif func is not None:
            func.locals_funcs[node.name] = fi
        else:
            m.functions[node.name] = fi
        self._assign_owner(node, fi)
        self._index_body(m, node.body, qn + ".<locals>", None, fi, False)

    def _assign_owner(self, fnode, fi):
        # innermost function wins: assign for all nodes, nested defs re-assign later (they are indexed after)
        stack = list(ast.iter_child_nodes(fnode))
        while stack:
            n = stack.pop()
            self.owner[id(n)] = fi
            stack.extend(ast.iter_child_nodes(n))

    def _index_class(self, m, node, prefix, cls, func):
        qn = "%s.%s" % (prefix, node.name)
        ci = ClassInfo(qn, node, m, parent_func=func, outer=cls)
        self.classes[qn] = ci
        if cls is not None:
            cls.inner[node.name] = ci
        elif func is not None:
            func.locals_classes[node.name] = ci
        else:
            m.classes[node.name] = ci
        self._index_body(m, node.body, qn, ci, None, False)
        # class bodies inside a function: methods' parent function is that function (closures)
        if func is not None:
            for lst in ci.methods.values():
                for f in lst:
                    f.parent = func

    # ------------------------------------------------------------------ linking
    def resolve_dotted(self, dotted: str):
        """Resolve a dotted qualified name to ('mod', ModuleInfo) | ('cls', ClassInfo) | ('func', FuncInfo) |
        ('const', module, name) | ('ext', dotted)."""
        seen = set()
        while True:
            if dotted in seen:
                return ("ext", dotted)
            seen.add(dotted)
            if dotted in self.modules:
                return ("mod", self.modules[dotted])
            if dotted in self.classes:
                return ("cls", self.classes[dotted])
            if dotted in self.functions:
                return ("func", self.functions[dotted])
            if "." in dotted:
                head, tail = dotted.rsplit(".", 1)
                r = self.resolve_dotted(head)
                if r[0] == "mod":
                    mod = r[1]
                    if tail in mod.classes:
                        return ("cls", mod.classes[tail])
                    if tail in mod.functions:
                        return ("func", mod.functions[tail])
                    if tail in mod.imports:
                        dotted = mod.imports[tail]
                        continue
                    if tail in mod.consts:
                        return ("const", mod, tail)
                    sub = mod.name + "." + tail
                    if sub in self.modules:
                        return ("mod", self.modules[sub])
                    return ("ext", dotted)
                if r[0] == "cls":
                    c = r[1]
                    if tail in c.inner:
                        return ("cls", c.inner[tail])
                    f = c.lookup(tail)
                    if f is not None:
                        return ("func", f)
                    return ("ext", dotted)
                if r[0] == "ext":
                    return ("ext", r[1] + "." + tail)
            return ("ext", dotted)

    def resolve_name_in_module(self, m: ModuleInfo, name: str):
        if name in m.classes:
            return ("cls", m.classes[name])
        if name in m.functions:
            return ("func", m.functions[name])
        if name in m.imports:
            return self.resolve_dotted(m.imports[name])
        if name in m.consts:
            return ("const", m, name)
        return None

    def _link(self):
        for c in self.classes.values():
            for b in c.base_exprs:
                r = self.resolve_expr_static(c.module, b, c)
                if r and r[0] == "cls":
                    c.bases.append(r[1])
                elif r and r[0] == "ext":
                    c.ext_bases.append(r[1])
                else:
                    c.ext_bases.append(ast.unparse(b))
        self.subclasses: Dict[str, List[ClassInfo]] = {}
        for c in self.classes.values():
            for a in c.mro[1:]:
                self.subclasses.setdefault(a.qname, []).append(c)

    def resolve_expr_static(self, m: ModuleInfo, e: ast.expr, cls: Optional[ClassInfo] = None,
                            func: Optional[FuncInfo] = None):
        """Resolve a Name / dotted Attribute / Subscript(generic) expression to a program entity."""
        if isinstance(e, ast.Subscript):
            return self.resolve_expr_static(m, e.value, cls, func)
        if isinstance(e, ast.Constant) and isinstance(e.value, str):
            try:
                return self.resolve_expr_static(m, ast.parse(e.value, mode="eval").body, cls, func)
            except SyntaxError:
                return None
        if isinstance(e, ast.Name):
            f = func
            while f is not None:
                if e.id in f.locals_classes:
                    return ("cls", f.locals_classes[e.id])
                if e.id in f.locals_funcs:
                    return ("func", f.locals_funcs[e.id])
                f = f.parent
            c = cls
            while c is not None:
                if e.id in c.inner:
                    return ("cls", c.inner[e.id])
                c = c.outer
            r = self.resolve_name_in_module(m, e.id)
            if r is not None:
                return r
            if hasattr(builtins, e.id):
                return ("ext", "builtins." + e.id)
            return None
        if isinstance(e, ast.Attribute):
            base = self.resolve_expr_static(m, e.value, cls, func)
            if base is None:
                return None
            if base[0] == "mod":
                return self.resolve_dotted(base[1].name + "." + e.attr)
            if base[0] == "cls":
                c = base[1]
                if e.attr in c.inner:
                    return ("cls", c.inner[e.attr])
                f = c.lookup(e.attr)
                if f is not None:
                    return ("func", f)
                if e.attr in c.class_attrs:
                    return ("clsattr", c, e.attr)
                return None
            if base[0] == "ext":
                return ("ext", base[1] + "." + e.attr)
        return None

    # ------------------------------------------------------------------ helpers
    def func(self, qname: str) -> FuncInfo:
        f = self.functions.get(qname)
        if f is None:
            raise AnalysisError("anchor function %s not found" % qname)
        return f

    def cls(self, qname: str) -> ClassInfo:
        c = self.classes.get(qname)
        if c is None:
            raise AnalysisError("anchor class %s not found" % qname)
        return c

    def find_funcs(self, name: str) -> List[FuncInfo]:
        return [f for f in self.functions.values() if f.name == name]

    def const_value(self, m: ModuleInfo, name: str, depth=0):
        """Literal value of a module-level constant (following imports), or raise KeyError."""
        if depth > 8:
            raise KeyError(name)
        r = self.resolve_name_in_module(m, name)
        if r is None or r[0] != "const":
            raise KeyError(name)
        mod, nm = r[1], r[2]
        val = self.literal(mod, mod.consts[nm], depth + 1)
        for extra in mod.aug.get(nm, []):
            val = val + self.literal(mod, extra, depth + 1)
        return val

    def literal(self, m: ModuleInfo, e: ast.expr, depth=0):
        """Evaluate literal expressions made of constants, lists/tuples/sets and constant names."""
        if isinstance(e, ast.Constant):
            return e.value
        if isinstance(e, (ast.List, ast.Tuple, ast.Set)):
            vals = [self.literal(m, x, depth) for x in e.elts]
            return vals if isinstance(e, ast.List) else (tuple(vals) if isinstance(e, ast.Tuple) else set(vals))
        if isinstance(e, ast.Name):
            return self.const_value(m, e.id, depth)
        if isinstance(e, ast.UnaryOp) and isinstance(e.op, ast.USub):
            return -self.literal(m, e.operand, depth)
        if isinstance(e, ast.BinOp) and isinstance(e.op, ast.Add):
            return self.literal(m, e.left, depth) + self.literal(m, e.right, depth)
        raise KeyError(ast.unparse(e))

    def owner_of(self, node) -> Optional[FuncInfo]:
        return self.owner.get(id(node))

    def parent_of(self, node):
        return self.parent.get(id(node))

    def enclosing(self, node, kinds):
        n = self.parent_of(node)
        while n is not None:
            if isinstance(n, kinds):
                return n
            n = self.parent_of(n)
        return None

    def ancestors(self, node, stop=None):
        n = self.parent_of(node)
        while n is not None and n is not stop:
            yield n
            n = self.parent_of(n)


def norm(node) -> str:
    """Normalised construct text (used as finding key; independent of line numbers/formatting)."""
    s = ast.unparse(node) if isinstance(node, ast.AST) else str(node)
    return " ".join(s.split())
