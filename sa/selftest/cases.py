"""Mutants (must be reported) and behaviour-preserving refactorings (must stay silent), per property.

edits: (file relative to repo root, exact old text occurring once, new text). A case whose anchor text is
missing in the tree under analysis is skipped, not failed.
"""
TH = "src/deep/processor/trigger_handler.py"
TRG = "src/deep/api/tracepoint/trigger.py"
GRPC = "src/deep/grpc/__init__.py"
DEEP = "src/deep/api/deep.py"
TASK = "src/deep/task/__init__.py"
PUSHS = "src/deep/push/push_service.py"
PLUG = "src/deep/api/plugin/__init__.py"
SPAN = "src/deep/processor/context/span_action.py"
METR = "src/deep/processor/context/metric_action.py"
SNAP = "src/deep/processor/context/snapshot_action.py"
CFGS = "src/deep/config/tracepoint_config.py"

CASES = []


def M(id_, prop, rule, *edits):
    CASES.append({"id": id_, "prop": prop, "rule": rule, "edits": list(edits)})


def R(id_, prop, *edits):
    CASES.append({"id": id_, "prop": prop, "expect": "silent", "edits": list(edits)})


# ------------------------------------------------------------------ C01
M("c01-narrow-outer-guard", "C01", "C01.R1", (TH, "        except BaseException:\n            logging.exception(\"Cannot process trace event %s\", event)",
                                               "        except Exception:\n            logging.exception(\"Cannot process trace event %s\", event)"))
M("c01-handler-returns-none", "C01", "C01.R2", (TH, "            logging.exception(\"Cannot process trace event %s\", event)\n            return self.trace_call",
                                                 "            logging.exception(\"Cannot process trace event %s\", event)\n            return None"))
M("c01-return-none-when-no-actions", "C01", "C01.R2", (TH, "        if len(actions) == 0:\n            return self.trace_call", "        if len(actions) == 0:\n            return None"))
M("c01-reraise-in-handler", "C01", "C01.R1", (TH, "            logging.exception(\"Cannot process trace event %s\", event)\n            return self.trace_call",
                                               "            logging.exception(\"Cannot process trace event %s\", event)\n            raise"))
M("c01-callback-cleanup-not-in-finally", "C01", "C01.R4", (TH, """        finally:
            # also when a callback fails: an empty queue that is still set would fail every later event of this thread
            if len(self._callbacks.value) == 0:""", """        finally:
            pass
        if True:
            if len(self._callbacks.value) == 0:"""))
M("c01-callback-failure-skips-matching", "C01", "C01.R4", (TH, """            try:
                self.__process_call_backs(trigger_context, arg, frame, event, file, line, function)
            except BaseException:
                # a failing callback must not stop us from matching the tracepoints for this event
                logging.exception("Cannot process callbacks at %s#%s %s", file, line, function)
""", """            self.__process_call_backs(trigger_context, arg, frame, event, file, line, function)
"""))
R("c01-rename-local", "C01", (TH, "        actions = self.__actions_for_location(event, file, line, function, frame)\n        if len(actions) == 0:",
                              "        matched = self.__actions_for_location(event, file, line, function, frame)\n        actions = matched\n        if len(actions) == 0:"))

# ------------------------------------------------------------------ C03
M("c03-line-ignores-event", "C03", "C03.LINE", (TRG, "if event == \"line\" and file == self.path and line == self.line:", "if file == self.path and line == self.line:"))
M("c03-line-off-by-one", "C03", "C03.LINE", (TRG, "if event == \"line\" and file == self.path and line == self.line:", "if event == \"line\" and file == self.path and line >= self.line:"))
M("c03-func-any-event", "C03", "C03.FUNC", (TRG, "if event == \"call\" and function_name == self.__function_name:", "if function_name == self.__function_name:"))
M("c03-func-return-event", "C03", "C03.FUNC", (TRG, "if event == \"call\" and function_name == self.__function_name:", "if event in (\"call\", \"return\") and function_name == self.__function_name:"))
M("c03-caller-line", "C03", "C03.ORIG", (TH, "        line = frame.f_lineno\n        function = frame.f_code.co_name", "        line = frame.f_back.f_lineno if frame.f_back else frame.f_lineno\n        function = frame.f_code.co_name"))
M("c03-full-path", "C03", "C03.ORIG", (TH, "filename = os.path.basename(frame.f_code.co_filename)", "filename = frame.f_code.co_filename"))
M("c03-first-match-only", "C03", "C03.LOOP", (TH, "                actions += trigger.actions\n", "                actions += trigger.actions\n                break\n"))
M("c03-first-action-only", "C03", "C03.LOOP", (TH, "                actions += trigger.actions\n", "                actions += trigger.actions[:1]\n"))
M("c03-guard-outside-loop", "C03", "C03.ACT", (TH, """                for action in actions:
                    try:
                        ctx: ActionContext
                        with trigger_context.action_context(action) as ctx:
                            if ctx.can_trigger():
                                ctx.process()
                    except BaseException:
                        logging.exception("Cannot process action %s", action)
""", """                for action in actions:
                    ctx: ActionContext
                    with trigger_context.action_context(action) as ctx:
                        if ctx.can_trigger():
                            ctx.process()
"""))
M("c03-overwrite-same-location", "C03", "C03.MERGE", (GRPC, """            if location_id in all_triggers:
                all_triggers[location_id].merge_actions(trigger.actions)
            else:
                all_triggers[location_id] = trigger
""", """            all_triggers[location_id] = trigger
"""))
M("c03-swapped-args", "C03", "C03.ORIG", (TH, "if trigger.at_location(event, file, line, function, frame):", "if trigger.at_location(event, file, line, file, frame):"))
R("c03-line-nested-ifs", "C03", (TRG, """        if event == "line" and file == self.path and line == self.line:
            return True
        return False

    @property
    def id(self):
        \"\"\"The location id.\"\"\"
        return "%s#%s" % (self.path, self.line)""", """        if event != "line":
            return False
        same_file = file == self.path
        return same_file and self.line == line

    @property
    def id(self):
        \"\"\"The location id.\"\"\"
        return "%s#%s" % (self.path, self.line)"""))

# ------------------------------------------------------------------ C09
M("c09-sync-push", "C09", "C09.A", (PUSHS, """        task = self.task_handler.submit_task(self._push_task, snapshot)
        task.add_done_callback(
            lambda _: logging.debug("Completed uploading snapshot %s", snapshot_id_as_hex_str(snapshot.id)))""",
                                     """        self._push_task(snapshot)"""))
M("c09-double-submit", "C09", "C09.B", (PUSHS, "        task = self.task_handler.submit_task(self._push_task, snapshot)\n",
                                         "        self.task_handler.submit_task(self._push_task, snapshot)\n        task = self.task_handler.submit_task(self._push_task, snapshot)\n"))
M("c09-flush-result", "C09", "C09.C", (TASK, "                future.exception(10)\n            except Exception:\n                logging.exception(\"Task did not complete during flush %s\", future)",
                                        "                future.result(10)\n            except TimeoutError:\n                logging.exception(\"Task did not complete during flush %s\", future)"))
M("c09-no-open-check", "C09", "C09.D", (TASK, "        self.__check_open()\n        next_id", "        next_id"))
M("c09-unlocked-id", "C09", "C09.E", (TASK, "        with self._lock:\n            self._job_id += 1\n            next_id = self._job_id\n", "        self._job_id += 1\n        next_id = self._job_id\n"))
M("c09-retry-send", "C09", "C09.B", (PUSHS, "        stub.send(converted, metadata=self.grpc.metadata())", "        for _ in range(2):\n            stub.send(converted, metadata=self.grpc.metadata())"))
M("c09-inline-when-closed", "C09", "C09.A", (TASK, "        future = self._pool.submit(task, *args)", "        future = self._pool.submit(task, *args) if self._open else self._pool.submit(lambda: task(*args))"))

# ------------------------------------------------------------------ C14
M("c14-restore-unconditional", "C14", "C14.B", (TH, "        if not self.__installed:\n            return\n        self.__installed = False\n", ""))
M("c14-swap-restore", "C14", "C14.C", (TH, "        sys.settrace(self.__old_sys_trace)\n        threading.settrace(self.__old_thread_trace)", "        sys.settrace(self.__old_thread_trace)\n        threading.settrace(self.__old_sys_trace)"))
M("c14-save-after-install", "C14", "C14.C", (TH, "        self.__old_sys_trace = sys.gettrace()\n", ""), (TH, "        sys.settrace(self.trace_call)\n", "        sys.settrace(self.trace_call)\n        self.__old_sys_trace = sys.gettrace()\n"))
M("c14-unguarded-poll-stop", "C14", "C14.D", (DEEP, """        try:
            self.poll.shutdown()
        except Exception:
            deep.logging.exception("Failed to shutdown long poll")
""", "        self.poll.shutdown()\n"))
R("c14-unguarded-flush-cannot-raise", "C14", (DEEP, """        try:
            self.task_handler.flush()
        except Exception:
            deep.logging.exception("Failed to flush pending tasks")
""", "        self.task_handler.flush()\n"))
M("c14-one-big-try", "C14", "C14.D", (DEEP, """        try:
            self.poll.shutdown()
        except Exception:
            deep.logging.exception("Failed to shutdown long poll")
        for plugin in self.config.plugins:
            try:
                plugin.shutdown()
            except Exception:
                deep.logging.exception("Failed to shutdown plugin %s", plugin)
""", """        try:
            self.poll.shutdown()
            for plugin in self.config.plugins:
                plugin.shutdown()
        except Exception:
            deep.logging.exception("Failed to shutdown long poll")
"""))
M("c14-start-not-idempotent", "C14", "C14.A", (DEEP, "        if self.started:\n            return\n        self.config.plugins", "        self.config.plugins"))
M("c14-no-poll-stop", "C14", "C14.E", ("src/deep/poll/poll.py", "        if self.timer:\n            self.timer.stop()\n", ""))
M("c14-join-before-set", "C14", "C14.E", ("src/deep/utils.py", "        self.event.set()\n        self.thread.join()", "        self.thread.join()\n        self.event.set()"))

# ------------------------------------------------------------------ C20
M("c20-unguarded-decorator", "C20", "C20.ISO", (SNAP, """            try:
                decorate = decorator.decorate(self.snapshot.id_str, self.action_context)
                if decorate is not None:
                    attributes.merge_in(decorate)
            except Exception:
                deep.logging.exception("Failed to decorate snapshot: %s ", decorator)
""", """            decorate = decorator.decorate(self.snapshot.id_str, self.action_context)
            if decorate is not None:
                attributes.merge_in(decorate)
"""))
M("c20-guard-around-loop", "C20", "C20.ISO", (SPAN, """        for span in self.__spans:
            try:
                span.close()
            except Exception:
                deep.logging.exception("Failed to close span %s", span)
""", """        try:
            for span in self.__spans:
                span.close()
        except Exception:
            deep.logging.exception("Failed to close span %s", self.__spans)
"""))
M("c20-inactive-loaded", "C20", "C20.LOAD", (PLUG, """            if not plugin_instance.is_active():
                logging.debug("Plugin %s is not active.", plugin_instance.name)
                continue
""", """            if not plugin_instance.is_active():
                logging.debug("Plugin %s is not active.", plugin_instance.name)
"""))
M("c20-unsorted", "C20", "C20.LOAD", (PLUG, "    loaded.sort(key=__plugin_order)\n", ""))
M("c20-resource-unguarded", "C20", "C20.ISO", (DEEP, """            try:
                plugin_resource = provider.resource()
                if plugin_resource:
                    default_resource = default_resource.merge(plugin_resource)
            except Exception:
                # do not read anything from the plugin in here, a failure in the handler would stop deep from starting
                deep.logging.exception("Failed to process plugin resource %s", provider)
""", """            plugin_resource = provider.resource()
            if plugin_resource:
                default_resource = default_resource.merge(plugin_resource)
"""))
M("c20-handler-reads-plugin-name", "C20", "C20.ISO", (DEEP, 'deep.logging.exception("Failed to process plugin resource %s", provider)', 'deep.logging.exception("Failed to process plugin resource %s", provider.name)'))
M("c14-handler-reads-plugin-name", "C14", "C14.D", (DEEP, 'deep.logging.exception("Failed to shutdown plugin %s", plugin)', 'deep.logging.exception("Failed to shutdown plugin %s", plugin.name)'))
M("c20-logging-wrapper-formats-eagerly", "C20", "C20.ISO", ("src/deep/logging/__init__.py", 'logging.getLogger("deep").exception(msg, *args, exc_info=exc_info, **kwargs)', 'logging.getLogger("deep").exception(msg % args if args else msg, exc_info=exc_info, **kwargs)'))
M("c20-result-guard-removed", "C20", "C20.ISO", ("src/deep/processor/context/trigger_context.py", """            try:
                new_callback = result.process(self)
                if new_callback is not None:
                    self.callbacks.append(new_callback)
            except Exception:
                deep.logging.exception("failed to process result {}", result)
""", """            new_callback = result.process(self)
            if new_callback is not None:
                self.callbacks.append(new_callback)
"""))
R("c20-narrower-but-ok", "C20", (METR, "                except Exception:\n                    deep.logging.exception(\"Metric processor %s failed to process metric %s\", processor,",
                                  "                except BaseException:\n                    deep.logging.exception(\"Metric processor %s failed to process metric %s\", processor,"))

# ------------------------------------------------------------------ C04
TPC = "src/deep/api/tracepoint/tracepoint_config.py"
ACX = "src/deep/processor/context/action_context.py"
M("c04-period-le", "C04", "C04.TABLE", (TRG, "            if time_since_last < self.__fire_period_ns():", "            if time_since_last <= self.__fire_period_ns():"))
M("c04-count-lt", "C04", "C04.TABLE", (TRG, "if self.fire_count != -1 and self.fire_count <= self.__stats.fire_count:", "if self.fire_count != -1 and self.fire_count < self.__stats.fire_count:"))
M("c04-unlimited-sentinel", "C04", "C04.TABLE", (TRG, "if self.fire_count != -1 and self.fire_count <= self.__stats.fire_count:", "if self.fire_count != 0 and self.fire_count <= self.__stats.fire_count:"))
M("c04-window-ignored", "C04", "C04.TABLE", (TRG, "        if not self.__window.in_window(ts // 1000000):\n            return False\n", ""))
M("c04-window-tested-in-ns", "C04", "C04.UNITS", (TRG, "self.__window.in_window(ts // 1000000)", "self.__window.in_window(ts)"))
M("c04-window-never-copied", "C04", "C04.KEYS", (TRG, "    config = {\n        SPAN: args[SPAN],\n        FIRE_COUNT: args.get(FIRE_COUNT, '1'),\n        FIRE_PERIOD: args.get(FIRE_PERIOD, '1000'),\n    }\n    # the action needs the time window of the tracepoint (if there is one) to know when it is allowed to fire\n    if WINDOW_START in args:\n        config[WINDOW_START] = args[WINDOW_START]\n    if WINDOW_END in args:\n        config[WINDOW_END] = args[WINDOW_END]\n",
                                                  "    config = {\n        SPAN: args[SPAN],\n        FIRE_COUNT: args.get(FIRE_COUNT, '1'),\n        FIRE_PERIOD: args.get(FIRE_PERIOD, '1000'),\n    }\n"))
M("c04-window-compared-as-text", "C04", "C04.WINDOW", (TRG, "TracepointWindow(self.__get_int(WINDOW_START, 0), self.__get_int(WINDOW_END, 0))", "TracepointWindow(self.__get_int(WINDOW_END, 0), self.__get_int(WINDOW_START, 0))"))
M("c04-window-end-exclusive-start", "C04", "C04.WINDOW", (TPC, "            return self._start <= ts\n", "            return self._start >= ts\n"))
M("c04-period-us", "C04", "C04.UNITS", (TRG, "return self.fire_period * 1_000_000", "return self.fire_period * 1_000"))
M("c04-period-key", "C04", "C04.UNITS", (TRG, "        return self.__get_int(FIRE_PERIOD, 1000)", "        return self.__get_int(FIRE_COUNT, 1000)"))
M("c04-record-always", "C04", "C04.STATE", (ACX, "        if self.has_triggered():\n            self.location_action.record_triggered(self.trigger_context.ts)", "        self.location_action.record_triggered(self.trigger_context.ts)"))
M("c04-flag-not-in-finally", "C04", "C04.STATE", (ACX, "        try:\n            return self._process_action()\n        finally:\n            self._triggered = True", "        result = self._process_action()\n        self._triggered = True\n        return result"))
M("c04-fire-twice", "C04", "C04.UNITS", (TPC, "        self._fire_count += 1\n", "        self._fire_count += 2\n"))
M("c04-int-no-fallback", "C04", "C04.INT", (TRG, "        try:\n            return int(self.__config.get(name, default_value))\n        except ValueError:\n            return default_value\n\n    def __str__", "        return int(self.__config.get(name, default_value))\n\n    def __str__"))
M("c04-span-drops-fire-count", "C04", "C04.KEYS", (TRG, "        SPAN: args[SPAN],\n        FIRE_COUNT: args.get(FIRE_COUNT, '1'),\n", "        SPAN: args[SPAN],\n"))
M("c04-other-clock", "C04", "C04.UNITS", (ACX, "self.location_action.record_triggered(self.trigger_context.ts)", "self.location_action.record_triggered(time.time_ns() // 1000)"), (ACX, "import abc\n", "import abc\nimport time\n"))
R("c04-refactor-local", "C04", (TRG, "        if self.fire_count != -1 and self.fire_count <= self.__stats.fire_count:\n            return False\n",
                                "        limit = self.fire_count\n        fired = self.__stats.fire_count\n        if limit != -1 and fired >= limit:\n            return False\n"))

# ------------------------------------------------------------------ C05
VPF = "src/deep/processor/variable_processor.py"
VSPF = "src/deep/processor/variable_set_processor.py"
BFSF = "src/deep/processor/bfs/__init__.py"
M("c05-lifo", "C05", "C05.QUEUE", (BFSF, "pop = queue.pop(0)", "pop = queue.pop()"))
M("c05-children-front", "C05", "C05.QUEUE", (BFSF, "            queue += pop.children", "            queue = pop.children + queue"))
M("c05-trunc-flag-ge", "C05", "C05.STR", (VPF, "return string[:max_length], len(string) > max_length", "return string[:max_length], len(string) >= max_length"))
M("c05-trunc-off-by-one", "C05", "C05.STR", (VPF, "return string[:max_length], len(string) > max_length", "return string[:max_length + 1], len(string) > max_length"))
M("c05-seq-gt", "C05", "C05.SEQ", (VPF, "        if total >= var_collector.max_collection_size:", "        if total > var_collector.max_collection_size:"))
M("c05-seq-no-count", "C05", "C05.SEQ", (VPF, "        nodes.append(Node(value=NodeValue(str(total), val_), parent=parent_node))\n        total += 1\n", "        nodes.append(Node(value=NodeValue(str(total), val_), parent=parent_node))\n"))
M("c05-seq-wrong-limit", "C05", "C05.SEQ", (VPF, "        if total >= var_collector.max_collection_size:", "        if total >= var_collector.max_string_length:"))
M("c05-depth-gt", "C05", "C05.DEPTH", (VPF, "    if frame_depth + 1 >= var_collector.max_var_depth:", "    if frame_depth > var_collector.max_var_depth:"))
M("c05-depth-not-incremented", "C05", "C05.DEPTH", (BFSF, "            child._depth = self._depth + 1\n", "            child._depth = self._depth\n"))
M("c05-budget-continue", "C05", "C05.BUDGET", (BFSF, "        else:\n            return\n", "        else:\n            continue\n"))
M("c05-budget-inverted", "C05", "C05.BUDGET", (VSPF, "        if self.__var_cache.size > self.__config.max_variables:\n            return False\n        return True", "        if self.__var_cache.size > self.__config.max_variables:\n            return True\n        return True"))
M("c05-budget-wrong-limit", "C05", "C05.BUDGET", (VSPF, "        if self.__var_cache.size > self.__config.max_variables:", "        if self.__var_cache.size > self.__config.max_string_length:"))
M("c05-no-budget-check", "C05", "C05.BUDGET", (VSPF, "        if not self.check_var_count():\n            # we have exceeded the var count, so do not continue\n            return False\n", ""))
M("c05-wire-swapped", "C05", "C05.WIRE", (SNAP, "        config.max_variables = self.location_action.config.get('MAX_VARIABLES', config.DEFAULT_MAX_VARIABLES)", "        config.max_variables = self.location_action.config.get('MAX_VAR_DEPTH', config.DEFAULT_MAX_VARIABLES)"))
M("c05-collector-default-config", "C05", "C05.WIRE", ("src/deep/processor/frame_collector.py", "processor = VariableSetProcessor(var_lookup, var_cache, self.__source.collection_config)", "processor = VariableSetProcessor(var_lookup, var_cache)"))
R("c05-deque", "C05", (BFSF, "    queue = [node]\n", "    from collections import deque\n    queue = deque([node])\n"), (BFSF, "pop = queue.pop(0)", "pop = queue.popleft()"), (BFSF, "            queue += pop.children", "            queue.extend(pop.children)"))
R("c05-budget-ge", "C05", (VSPF, "        if self.__var_cache.size > self.__config.max_variables:", "        if self.__var_cache.size >= self.__config.max_variables:"))

# ------------------------------------------------------------------ C10
TCX = "src/deep/processor/context/trigger_context.py"
UTL = "src/deep/utils.py"
M("c10-agent-globals", "C10", "C10.SCOPE", (TCX, "eval(expression, getattr(self.__frame, 'f_globals', None), self.__frame.f_locals)", "eval(expression, None, self.__frame.f_locals)"))
M("c10-globals-as-locals", "C10", "C10.SCOPE", (TCX, "eval(expression, getattr(self.__frame, 'f_globals', None), self.__frame.f_locals)", "eval(expression, getattr(self.__frame, 'f_globals', None), getattr(self.__frame, 'f_globals', None))"))
M("c10-caller-frame", "C10", "C10.SCOPE", (TCX, "eval(expression, getattr(self.__frame, 'f_globals', None), self.__frame.f_locals)", "eval(expression, getattr(self.__frame, 'f_globals', None), self.__frame.f_back.f_locals)"))
M("c10-narrow-eval-guard", "C10", "C10.CONTAIN", (TCX, "            return True, eval(expression, getattr(self.__frame, 'f_globals', None), self.__frame.f_locals)\n        except BaseException as e:", "            return True, eval(expression, getattr(self.__frame, 'f_globals', None), self.__frame.f_locals)\n        except Exception as e:"))
M("c10-condition-before-limits", "C10", "C10.TABLE", (ACX, "        if not self.location_action.can_trigger(self.trigger_context.ts):\n            return False\n", ""))
M("c10-blank-condition-false", "C10", "C10.TABLE", (ACX, "        if self.location_action.condition is None or len(self.location_action.condition.strip()) == 0:\n            return True", "        if self.location_action.condition is None:\n            return True\n        if len(self.location_action.condition.strip()) == 0:\n            return False"))
M("c10-failed-condition-fires", "C10", "C10.TABLE", (ACX, "        if not success:\n            # a condition that cannot be evaluated is not true\n            return False\n", "        if not success:\n            return True\n"))
M("c10-truthy-everything", "C10", "C10.TABLE", (UTL, "return string.lower() in (\"yes\", \"true\", \"t\", \"1\", \"y\")", "return string.lower() not in (\"no\", \"false\", \"f\", \"0\", \"n\")"))
M("c10-metric-ignores-condition", "C10", "C10.TABLE", (METR, "        if self.__has_metric_processor():\n            return super().can_trigger()\n        return False", "        return self.__has_metric_processor()"))
M("c10-watch-no-tag-test", "C10", "C10.DISCRIM", (ACX, "            if not success:\n                # the expression could not be evaluated, so this is an error result (result is the exception)\n                error = safe_str(result)\n                return WatchResult(source, watch, None, error), {}, error\n", ""))
M("c10-second-eval", "C10", "C10.SCOPE", (METR, "                metric_value = float(self.trigger_context.evaluate_expression(metric.expression))", "                metric_value = float(eval(metric.expression))"))
M("c10-record-on-reject", "C10", "C10.BUDGET", (ACX, "        if self.has_triggered():\n            self.location_action.record_triggered(self.trigger_context.ts)", "        self.location_action.record_triggered(self.trigger_context.ts)"))
M("c10-wrong-text", "C10", "C10.SCOPE", (ACX, "success, result = self.trigger_context.try_evaluate_expression(self.location_action.condition)", "success, result = self.trigger_context.try_evaluate_expression(self.location_action.condition.lower())"))
R("c10-refactor-cond-local", "C10", (ACX, "        if self.location_action.condition is None or len(self.location_action.condition.strip()) == 0:\n            return True\n        success, result = self.trigger_context.try_evaluate_expression(self.location_action.condition)",
                                     "        condition = self.location_action.condition\n        if condition is None or len(condition.strip()) == 0:\n            return True\n        success, result = self.trigger_context.try_evaluate_expression(condition)"))

# ------------------------------------------------------------------ C16
LOGA = "src/deep/processor/context/log_action.py"
PYP = "src/deep/api/plugin/python.py"
M("c16-swapped-ids", "C16", "C16.ROLE", (LOGA, "tracepoint_logger.log_tracepoint(self.log, self.action.id, ctx.id)", "tracepoint_logger.log_tracepoint(self.log, ctx.id, self.action.id)"))
M("c16-impl-swapped-labels", "C16", "C16.ROLE", (PYP, "\" ctx=%s tracepoint=%s\" % (ctx_id, tp_id)", "\" ctx=%s tracepoint=%s\" % (tp_id, ctx_id)"))
M("c16-no-prefix", "C16", "C16.PIPE", (LOGA, "log_msg = \"[deep] %s\" % FormatExtractor()", "log_msg = \"%s\" % FormatExtractor()"))
M("c16-field-as-watch-source", "C16", "C16.PIPE", (LOGA, "ctx_self.eval_watch(field_name, WATCH_SOURCE_LOG)", "ctx_self.eval_watch(field_name, WATCH_SOURCE_WATCH)"), (LOGA, "from ...api.tracepoint.eventsnapshot import WATCH_SOURCE_LOG", "from ...api.tracepoint.eventsnapshot import WATCH_SOURCE_LOG, WATCH_SOURCE_WATCH"))
M("c16-field-name-returned", "C16", "C16.PIPE", (LOGA, "                return log_str, field_name", "                return field_name, field_name"))
M("c16-watch-not-recorded", "C16", "C16.PIPE", (LOGA, "                watch_results.append(watch)\n", ""))
M("c16-snapshot-raw-template", "C16", "C16.SNAP", (SNAP, "            snapshot.log_msg = log\n", "            snapshot.log_msg = log_msg\n"))
M("c16-snapshot-no-log-result", "C16", "C16.SNAP", (SNAP, "            self.trigger_context.attach_result(LogActionResult(context.location_action, log))\n", ""))
M("c16-log-twice", "C16", "C16.ONCE", (LOGA, "        self.trigger_context.attach_result(LogActionResult(self.location_action, log))\n", "        self.trigger_context.attach_result(LogActionResult(self.location_action, log))\n        self.trigger_context.attach_result(LogActionResult(self.location_action, log))\n"))
M("c16-raw-message-logged", "C16", "C16.ROLE", (LOGA, "        self.trigger_context.attach_result(LogActionResult(self.location_action, log))\n", "        self.trigger_context.attach_result(LogActionResult(self.location_action, log_msg))\n"))
M("c16-logger-untested", "C16", "C16.ONCE", (LOGA, "        if tracepoint_logger:\n            tracepoint_logger.log_tracepoint(", "        if True:\n            tracepoint_logger.log_tracepoint("))
R("c16-keyword-call", "C16", (LOGA, "tracepoint_logger.log_tracepoint(self.log, self.action.id, ctx.id)", "tracepoint_logger.log_tracepoint(self.log, ctx_id=ctx.id, tp_id=self.action.id)"))

# ------------------------------------------------------------------ C17
MPI = "src/deep/api/plugin/metric/__init__.py"
PROM = "src/deep/api/plugin/metric/prometheus_metrics.py"
M("c17-swapped-help-unit", "C17", "C17.SIG", (METR, "metric.help, metric.unit, value)", "metric.unit, metric.help, value)"))
M("c17-no-default-namespace", "C17", "C17.SIG", (METR, "metric.namespace or \"deep\",", "metric.namespace,"))
M("c17-first-processor-only", "C17", "C17.FAN", (METR, "                    deep.logging.exception(\"Metric processor %s failed to process metric %s\", processor,\n                                           metric.name)\n", "                    deep.logging.exception(\"Metric processor %s failed to process metric %s\", processor,\n                                           metric.name)\n                break\n"))
M("c17-processors-hoisted", "C17", "C17.FAN", (METR, "        metrics = self._metrics()\n        for metric in metrics:", "        metrics = self._metrics()\n        processors = self.trigger_context.config.metric_processors\n        for metric in metrics:"), (METR, "            for processor in self.trigger_context.config.metric_processors:", "            for processor in processors:"))
M("c17-value-default-zero", "C17", "C17.VALUE", (METR, "        metric_value = 1\n", "        metric_value = 0\n"))
M("c17-value-unguarded", "C17", "C17.VALUE", (METR, """            try:
                metric_value = float(self.trigger_context.evaluate_expression(metric.expression))
            except Exception:
                deep.logging.exception("Cannot process metric expression %s", metric.expression)
""", """            metric_value = float(self.trigger_context.evaluate_expression(metric.expression))
"""))
M("c17-label-key-as-value", "C17", "C17.VALUE", (METR, "                    value = label.static\n", "                    value = label.key\n"))
M("c17-type-upper", "C17", "C17.ENUM", (METR, "        return metric_type.lower()", "        return metric_type.upper()"))
M("c17-method-renamed", "C17", "C17.ENUM", (MPI, "    def summary(self, name: str", "    def summaries(self, name: str"))
M("c17-impl-param-order", "C17", "C17.SIG", (PROM, "    def gauge(self, name: str, labels: Dict[str, str], namespace: str, help_string: str, unit: str, value: float):", "    def gauge(self, name: str, labels: Dict[str, str], namespace: str, unit: str, help_string: str, value: float):"))
M("c17-noproc-consumes-budget", "C17", "C17.NOPROC", (METR, "        if self.__has_metric_processor():\n            return super().can_trigger()\n        return False", "        return super().can_trigger()"))
M("c17-labels-of-other-metric", "C17", "C17.SIG", (METR, "            labels, value = self._process_metric(metric)", "            labels, value = self._process_metric(metrics[0])"))
R("c17-local-alias", "C17", (METR, "            for processor in self.trigger_context.config.metric_processors:", "            cfg = self.trigger_context.config\n            for processor in cfg.metric_processors:"))

# ------------------------------------------------------------------ C13
TPCS = "src/deep/config/tracepoint_config.py"
M("c13-location-handle", "C13", "C13.HANDLE", (TPCS, "        self._custom_ids[tp_id] = config\n        self.__trigger_update(None, None)\n        return tp_id", "        self._custom_ids[config.id] = config\n        self.__trigger_update(None, None)\n        return config.id"))
M("c13-constant-id", "C13", "C13.HANDLE", (TPCS, "        tp_id = str(uuid.uuid4())\n", "        tp_id = \"%s:%s\" % (path, line)\n"))
M("c13-remove-raises", "C13", "C13.MATCH", (TPCS, "        config = self._custom_ids.pop(_id, None)\n", "        config = self._custom_ids.pop(_id)\n"))
M("c13-remove-all-on-location", "C13", "C13.MATCH", (TPCS, "            if cfg is config:\n                del self._custom[idx]\n                self.__trigger_update(None, None)\n                return\n", "            if cfg.id == config.id:\n                del self._custom[idx]\n        self.__trigger_update(None, None)\n"))
M("c13-replace-custom", "C13", "C13.ADD", (TPCS, "        self._custom.append(config)\n", "        self._custom = [config]\n"))
M("c13-custom-dropped-on-update", "C13", "C13.ADD", (TPCS, "listeners.config_change(ts, old_hash, current_hash, old_config, new_config + self._custom)", "listeners.config_change(ts, old_hash, current_hash, old_config, new_config or self._custom)"))
M("c13-swapped-args", "C13", "C13.ADD", (TPCS, "config = build_trigger(tp_id, path, line, args, watches, metrics)", "config = build_trigger(tp_id, path, line, args, metrics, watches)"))
M("c13-no-notify-on-remove", "C13", "C13.MATCH", (TPCS, "                del self._custom[idx]\n                self.__trigger_update(None, None)\n                return", "                del self._custom[idx]\n                return"))
M("c13-api-drops-watches", "C13", "C13.API", (DEEP, "tp_id = self.config.tracepoints.add_custom(path, line, args, watches, metrics)", "tp_id = self.config.tracepoints.add_custom(path, line, args, [], metrics)"))
M("c13-unregister-wrong-id", "C13", "C13.API", (DEEP, "        self.__tpServ.remove_custom(self.__id)", "        self.__tpServ.remove_custom(str(self.__id).lower() + \"\")"))
M("c13-keyed-by-other", "C13", "C13.MATCH", (TPCS, "        self._custom_ids[tp_id] = config\n", "        self._custom_ids[config.id] = config\n"))
R("c13-return-trigger-object-id", "C13", (TPCS, "        tp_id = str(uuid.uuid4())\n", "        tp_id = uuid.uuid4().hex\n"))

# ------------------------------------------------------------------ C11
M("c11-method-name-ignored", "C11", "C11.TRIG", (TRG, "    stage_ = METHOD_START if METHOD_NAME in args else LINE_START\n", "    stage_ = LINE_START\n"))
M("c11-span-method-overrides-stage", "C11", "C11.TRIG", (TRG, "    if SPAN in args and args[SPAN] == METHOD:\n        stage_ = METHOD_START\n\n    if STAGE in args:\n        stage_ = args[STAGE]\n", "    if STAGE in args:\n        stage_ = args[STAGE]\n\n    if SPAN in args and args[SPAN] == METHOD:\n        stage_ = METHOD_START\n"))
M("c11-unknown-stage-defaults-line", "C11", "C11.TRIG", (TRG, "    else:\n        return None\n\n    snap_action", "    else:\n        location = LineLocation(path, line_no, position)\n\n    snap_action"))
M("c11-method-location-uses-line", "C11", "C11.TRIG", (TRG, "location = FunctionLocation(path, args.get(METHOD_NAME, None), position)", "location = FunctionLocation(path, args.get(SPAN, None), position)"))
M("c11-drop-span-action", "C11", "C11.TRIG", (TRG, "for action in [snap_action, log_action, metric_action, span_action] if", "for action in [snap_action, log_action, metric_action] if"))
M("c11-capture-is-end", "C11", "C11.STAGE", (TRG, "            if stage_ in [LINE_CAPTURE, METHOD_CAPTURE]:\n                return Location.Position.CAPTURE", "            if stage_ in [LINE_CAPTURE, METHOD_CAPTURE]:\n                return Location.Position.END"))
M("c11-log-also-when-collecting", "C11", "C11.BUILD", (TRG, "    if SNAPSHOT not in args or args[SNAPSHOT] != NO_COLLECT:\n        return None\n", ""))
M("c11-snapshot-when-no-collect", "C11", "C11.BUILD", (TRG, "        if args[SNAPSHOT] == NO_COLLECT:\n            return None\n", "        if args[SNAPSHOT] == NO_COLLECT and LOG_MSG in args:\n            return None\n"))
M("c11-metric-empty-list", "C11", "C11.BUILD", (TRG, "    if metrics is None or len(metrics) == 0:\n        return None\n", "    if metrics is None:\n        return None\n"))
M("c11-span-default-period", "C11", "C11.SIB", (TRG, "        SPAN: args[SPAN],\n        FIRE_COUNT: args.get(FIRE_COUNT, '1'),\n        FIRE_PERIOD: args.get(FIRE_PERIOD, '1000'),", "        SPAN: args[SPAN],\n        FIRE_COUNT: args.get(FIRE_COUNT, '1'),\n        FIRE_PERIOD: args.get(FIRE_PERIOD, '0'),"))
M("c11-metric-no-condition", "C11", "C11.SIB", (TRG, "    condition = args[CONDITION] if CONDITION in args else None\n    config = {\n        'metrics': metrics,", "    condition = None\n    config = {\n        'metrics': metrics,"))
M("c11-log-fire-count-from-period", "C11", "C11.SIB", (TRG, "        LOG_MSG: args[LOG_MSG],\n        FIRE_COUNT: args.get(FIRE_COUNT, '1'),", "        LOG_MSG: args[LOG_MSG],\n        FIRE_COUNT: args.get(FIRE_PERIOD, '1'),"))
M("c11-stage-dropped", "C11", "C11.KEYS", (TRG, "    if STAGE in args:\n        config[STAGE] = args[STAGE]\n", ""))
M("c11-frame-type-key", "C11", "C11.KEYS", (TRG, "        FRAME_TYPE: args.get(FRAME_TYPE, SINGLE_FRAME_TYPE),\n", "        STACK: args.get(FRAME_TYPE, SINGLE_FRAME_TYPE),\n"))
M("c11-none-trigger-used", "C11", "C11.ISOLATE", (GRPC, "            if trigger is None:\n                logging.warning(\"Cannot interpret tracepoint %s: %s\", r.ID, dict(r.args))\n                continue\n", ""))
M("c11-guard-around-loop", "C11", "C11.ISOLATE", (TPCS, "        if config is None:\n            # we cannot interpret this tracepoint, so there is nothing to install (or to remove later)\n            logging.warning(\"Cannot interpret tracepoint %s#%s: %s\", path, line, args)\n            return tp_id\n", ""))
M("c11-metric-help-unit-swapped", "C11", "C11.METRIC", (GRPC, "m.expression, m.namespace, m.help, m.unit)", "m.expression, m.namespace, m.unit, m.help)"))
M("c11-watches-as-args", "C11", "C11.METRIC", (GRPC, "build_trigger(r.ID, r.path, r.line_number, dict(r.args), [w for w in r.watches],", "build_trigger(r.ID, r.path, r.line_number, dict(r.args), [],"))
R("c11-stage-get", "C11", (TRG, "    if STAGE in args:\n        stage_ = args[STAGE]\n\n    position", "    if STAGE in args:\n        explicit = args[STAGE]\n        stage_ = explicit\n\n    position"))

# ------------------------------------------------------------------ C06
FCOL = "src/deep/processor/frame_collector.py"
M("c06-unguarded-attribute-dict", "C06", "C06.TOTAL", (VPF, "    try:\n        return value.__dict__\n    except Exception:\n        return None", "    return value.__dict__ if hasattr(value, '__dict__') else None"))
M("c06-attribute-dict-none-unchecked", "C06", "C06.TOTAL", (VPF, "        if attributes is not None:\n            return process_dict_breadth_first", "        if True:\n            return process_dict_breadth_first"))
M("c06-isinstance-exception", "C06", "C06.TOTAL", (VPF, "    elif issubclass(variable_type, Exception):", "    elif isinstance(value, Exception):"))
M("c06-raw-key-names", "C06", "C06.TOTAL", (VPF, "NodeValue(func(type_name, safe_str(key)), value[key], safe_str(key))", "NodeValue(func(type_name, key), value[key], key)"))
M("c06-unguarded-str", "C06", "C06.TOTAL", (VPF, "    try:\n        text = str(value)\n    except Exception:\n        text = f'{type(value)}@{id(value)}'", "    text = str(value)"))
M("c06-len-of-anything", "C06", "C06.TOTAL", (VPF, "    elif variable_type is dict \\\n            or variable_type.__name__ in LIST_LIKE_TYPES:", "    elif hasattr(var_value, '__len__'):"))
M("c06-iterate-generators", "C06", "C06.TOTAL", (VPF, "    elif variable_type.__name__ in LIST_LIKE_TYPES:\n        return process_list_breadth_first(var_collector, parent_node, value)", "    elif hasattr(value, '__iter__'):\n        return process_list_breadth_first(var_collector, parent_node, value)"))
M("c06-raw-str-result", "C06", "C06.TOTAL", (VSPF, "        return VariableId(var_id, name), safe_str(value)", "        return VariableId(var_id, name), str(value)"))
M("c06-shared-table", "C06", "C06.INDEP", (SNAP, "frames, variables = collector.collect({}, self.var_cache)", "frames, variables = collector.collect(self.trigger_context.vars, self.var_cache)"))
M("c06-shared-cache", "C06", "C06.INDEP", (SNAP, "frames, variables = collector.collect({}, self.var_cache)", "frames, variables = collector.collect({}, self.trigger_context.var_cache)"))
M("c06-class-level-cache", "C06", "C06.INDEP", (ACX, "        self.var_cache = VariableCacheProvider()\n", "        self.var_cache = parent.var_cache\n"))
M("c06-watch-own-cache", "C06", "C06.INDEP", (ACX, "        var_processor = VariableSetProcessor({}, self.var_cache)\n\n        try:", "        var_processor = VariableSetProcessor({}, VariableCacheProvider())\n\n        try:"))
R("c06-isinstance-dict", "C06", (VPF, "    if variable_type is dict:\n        return process_dict_breadth_first(parent_node, variable_type.__name__, value)", "    if variable_type == dict:\n        return process_dict_breadth_first(parent_node, variable_type.__name__, value)"))

# ------------------------------------------------------------------ C07
M("c07-hash-of-type", "C07", "C07.ID", (VPF, "    identity_hash_id = str(id(node.value))\n    # guess the modifiers", "    identity_hash_id = str(id(type(node.value)))\n    # guess the modifiers"))
M("c07-entry-after-children", "C07", "C07.ENTRY", (VPF, "    # add to lookup\n    var_collector.append_variable(var_id, variable)\n", "    # add to lookup\n    if not truncated:\n        var_collector.append_variable(var_id, variable)\n"))
M("c07-children-on-cache-hit", "C07", "C07.CYCLE", (VPF, "return VariableResponse(VariableId(cache_id, node.name, modifiers, node.original_name), process_children=False)", "return VariableResponse(VariableId(cache_id, node.name, modifiers, node.original_name), process_children=True)"))
M("c07-cache-reset", "C07", "C07.INJECT", (VSPF, "    @property\n    def size(self):\n        \"\"\"The number of variables we have cached.\"\"\"\n        return len(self.__cache)", "    def reset(self):\n        \"\"\"Reset.\"\"\"\n        self.__cache.clear()\n\n    @property\n    def size(self):\n        \"\"\"The number of variables we have cached.\"\"\"\n        return len(self.__cache)"))
M("c07-id-not-size-based", "C07", "C07.INJECT", (VSPF, "        new_id = str(var_count + 1)", "        new_id = str(var_count % 1000 + 1)"))
M("c07-optional-untested", "C07", "C07.OPTIONAL", (ACX, "            if variable_id.vid is None:\n                # the value was not recorded (the variable limit has been reached), so there is nothing to point at\n                return WatchResult(source, watch, None, \"variable limit reached\"), {}, log_str\n", ""))
M("c07-watch-vars-not-merged", "C07", "C07.MERGE", (SNAP, "            snapshot.add_watch_result(result)\n            snapshot.merge_var_lookup(watch_lookup)\n", "            snapshot.add_watch_result(result)\n"))
M("c07-child-to-wrong-parent", "C07", "C07.CHILD", (VSPF, "            child_nodes = process_child_nodes(self, var_id.vid, node_value.value, node.depth)", "            child_nodes = process_child_nodes(self, var_id.name, node_value.value, node.depth)"))
M("c07-name-of-other", "C07", "C07.ID", (VPF, "    variable_id = VariableId(var_id, node.name, modifiers, node.original_name)", "    variable_id = VariableId(var_id, node.original_name, modifiers, node.original_name)"))
R("c07-local-rename", "C07", (VPF, "    identity_hash_id = str(id(node.value))\n    # guess the modifiers", "    value_ = node.value\n    identity_hash_id = str(id(value_))\n    # guess the modifiers"))

# ------------------------------------------------------------------ C08
PUSHI = "src/deep/push/__init__.py"
GSVC = "src/deep/grpc/grpc_service.py"
POLLF = "src/deep/poll/poll.py"
M("c08-tuple-unhandled", "C08", "C08.TYPES", (GRPC, "    if isinstance(value, (list, tuple)):", "    if isinstance(value, list):"))
M("c08-int-before-bool", "C08", "C08.TYPES", (GRPC, "    if isinstance(value, bool):\n        return AnyValue(bool_value=value)\n", ""),
  (GRPC, "    if isinstance(value, float):\n", "    if isinstance(value, bool):\n        return AnyValue(bool_value=value)\n    if isinstance(value, float):\n"))
M("c08-float-as-int", "C08", "C08.TYPES", (GRPC, "        return AnyValue(double_value=value)", "        return AnyValue(int_value=value)"))
M("c08-truncated-dropped", "C08", "C08.SCHEMA", (PUSHI, "children=[__convert_variable_id(c) for c in variable.children], truncated=variable.truncated)", "children=[__convert_variable_id(c) for c in variable.children])"))
M("c08-method-file-swapped", "C08", "C08.SCHEMA", (PUSHI, "StackFrame(file_name=frame.file_name, short_path=frame.short_path, method_name=frame.method_name,", "StackFrame(file_name=frame.method_name, short_path=frame.short_path, method_name=frame.file_name,"))
M("c08-error-as-good", "C08", "C08.SCHEMA", (PUSHI, "error_result=watch.error, source=", "error_result=watch.expression, source="))
M("c08-app-frames-only", "C08", "C08.SCHEMA", (PUSHI, "frames=[__convert_frame(f) for f in snapshot.frames],", "frames=[__convert_frame(f) for f in snapshot.frames if f.app_frame],"))
M("c08-log-dropped", "C08", "C08.SCHEMA", (PUSHI, "                                  snapshot.resource.attributes.items()],\n                        log_msg=snapshot.log_msg)", "                                  snapshot.resource.attributes.items()])"))
M("c08-duration-is-ts", "C08", "C08.SCHEMA", (PUSHI, "duration_nanos=snapshot.duration_nanos,", "duration_nanos=snapshot.ts_nanos,"))
M("c08-lookup-skips", "C08", "C08.SCHEMA", (PUSHI, "    for k, v in var_lookup.items():\n        converted[k] = __convert_variable(v)", "    for k, v in var_lookup.items():\n        if v.children or not v.truncated:\n            converted[k] = __convert_variable(v)"))
M("c08-send-without-auth", "C08", "C08.AUTH", (PUSHS, "stub.send(converted, metadata=self.grpc.metadata())", "stub.send(converted)"))
M("c08-poll-without-auth", "C08", "C08.AUTH", (POLLF, "response = stub.poll(request, metadata=self.grpc.metadata())", "response = stub.poll(request)"))
M("c08-provider-ignored", "C08", "C08.AUTH", (GSVC, "        if provider is not None:\n            return provider.provide()\n        return []", "        if provider is None:\n            return provider.provide()\n        return []"))
M("c08-watch-source-name", "C08", "C08.SOURCE", ("src/deep/api/tracepoint/eventsnapshot.py", "WATCH_SOURCE_CAPTURE = \"CAPTURE\"", "WATCH_SOURCE_CAPTURE = \"CAPTURED\""))
R("c08-reorder-keywords", "C08", (PUSHI, "    return Variable(type=variable.type, value=variable.value, hash=variable.hash,", "    return Variable(hash=variable.hash, type=variable.type, value=variable.value,"))

# ------------------------------------------------------------------ C19
CFG = "src/deep/config/__init__.py"
CSV = "src/deep/config/config_service.py"
M("c19-env-before-module", "C19", "C19.CHAIN", (CSV, """                from deep import config
                has_attr = hasattr(config, name)
                if not has_attr:
                    # attribute is no in 'deep.config', so look in env
                    from_env = os.getenv("DEEP_%s" % name, None)
                    if from_env is None:
                        # not found in env - log and return none
                        logging.warning("Unrecognised config key: %s", name)
                        return None
                    else:
                        # if loaded from env, then cannot be function
                        return from_env
                attr = getattr(config, name, None)""", """                from deep import config
                from_env = os.getenv("DEEP_%s" % name, None)
                if from_env is not None:
                    return from_env
                has_attr = hasattr(config, name)
                if not has_attr:
                    logging.warning("Unrecognised config key: %s", name)
                    return None
                attr = getattr(config, name, None)"""))
M("c19-custom-not-called", "C19", "C19.CHAIN", (CSV, "            if self.__custom is not None and name in self.__custom:\n                attr = self.__custom[name]\n", "            if self.__custom is not None and name in self.__custom:\n                return self.__custom[name]\n"))
M("c19-env-prefix", "C19", "C19.CHAIN", (CSV, "from_env = os.getenv(\"DEEP_%s\" % name, None)", "from_env = os.getenv(\"%s\" % name, None)"))
M("c19-poll-timer-text", "C19", "C19.ENV", (CFG, "POLL_TIMER = int(os.getenv('DEEP_POLL_TIMER', 10))", "POLL_TIMER = os.getenv('DEEP_POLL_TIMER', 10)"))
M("c19-exclude-nested", "C19", "C19.ENV", (CFG, "    elif ',' in user_defined:\n        user_defined = user_defined.split(',')\n    else:\n        user_defined = [user_defined]\n", "    else:\n        if ',' in user_defined:\n            user_defined = user_defined.split(',')\n        user_defined = [user_defined]\n"))
M("c19-wrong-env-name", "C19", "C19.DOC", (CFG, "SERVICE_URL = os.getenv('DEEP_SERVICE_URL', 'deep:43315')", "SERVICE_URL = os.getenv('DEEP_URL', 'deep:43315')"))
M("c19-include-wins", "C19", "C19.FRAME", (CSV, """        for path in in_app_exclude:
            if filename.startswith(path):
                return False, path

        for path in in_app_include:
            if filename.startswith(path):
                return True, path
""", """        for path in in_app_include:
            if filename.startswith(path):
                return True, path

        for path in in_app_exclude:
            if filename.startswith(path):
                return False, path
"""))
M("c19-short-path-off", "C19", "C19.FRAME", ("src/deep/processor/frame_collector.py", "            return filename[len(match):], is_app_frame", "            return filename[len(match) + 1:], is_app_frame"))
M("c19-approot-always-derived", "C19", "C19.ROOT", ("src/deep/__init__.py", "    if 'APP_ROOT' not in config:\n", "    if True:\n"))
M("c19-approot-env-last", "C19", "C19.ROOT", ("src/deep/__init__.py", "config['APP_ROOT'] = os.getenv(\"DEEP_APP_ROOT\", None) or os.path.dirname(\n            os.path.dirname(inspect.stack()[1].filename))", "config['APP_ROOT'] = os.path.dirname(\n            os.path.dirname(inspect.stack()[1].filename)) or os.getenv(\"DEEP_APP_ROOT\", None)"))
R("c19-float-timer", "C19", (CFG, "POLL_TIMER = int(os.getenv('DEEP_POLL_TIMER', 10))", "POLL_TIMER = float(os.getenv('DEEP_POLL_TIMER', 10))"))

# ------------------------------------------------------------------ C18
ATTR = "src/deep/api/attributes/__init__.py"
RESF = "src/deep/api/resource/__init__.py"
M("c18-delete-when-frozen", "C18", "C18.FROZEN", (ATTR, "        \"\"\"Delete item from attributes.\"\"\"\n        if getattr(self, \"_immutable\", False):\n            raise TypeError\n", "        \"\"\"Delete item from attributes.\"\"\"\n"))
M("c18-copy-returns-dict", "C18", "C18.FROZEN", (ATTR, "        return self._dict.copy()", "        return self._dict"))
M("c18-evict-newest", "C18", "C18.CAP", (ATTR, "                    self._dict.popitem(last=False)", "                    self._dict.popitem(last=True)"))
M("c18-evict-uncounted", "C18", "C18.CAP", (ATTR, "                    self._dict.popitem(last=False)\n                    self.dropped += 1\n", "                    self._dict.popitem(last=False)\n"))
M("c18-capacity-off-by-one", "C18", "C18.CAP", (ATTR, "self.max_length is not None and len(self._dict) == self.max_length", "self.max_length is not None and len(self._dict) > self.max_length"))
M("c18-zero-capacity-stores", "C18", "C18.CAP", (ATTR, "            if self.max_length is not None and self.max_length == 0:\n                self.dropped += 1\n                return\n", ""))
M("c18-unlocked-delete", "C18", "C18.CAP", (ATTR, "        with self._lock:\n            del self._dict[key]", "        del self._dict[key]"))
M("c18-store-uncleaned", "C18", "C18.CLEAN", (ATTR, "            value = _clean_attribute(key, value, self.max_value_len)\n            if value is not None:", "            cleaned = _clean_attribute(key, value, self.max_value_len)\n            if cleaned is not None:"))
M("c18-no-string-limit", "C18", "C18.CLEAN", (ATTR, "    if limit is not None and isinstance(value, str):\n        value = value[:limit]\n", ""))
M("c18-merge-in-place", "C18", "C18.MERGE", (RESF, "        merged_attributes = self.attributes.copy()\n        merged_attributes.update(other.attributes)", "        merged_attributes = self.attributes._dict\n        merged_attributes.update(other.attributes)"))
M("c18-merge-left-biased", "C18", "C18.MERGE", (RESF, "        merged_attributes = self.attributes.copy()\n        merged_attributes.update(other.attributes)", "        merged_attributes = other.attributes.copy()\n        merged_attributes.update(self.attributes)"))
M("c18-schema-prefers-empty", "C18", "C18.MERGE", (RESF, "        if self.schema_url == \"\":\n            schema_url = other.schema_url\n        elif other.schema_url == \"\":\n            schema_url = self.schema_url", "        if self.schema_url == \"\":\n            schema_url = self.schema_url\n        elif other.schema_url == \"\":\n            schema_url = other.schema_url"))
M("c18-env-over-code", "C18", "C18.CHAIN", (RESF, "        resource = _DEFAULT_RESOURCE.merge(\n            DeepResourceDetector().detect()\n        ).merge(Resource(attributes, schema_url))", "        resource = _DEFAULT_RESOURCE.merge(\n            Resource(attributes, schema_url)\n        ).merge(DeepResourceDetector().detect())"))
M("c18-plugin-under-accumulated", "C18", "C18.CHAIN", (DEEP, "                    default_resource = default_resource.merge(plugin_resource)", "                    default_resource = plugin_resource.merge(default_resource)"))
M("c18-no-sdk-version", "C18", "C18.CHAIN", (RESF, "        TELEMETRY_SDK_VERSION: _DEEP_SDK_VERSION,\n", ""))
R("c18-rename-local", "C18", (RESF, "        merged_attributes = self.attributes.copy()\n        merged_attributes.update(other.attributes)", "        combined = self.attributes.copy()\n        combined.update(other.attributes)\n        merged_attributes = combined"))

# ------------------------------------------------------------------ C12
UTLS = "src/deep/utils.py"
M("c12-update-before-convert", "C12", "C12.FAIL", (POLLF, """            self.config.tracepoints.update_new_config(response.ts_nanos, response.current_hash,
                                                      convert_response(response.response))""", """            self.config.tracepoints.update_new_config(response.ts_nanos, response.current_hash, [])
            self.config.tracepoints.current_config.extend(convert_response(response.response))"""))
M("c12-no-change-clears", "C12", "C12.STATE", (TPCS, "        self._last_update = ts\n\n    def update_new_config", "        self._last_update = ts\n        self._current_hash = None\n\n    def update_new_config"))
M("c12-hash-before-success", "C12", "C12.STATE", (TPCS, "        self._current_hash = new_hash\n        self._tracepoint_config = new_config\n", "        self._current_hash = new_hash\n        if new_config:\n            self._tracepoint_config = new_config\n"))
M("c12-report-stale-hash", "C12", "C12.STATE", (POLLF, "current_hash=self.config.tracepoints.current_hash,", "current_hash=str(self.config.tracepoints._last_update),"))
M("c12-timer-dies", "C12", "C12.LOOP", (UTLS, "            try:\n                self.function(*self.args, **self.kwargs)\n            except Exception:\n                logging.exception(\n                    \"Repeated function (%s) failed, will retry in %s seconds.\" % (self.name, self.interval))", "            self.function(*self.args, **self.kwargs)"))
M("c12-initial-poll-unguarded", "C12", "C12.LOOP", (POLLF, "        try:\n            self.poll()\n        except Exception:\n            logging.exception(\"Initial poll failed. Will continue with interval.\")", "        self.poll()"))
M("c12-captured-config", "C12", "C12.ORDER", (TPCS, "            current_hash = self._current_hash\n            new_config = self._tracepoint_config\n", ""))
M("c12-no-lock", "C12", "C12.ORDER", (TPCS, "        with self._update_lock:\n            current_hash = self._current_hash\n            new_config = self._tracepoint_config\n            listeners_copy = self._listeners.copy()\n            for listeners in listeners_copy:\n                try:\n                    listeners.config_change(ts, old_hash, current_hash, old_config, new_config + self._custom)\n                except Exception:\n                    logging.exception(\"Error updating listener %s\", listeners)",
                                        "        if True:\n            current_hash = self._current_hash\n            new_config = self._tracepoint_config\n            listeners_copy = self._listeners.copy()\n            for listeners in listeners_copy:\n                try:\n                    listeners.config_change(ts, old_hash, current_hash, old_config, new_config + self._custom)\n                except Exception:\n                    logging.exception(\"Error updating listener %s\", listeners)"))
M("c12-handler-appends", "C12", "C12.APPLY", (TH, "        self._tp_config = new_config\n", "        self._tp_config = self._tp_config + new_config\n"))
M("c12-custom-dropped", "C12", "C12.APPLY", (TPCS, "listeners.config_change(ts, old_hash, current_hash, old_config, new_config + self._custom)", "listeners.config_change(ts, old_hash, current_hash, old_config, new_config)"))
R("c12-serial-pool", "C12", (TASK, "self._pool = ThreadPoolExecutor(max_workers=2)", "self._pool = ThreadPoolExecutor(max_workers=1)"))

# ------------------------------------------------------------------ C15
CBC = "src/deep/processor/context/callback_context.py"
TLF = "src/deep/thread_local.py"
M("c15-process-and-keep", "C15", "C15.ONCE", (TH, "                context.process(ctx, event, frame, arg)\n            else:", "                context.process(ctx, event, frame, arg)\n                self._callbacks.value.append(context)\n            else:"))
M("c15-dropped-when-elsewhere", "C15", "C15.ONCE", (TH, "                # else put the context back on the queue\n                self._callbacks.value.append(context)\n", "                # else put the context back on the queue\n                pass\n"))
M("c15-register-before-processing", "C15", "C15.ONCE", (TH, "        if event in [\"line\", \"return\", \"exception\"] and self._callbacks.is_set:\n            try:\n                self.__process_call_backs(trigger_context, arg, frame, event, file, line, function)\n            except BaseException:\n                # a failing callback must not stop us from matching the tracepoints for this event\n                logging.exception(\"Cannot process callbacks at %s#%s %s\", file, line, function)\n", ""), (TH, "        return self.trace_call\n\n    def __actions_for_location", "        if event in [\"line\", \"return\", \"exception\"] and self._callbacks.is_set:\n            self.__process_call_backs(trigger_context, arg, frame, event, file, line, function)\n        return self.trace_call\n\n    def __actions_for_location"))
M("c15-method-completes-on-line", "C15", "C15.TABLE", (CBC, "        if event in ['exception', 'return']:\n            return True\n        return False", "        if event in ['exception', 'return', 'line']:\n            return True\n        return False"))
M("c15-ignores-function-name", "C15", "C15.TABLE", (CBC, "        if file != self.__filename or function_name != self.__function_name:\n            return False\n\n        if self.__event", "        if file != self.__filename:\n            return False\n\n        if self.__event"))
M("c15-capture-trigger-arg", "C15", "C15.RESULT", (SNAP, "            watch, new_vars, _ = self.__action_context.process_capture_variable(event, arg)\n            self.__snapshot.add_watch_result(watch)", "            watch, new_vars, _ = self.__action_context.process_capture_variable(event, ctx.arg)\n            self.__snapshot.add_watch_result(watch)"))
M("c15-deferred-sent-only-on-return", "C15", "C15.RESULT", (SNAP, "            self.__snapshot.merge_var_lookup(new_vars)\n\n        ctx.push_service.push_snapshot(self.__snapshot)\n        return False", "            self.__snapshot.merge_var_lookup(new_vars)\n            ctx.push_service.push_snapshot(self.__snapshot)\n        return False"))
M("c15-class-level-store", "C15", "C15.THREAD", (TLF, "        self.__store = threading.local()\n", "        self.__store = ThreadLocal._shared\n"), (TLF, "    def __init__(self, default_provider: Callable[[], T] = lambda: None):", "    _shared = threading.local()\n\n    def __init__(self, default_provider: Callable[[], T] = lambda: None):"))
M("c15-ident-keyed", "C15", "C15.THREAD", (TLF, "        return hasattr(self.__store, 'value')", "        return hasattr(self.__store, 'value') and threading.current_thread().ident is not None"))
M("c15-shared-callbacks", "C15", "C15.THREAD", (TH, "        self._callbacks: ThreadLocal[Deque[CallbackContext]] = ThreadLocal(lambda: deque())", "        self._callbacks: ThreadLocal[Deque[CallbackContext]] = _CALLBACKS"), (TH, "class TriggerHandler:\n", "_CALLBACKS = ThreadLocal(lambda: deque())\n\n\nclass TriggerHandler:\n"))

# ------------------------------------------------------------------ C02
M("c02-caller-line", "C02", "C02.FRAME", (FCOL, "        lineno = frame.f_lineno\n", "        lineno = frame.f_code.co_firstlineno\n"))
M("c02-swapped-file-method", "C02", "C02.FRAME", (FCOL, "        return StackFrame(filename, short_path, func_name, lineno, var_ids, class_name,", "        return StackFrame(filename, short_path, lineno, func_name, var_ids, class_name,"))
M("c02-trigger-frame-locals", "C02", "C02.FRAME", (FCOL, "        f_locals = frame.f_locals\n", "        f_locals = self.__frame.f_locals\n"))
M("c02-class-of-cls", "C02", "C02.FRAME", (FCOL, "        _self = f_locals.get('self', None)", "        _self = f_locals.get('cls', None)"))
M("c02-skip-frames", "C02", "C02.WALK", (FCOL, "            current_frame = current_frame.f_back\n", "            current_frame = current_frame.f_back.f_back if current_frame.f_back else None\n"))
M("c02-reverse-stack", "C02", "C02.WALK", (FCOL, "            collected_frames.append(frame)\n", "            collected_frames.insert(0, frame)\n"))
M("c02-start-at-caller", "C02", "C02.WALK", (SNAP, "collector = FrameCollector(self, self.trigger_context.frame)", "collector = FrameCollector(self, self.trigger_context.frame.f_back)"))
M("c02-hash-of-type", "C02", "C02.VAR", (VPF, "    variable = Variable(str(variable_type.__name__), variable_value_str, identity_hash_id, [], truncated)", "    variable = Variable(str(variable_type.__name__), variable_value_str, str(id(variable_type)), [], truncated)"))
M("c02-type-of-type", "C02", "C02.VAR", (VPF, "    variable_type = type(node.value)\n    # create a string value of the variable", "    variable_type = type(type(node.value))\n    # create a string value of the variable"))
M("c02-truncated-always-false", "C02", "C02.VAR", (VPF, "    variable = Variable(str(variable_type.__name__), variable_value_str, identity_hash_id, [], truncated)", "    variable = Variable(str(variable_type.__name__), variable_value_str, identity_hash_id, [], False)"))
M("c02-size-of-repr", "C02", "C02.VAR", (VPF, "        return 'Size: %s' % len(var_value)", "        return 'Size: %s' % len(str(var_value))"))
M("c02-all-frame-means-none", "C02", "C02.TYPE", (SNAP, "        if config_type == ALL_FRAME_TYPE:\n            return True", "        if config_type == ALL_FRAME_TYPE:\n            return False"))
M("c02-index-constant", "C02", "C02.TYPE", (FCOL, "self.__source.should_collect_vars(len(collected_frames)))", "self.__source.should_collect_vars(0))"))
M("c02-frames-vars-swapped", "C02", "C02.SNAP", (SNAP, "self.trigger_context.resource, frames, variables)", "self.trigger_context.resource, variables, frames)"))
M("c02-watch-wrong-expression", "C02", "C02.SNAP", (ACX, "            return WatchResult(source, watch, variable_id), var_processor.var_lookup, log_str", "            return WatchResult(source, log_str, variable_id), var_processor.var_lookup, log_str"))
M("c02-dict-child-wrong-value", "C02", "C02.CHILD", (VPF, "NodeValue(func(type_name, safe_str(key)), value[key], safe_str(key))", "NodeValue(func(type_name, safe_str(key)), key, safe_str(key))"))
M("c02-list-child-names", "C02", "C02.CHILD", (VPF, "nodes.append(Node(value=NodeValue(str(total), val_), parent=parent_node))", "nodes.append(Node(value=NodeValue(str(val_), val_), parent=parent_node))"))
R("c02-inline-locals", "C02", (FCOL, "        lineno = frame.f_lineno\n        filename = frame.f_code.co_filename\n        func_name = frame.f_code.co_name\n", "        code = frame.f_code\n        lineno = frame.f_lineno\n        filename = code.co_filename\n        func_name = code.co_name\n"))

# coalescing done right (flag cleared before the state is read) stays silent; cleared after publishing is a lost update
R("c12-coalesce-flag-cleared-first", "C12",
  (CFGS, "        self._update_lock = threading.Lock()\n", "        self._update_lock = threading.Lock()\n        self._unpublished = False\n"),
  (CFGS, "        ts = self._last_update\n        if self._task_handler is not None:", "        ts = self._last_update\n        self._unpublished = True\n        if self._task_handler is not None:"),
  (CFGS, "        with self._update_lock:\n            current_hash = self._current_hash", "        with self._update_lock:\n            if not self._unpublished:\n                return\n            self._unpublished = False\n            current_hash = self._current_hash"))
M("c12-coalesce-flag-cleared-last", "C12", "C12.ORDER",
  (CFGS, "        self._update_lock = threading.Lock()\n", "        self._update_lock = threading.Lock()\n        self._unpublished = False\n"),
  (CFGS, "        ts = self._last_update\n        if self._task_handler is not None:", "        ts = self._last_update\n        self._unpublished = True\n        if self._task_handler is not None:"),
  (CFGS, "        with self._update_lock:\n            current_hash = self._current_hash", "        with self._update_lock:\n            if not self._unpublished:\n                return\n            current_hash = self._current_hash"),
  (CFGS, "                    logging.exception(\"Error updating listener %s\", listeners)\n", "                    logging.exception(\"Error updating listener %s\", listeners)\n            self._unpublished = False\n"))

# ------------------------------------------------------------------ round-4 rules
ESNAP = "src/deep/api/tracepoint/eventsnapshot.py"
TLOC = "src/deep/thread_local.py"
OTM = "src/deep/api/plugin/metric/otel_metrics.py"
M("c01-global-random-stream", "C01", "C01.R3", (ESNAP, "import uuid\n", "import uuid\nimport random\n"),
  (ESNAP, "        self._id = uuid.uuid4().int", "        self._id = random.getrandbits(128)"))
M("c09-refusal-swallowed", "C09", "C09.D", (PUSHS, """        task = self.task_handler.submit_task(self._push_task, snapshot)
        task.add_done_callback(
            lambda _: logging.debug("Completed uploading snapshot %s", snapshot_id_as_hex_str(snapshot.id)))
""", """        try:
            task = self.task_handler.submit_task(self._push_task, snapshot)
        except Exception:
            logging.debug("Cannot upload snapshot %s", snapshot_id_as_hex_str(snapshot.id))
            return
        task.add_done_callback(
            lambda _: logging.debug("Completed uploading snapshot %s", snapshot_id_as_hex_str(snapshot.id)))
"""))
M("c15-threadlocal-shared-flag", "C15", "C15.THREAD", (TLOC, "        self.__store.value = val\n", "        self.__store.value = val\n        self.__any_set = True\n"))
M("c20-base-ctor-args-swapped", "C20", "C20.LOAD", (OTM, 'super().__init__("OTelMetrics", config)', 'super().__init__(config, "OTelMetrics")'))
R("c20-base-ctor-keywords", "C20", (OTM, 'super().__init__("OTelMetrics", config)', 'super().__init__(name="OTelMetrics", config=config)'))
R("c15-threadlocal-extra-ctor-field", "C15", (TLOC, "        self.__store = threading.local()\n", "        self.__store = threading.local()\n        self.__created_by = threading.get_ident()\n"))

# ------------------------------------------------------------------ round-5 rules
GSVC = "src/deep/grpc/grpc_service.py"
POLLF = "src/deep/poll/poll.py"
CSVC = "src/deep/config/config_service.py"
RESF = "src/deep/api/resource/__init__.py"
LOGA = "src/deep/processor/context/log_action.py"
TCTX = "src/deep/processor/context/trigger_context.py"
VPROC = "src/deep/processor/variable_processor.py"
_META_OLD = """        if self._metadata is None:
            self._metadata = self._build_metadata()
        return self._metadata
"""
M("c09-lock-not-released-on-failure", "C09", "C09.F",
  (GSVC, "        self._metadata = None\n", "        self._metadata = None\n        self._metadata_lock = __import__('threading').Lock()\n"),
  (GSVC, _META_OLD, """        if self._metadata is None:
            self._metadata_lock.acquire()
            if self._metadata is None:
                self._metadata = self._build_metadata()
            self._metadata_lock.release()
        return self._metadata
"""))
R("c09-lock-released-in-finally", "C09",
  (GSVC, "        self._metadata = None\n", "        self._metadata = None\n        self._metadata_lock = __import__('threading').Lock()\n"),
  (GSVC, _META_OLD, """        if self._metadata is None:
            self._metadata_lock.acquire()
            try:
                if self._metadata is None:
                    self._metadata = self._build_metadata()
            finally:
                self._metadata_lock.release()
        return self._metadata
"""))
R("c09-lock-with-block", "C09",
  (GSVC, "        self._metadata = None\n", "        self._metadata = None\n        self._metadata_lock = __import__('threading').Lock()\n"),
  (GSVC, _META_OLD, """        if self._metadata is None:
            with self._metadata_lock:
                if self._metadata is None:
                    self._metadata = self._build_metadata()
        return self._metadata
"""))
M("c09-job-id-read-outside-lock", "C09", "C09.E", (TASK, "            next_id = self._job_id\n        return next_id\n", "        return self._job_id\n"))
R("c09-job-id-returned-inside-lock", "C09", (TASK, "            next_id = self._job_id\n        return next_id\n", "            return self._job_id\n"))
M("c12-poll-guard-lock-leaks", "C12", "C12.LOOP",
  (POLLF, "        self.timer = None\n\n    def start(self):", "        self.timer = None\n        self._poll_lock = __import__('threading').Lock()\n\n    def start(self):"),
  (POLLF, "        stub = PollConfigStub(self.grpc.channel)\n", "        if not self._poll_lock.acquire(blocking=False):\n            return\n        stub = PollConfigStub(self.grpc.channel)\n"),
  (POLLF, "                                                      convert_response(response.response))\n",
   "                                                      convert_response(response.response))\n        self._poll_lock.release()\n"))
M("c10-per-hit-state-on-module-object", "C10", "C10.SCOPE",
  (LOGA, "class LogActionContext(ActionContext):", "_LAST = {}\n\n\nclass LogActionContext(ActionContext):"),
  (LOGA, "        ctx_self = self\n", "        ctx_self = self\n        _LAST['ctx'] = self\n"))
R("c10-module-constant-read-only", "C10",
  (LOGA, "class LogActionContext(ActionContext):", "_PREFIX = {'text': '[deep] %s'}\n\n\nclass LogActionContext(ActionContext):"),
  (LOGA, '        log_msg = "[deep] %s" % FormatExtractor()', "        log_msg = _PREFIX['text'] % FormatExtractor()"))
M("c10-second-eval-in-merged-scope", "C10", "C10.SCOPE",
  (TCTX, "            return True, eval(expression, getattr(self.__frame, 'f_globals', None), self.__frame.f_locals)\n",
   "            if '(' not in expression:\n                return True, eval(expression, getattr(self.__frame, 'f_globals', None), self.__frame.f_locals)\n"
   "            scope = dict(self.__frame.f_locals)\n            scope.update(self.__frame.f_globals)\n            return True, eval(expression, scope)\n"))
M("c14-hooks-saved-at-construction", "C14", "C14.C",
  (TH, "        self.__old_thread_trace = None\n        self.__old_sys_trace = None\n",
   "        self.__old_sys_trace = sys.gettrace()\n        self.__old_thread_trace = threading.gettrace() if hasattr(threading, 'gettrace') else threading._trace_hook\n"),
  (TH, "        self.__old_sys_trace = sys.gettrace()\n        # gettrace was added in 3.10, so use it if we can, else try to get from property\n"
       "        # noinspection PyUnresolvedReferences,PyProtectedMember\n"
       "        self.__old_thread_trace = threading.gettrace() if hasattr(threading, 'gettrace') else threading._trace_hook\n        self.__installed = True\n",
   "        self.__installed = True\n"))
M("c14-poll-thread-starts-a-timer", "C14", "C14.E",
  (POLLF, "from deep.utils import time_ns, RepeatedTimer\n", "import threading\nfrom deep.utils import time_ns, RepeatedTimer\n"),
  (POLLF, "                                                      convert_response(response.response))\n",
   "                                                      convert_response(response.response))\n"
   "            follow = threading.Timer(2, self.poll)\n            follow.daemon = True\n            follow.start()\n"))
M("c15-empty-config-exit-before-callbacks", "C15", "C15.ONCE",
  (TH, "        trigger_context = TriggerContext(self._config, self._push_service, frame, event, arg)\n",
   "        trigger_context = TriggerContext(self._config, self._push_service, frame, event, arg)\n        if len(self._tp_config) == 0:\n            return None\n"))
M("c18-resource-store-bounded", "C18", "C18.MERGE", (RESF, "BoundedAttributes(attributes=attributes)", "BoundedAttributes(max_length=128, attributes=attributes)"))
R("c18-resource-store-explicit-none", "C18", (RESF, "BoundedAttributes(attributes=attributes)", "BoundedAttributes(max_length=None, attributes=attributes)"))
M("c18-poll-resource-remembered", "C18", "C18.CHAIN",
  (POLLF, "        self.timer = None\n\n    def start(self):", "        self.timer = None\n        self._resource = None\n\n    def start(self):"),
  (POLLF, "        stub = PollConfigStub(self.grpc.channel)\n", "        stub = PollConfigStub(self.grpc.channel)\n        if self._resource is None:\n            self._resource = convert_resource(self.config.resource)\n"),
  (POLLF, "resource=convert_resource(self.config.resource))", "resource=self._resource)"))
R("c18-poll-resource-local-variable", "C18",
  (POLLF, "        stub = PollConfigStub(self.grpc.channel)\n", "        stub = PollConfigStub(self.grpc.channel)\n        client = convert_resource(self.config.resource)\n"),
  (POLLF, "resource=convert_resource(self.config.resource))", "resource=client)"))
_PG_OLD = """        for plugin in self._plugins:
            if isinstance(plugin, plugin_type):
                yield plugin
"""
_PG_NEW = """        matching = self._by_type.get(plugin_type)
        if matching is None:
            matching = [plugin for plugin in self._plugins if isinstance(plugin, plugin_type)]
            self._by_type[plugin_type] = matching
        yield from matching
"""
M("c20-plugins-by-type-memo-not-reset", "C20", "C20.LOAD",
  (CSVC, "    def __plugin_generator(self, plugin_type)", "    _by_type_unused = None\n\n    def __plugin_generator(self, plugin_type)"),
  (CSVC, _PG_OLD, "        if not hasattr(self, '_by_type'):\n            self._by_type = {}\n" + _PG_NEW))
R("c20-plugins-by-type-memo-reset-by-setter", "C20",
  (CSVC, _PG_OLD, "        if not hasattr(self, '_by_type'):\n            self._by_type = {}\n" + _PG_NEW),
  (CSVC, '        """Set the active deep client plugins."""\n        self._plugins = plugins\n',
   '        """Set the active deep client plugins."""\n        self._plugins = plugins\n        self._by_type = {}\n'))
M("c13-api-writes-into-callers-args", "C13", "C13.ARGS",
  (DEEP, "        tp_id = self.config.tracepoints.add_custom(path, line, args, watches, metrics)\n",
   "        args['registered_by'] = 'api'\n        tp_id = self.config.tracepoints.add_custom(path, line, args, watches, metrics)\n"))
R("c13-api-writes-into-a-copy", "C13",
  (DEEP, "        if args is None:\n            args = {}\n        tp_id = self.config.tracepoints.add_custom",
   "        args = dict(args or {})\n        args['registered_by'] = 'api'\n        tp_id = self.config.tracepoints.add_custom"))
M("c05-program-str-subclass-cut-by-itself", "C05", "C05.STR",
  (VPROC, "    try:\n        text = str(value)\n", "    if isinstance(value, str):\n        return value\n    try:\n        text = str(value)\n"))
M("c01-locals-mapping-read-for-every-event", "C01", "C01.R3",
  (TCTX, "        self.__frame = frame\n", "        self.__frame = frame\n        self.__locals = frame.f_locals\n"))

# ------------------------------------------------------------------ C06.TEXT (text made encodable where it is produced)
ACTX = "src/deep/processor/context/action_context.py"
_SAN = "    return text.encode('utf-8', 'backslashreplace').decode('utf-8')\n"
M("c06-sanitiser-hands-out-raw-text", "C06", "C06.TEXT", (VPROC, _SAN, "    return text\n"))
M("c06-sanitiser-strict-encode", "C06", "C06.TEXT", (VPROC, _SAN, "    return text.encode('utf-8', 'strict').decode('utf-8')\n"))
R("c06-sanitiser-other-lenient-handler", "C06", (VPROC, _SAN, "    return text.encode('utf-8', errors='replace').decode('utf-8')\n"))
M("c06-watch-failure-text-unsanitised", "C06", "C06.TEXT", (ACTX, "            error = safe_str(e)\n", "            error = str(e)\n"))
M("c08-watch-failure-text-unsanitised", "C08", "C08.TEXT", (ACTX, "                error = safe_str(result)\n", "                error = '%s' % (result,)\n"))
R("c06-watch-failure-text-inline", "C06", (ACTX, "                error = safe_str(result)\n                return WatchResult(source, watch, None, error), {}, error\n",
                                            "                return WatchResult(source, watch, None, safe_str(result)), {}, safe_str(result)\n"))
M("c06-dict-key-name-unsanitised", "C06", "C06.TEXT", (VPROC, "NodeValue(func(type_name, safe_str(key)), value[key], safe_str(key))", "NodeValue(func(type_name, str(key)), value[key], safe_str(key))"))

# ------------------------------------------------------------------ C08.TYPES: what the store holds fits the wire type
M("c08-text-sent-unsanitised", "C08", "C08.TYPES", (GRPC, "AnyValue(string_value=value.encode('utf-8', 'backslashreplace').decode('utf-8'))", "AnyValue(string_value=value)"))
M("c08-int-range-not-tested", "C08", "C08.TYPES", (GRPC, "        if -2 ** 63 <= value < 2 ** 63:\n            return AnyValue(int_value=value)\n", "        if value is not None:\n            return AnyValue(int_value=value)\n"))
M("c08-none-element-in-array", "C08", "C08.TYPES", (GRPC, "ArrayValue(values=[__element(val) for val in value])", "ArrayValue(values=[convert_value(val) for val in value])"))
R("c08-int-range-by-bit-length", "C08", (GRPC, "        if -2 ** 63 <= value < 2 ** 63:\n", "        if value.bit_length() < 64:\n"))
R("c08-element-inline", "C08", (GRPC, "ArrayValue(values=[__element(val) for val in value])", "ArrayValue(values=[convert_value(val) or AnyValue() for val in value])"))

# ------------------------------------------------------------------ round-6 rules
M("c01-truth-test-of-host-self", "C01", "C01.R3", ("src/deep/processor/frame_collector.py", "        if _self is not None:\n", "        if _self:\n"))
M("c04-falsy-limit-gets-default", "C04", "C04.INT", (TRG, "            return int(self.__config.get(name, default_value))\n", "            return int(self.__config.get(name) or default_value)\n"))
M("c07-id-picked-from-possibly-empty-list", "C07", "C07.OPTIONAL",
  ("src/deep/processor/variable_set_processor.py", "        var_id = self.__var_cache.check_id(identity_hash_id)\n\n        return VariableId(var_id, name), safe_str(value)",
   "        return VariableId(var_ids[0].vid, name), safe_str(value)"))
M("c10-condition-text-rewritten", "C10", "C10.SCOPE", (TRG, "        self.__condition = condition\n", "        self.__condition = ' '.join(condition.split()) if condition else condition\n"))
M("c12-timer-interval-truncated", "C12", "C12.LOOP", ("src/deep/utils.py", "        self.interval = interval\n", "        self.interval = int(interval)\n"))
R("c12-timer-interval-as-float", "C12", ("src/deep/utils.py", "        self.interval = interval\n", "        self.interval = float(interval)\n"))
M("c14-poll-thread-joined-with-timeout", "C14", "C14.E", ("src/deep/utils.py", "        self.thread.join()\n", "        self.thread.join(self.interval)\n"))
M("c15-pending-stack-bounded", "C15", "C15.ONCE", (TH, "ThreadLocal(lambda: deque())", "ThreadLocal(lambda: deque(maxlen=64))"))
M("c13-handle-from-application-rng", "C13", "C13.HANDLE", (CFGS, "        tp_id = str(uuid.uuid4())\n", "        import random\n        tp_id = str(uuid.UUID(int=random.getrandbits(128), version=4))\n"))
M("c18-env-value-plus-decoded", "C18", "C18.CHAIN", (RESF, "parse.unquote(value.strip())", "parse.unquote_plus(value.strip())"))
M("c20-switch-key-rewritten", "C20", "C20.LOAD", (PLUG, "        attr = getattr(self.config, f'plugin_{self.name}'.upper(), 'True')\n",
                                                  "        attr = getattr(self.config, f'plugin_{self.name}'.upper().replace('-', '_'), 'True')\n"))
R("c20-switch-key-concatenated", "C20", (PLUG, "        attr = getattr(self.config, f'plugin_{self.name}'.upper(), 'True')\n",
                                          "        attr = getattr(self.config, ('plugin_' + self.name).upper(), 'True')\n"))
R("c17-plugin-enumeration-as-generator-expression", "C17", (CSVC, _PG_OLD, "        return (plugin for plugin in self._plugins if isinstance(plugin, plugin_type))\n"))
M("c17-plugin-enumeration-dedup-by-name", "C17", "C17.FAN", (CSVC, _PG_OLD, """        seen = set()
        for plugin in self._plugins:
            if isinstance(plugin, plugin_type) and plugin.name not in seen:
                seen.add(plugin.name)
                yield plugin
"""))

# ------------------------------------------------------------------ Cxx.DIAG: the agent's own log statements are inert
M("c02-log-eager-percent-single-value", "C02", "C02.DIAG",
  (ACTX, "            variable_id, log_str = var_processor.process_variable(watch, result)\n",
   "            deep.logging.debug(\"evaluated '\" + watch + \"' -> %s\" % result)\n            variable_id, log_str = var_processor.process_variable(watch, result)\n"))
M("c12-log-slices-optional-hash", "C12", "C12.DIAG",
  (TH, "        self._handler.new_config(new_config)\n", "        logging.debug(\"config %s with %s triggers\", current_hash[:8], len(new_config))\n        self._handler.new_config(new_config)\n"))
M("c13-log-consumes-callers-watches", "C13", "C13.DIAG",
  (DEEP, "        tp_id = self.config.tracepoints.add_custom(path, line, args, watches, metrics)\n",
   "        deep.logging.debug(\"registering %s:%s watches=%s\", path, line, \", \".join(watches))\n        tp_id = self.config.tracepoints.add_custom(path, line, args, watches, metrics)\n"))
M("c11-log-compares-trigger-lists", "C11", "C11.DIAG",
  (TH, "        self._tp_config = new_config\n", "        logging.debug(\"new config (%s)\", \"changed\" if new_config != self._tp_config else \"unchanged\")\n        self._tp_config = new_config\n"))
M("c17-log-evaluates-again", "C17", "C17.DIAG",
  (METR, "                deep.logging.exception(\"Cannot process metric expression %s\", metric.expression)",
   "                deep.logging.exception(\"Cannot process metric expression %s (%s)\", metric.expression, self.eval_watch(metric.expression, 'METRIC')[2])"))
R("c12-log-plain-values", "C12",
  (TH, "        self._handler.new_config(new_config)\n", "        logging.debug(\"config %s with %s triggers\", current_hash, len(new_config))\n        self._handler.new_config(new_config)\n"))
R("c14-log-duration", "C14",
  (POLLF, "from deep.utils import time_ns, RepeatedTimer\n", "import time\nfrom deep.utils import time_ns, RepeatedTimer\n"),
  (POLLF, "        response = stub.poll(request, metadata=self.grpc.metadata())\n",
   "        started = time.monotonic()\n        response = stub.poll(request, metadata=self.grpc.metadata())\n        logging.debug(\"poll took %s\", time.monotonic() - started)\n"))

# ------------------------------------------------------------------ other round-7 rules
M("c02-frame-type-by-identity", "C02", "C02.TYPE", (SNAP, "        if config_type == NO_FRAME_TYPE:\n", "        if config_type is NO_FRAME_TYPE:\n"))
M("c04-fire-recorded-conditionally", "C04", "C04.UNITS", (TRG, "        self.__stats.fire(ts)\n", "        if ts >= self.__stats.last_fire:\n            self.__stats.fire(ts)\n"))
M("c07-collector-second-guesses-the-cache", "C07", "C07.INJECT",
  ("src/deep/processor/variable_set_processor.py", "        return self.__var_cache.check_id(identity_hash_id)\n",
   "        var_id = self.__var_cache.check_id(identity_hash_id)\n        if var_id is not None and var_id not in self.__var_lookup:\n            return None\n        return var_id\n"))
M("c08-int-range-one-bit-wide", "C08", "C08.TYPES", (GRPC, "        if -2 ** 63 <= value < 2 ** 63:\n", "        if value.bit_length() <= 64:\n"))
M("c09-handler-state-on-the-class", "C09", "C09.E", (TASK, "        self._pending = {}\n", "        pass\n"), (TASK, "class TaskHandler:\n", "class TaskHandler:\n    _pending = {}\n"))
M("c13-removal-by-equality", "C13", "C13.MATCH", (CFGS, "            if cfg is config:\n", "            if cfg == config:\n"))
M("c16-watch-results-keyed-by-expression", "C16", "C16.PIPE", ("src/deep/api/tracepoint/eventsnapshot.py", "        self.watches.append(watch_result)\n", "        self._watches[:] = [w for w in self._watches if w.expression != watch_result.expression] + [watch_result]\n"))
M("c16-message-inside-eager-format", "C16", "C16.ROLE", ("src/deep/api/plugin/python.py", "logging.info(log_msg + \" ctx=%s tracepoint=%s\" % (ctx_id, tp_id))", "logging.info((log_msg + \" ctx=%s tracepoint=%s\") % (ctx_id, tp_id))"))
M("c17-metric-definitions-collapsed-by-name", "C17", "C17.FAN", (TRG, "        'metrics': metrics,\n", "        'metrics': list({m.name: m for m in metrics}.values()),\n"))
R("c17-metric-definitions-copied", "C17", (TRG, "        'metrics': metrics,\n", "        'metrics': list(metrics),\n"))
M("c18-empty-service-name-kept", "C18", "C18.CHAIN", (RESF, "        if not resource.attributes.get(SERVICE_NAME, None):\n", "        if resource.attributes.get(SERVICE_NAME, None) is None:\n"))
M("c19-short-path-keeps-a-slash", "C19", "C19.FRAME", ("src/deep/processor/frame_collector.py", "            return filename[len(match):], is_app_frame\n",
                                                       "            start = len(match) - 1 if match.endswith('/') else len(match)\n            return filename[start:], is_app_frame\n"))
M("c06-live-collection-through-islice", "C06", "C06.TOTAL", (VPROC, "from typing import ", "from itertools import islice\nfrom typing import "),
  (VPROC, "    for val_ in tuple(value):\n", "    for val_ in islice(value, 1000):\n"))


# ------------------------------------------------------------------ cases taken from committed patches (round 8 / campaign 7)
def _edits_of(patch):
    """(file, old, new) per hunk of a unified diff under /verif/seeded (source files only)."""
    import os
    path = os.path.join(os.path.dirname(os.path.dirname(os.path.dirname(os.path.abspath(__file__)))), "seeded", patch)
    edits, rel, old, new = [], None, [], []

    def flush():
        if rel and rel.startswith("src/") and (old or new) and old != new:
            edits.append((rel, "".join(old), "".join(new)))
    for line in open(path).read().splitlines(keepends=True):
        if line.startswith("+++ "):
            flush()
            rel, old, new = line[4:].strip()[2:] if line[4:].startswith("b/") else None, [], []
        elif line.startswith("@@"):
            flush()
            old, new = [], []
        elif line.startswith("--- ") or line.startswith("diff ") or line.startswith("index ") or line.startswith("new file") or line.startswith("\\"):
            if line.startswith("diff "):
                flush()
                rel, old, new = None, [], []
        elif rel is not None:
            if line.startswith("-"):
                old.append(line[1:])
            elif line.startswith("+"):
                new.append(line[1:])
            else:
                old.append(line[1:] if line.startswith(" ") else line)
                new.append(line[1:] if line.startswith(" ") else line)
    flush()
    return edits


def MP(id_, prop, rule, patch):
    CASES.append({"id": id_, "prop": prop, "rule": rule, "edits": _edits_of(patch)})


def RP(id_, prop, patch):
    CASES.append({"id": id_, "prop": prop, "expect": "silent", "edits": _edits_of(patch)})


MP("c01-otel-attach-never-detached", "C01", "C01.R3", "C01-g1/patch.diff")
MP("c01-defaults-written-into-callers-args", "C01", "C01.R3", "C01-g2/patch.diff")
MP("c01-thread-hook-saved-after-install", "C01", "C01.HOOKS", "C01-g3/patch.diff")
MP("c05-one-shared-limits-object", "C05", "C05.WIRE", "C05-g2/patch.diff")
MP("c06-pushed-before-capture", "C06", "C06.COMPLETE", "C06-g3/patch.diff")
MP("c07-collected-frames-cached-on-trigger", "C07", "C07.TABLE", "C07-g2/patch.diff")
MP("c08-id-minimal-bytes", "C08", "C08.SCHEMA", "C08-g1/patch.diff")
MP("c08-converted-tracepoint-cached", "C08", "C08.SCHEMA", "C08-g2/patch.diff")
MP("c11-popleft", "C11", "C11.DEFER", "C11-g1/patch.diff")
MP("c11-merge-into-property-copy", "C11", "C11.KEEP", "C11-g2/patch.diff")
MP("c11-read-before-lock", "C11", "C11.INSTALL", "C11-g3/patch.diff")
MP("c16-callers-dict-kept-as-config", "C16", "C16.BUILD", "C16-g2/patch.diff")
MP("c16-context-closed-per-action", "C16", "C16.PIPE", "C16-g3/patch.diff")
MP("c18-sorted-result-dropped", "C18", "C18.CHAIN", "C18-g1/patch.diff")
MP("c18-mapping-adopted", "C18", "C18.CLEAN", "C18-g2/patch.diff")
MP("c19-mutable-default-config", "C19", "C19.CHAIN", "C19-g2/patch.diff")
MP("c20-sorted-result-dropped", "C20", "C20.LOAD", "C20-g1/patch.diff")
MP("c20-logger-called-before-attach", "C20", "C20.ISO", "C20-g3/patch.diff")
RP("c20-creating-helper-answers-none", "C20", "evolutions4/E15_refactor_1.diff")
RP("c18-providers-folded-with-reduce", "C18", "evolutions4/E15_refactor_2.diff")
RP("c20-decorations-merged-with-update", "C20", "evolutions4/E15_refactor_4.diff")
RP("c04-limits-as-one-expression", "C04", "evolutions4/E16_refactor_1.diff")
RP("c10-limits-as-one-expression", "C10", "evolutions4/E16_refactor_1.diff")
RP("c10-condition-in-a-helper", "C10", "evolutions4/E16_refactor_3.diff")
RP("c17-condition-in-a-helper", "C17", "evolutions4/E16_refactor_3.diff")
RP("c04-statistics-members-renamed", "C04", "evolutions4/E16_refactor_5.diff")
RP("c14-timer-loop-while-true", "C14", "evolutions4/E17_refactor_2.diff")
RP("c14-hook-pair-in-one-field", "C14", "evolutions4/E17_refactor_5.diff")
RP("c18-sequence-cleaned-by-comprehension", "C18", "evolutions4/E18_refactor_2.diff")
RP("c18-oldest-evicted-by-hand", "C18", "evolutions4/E18_refactor_3.diff")
RP("c18-merge-as-dict-display", "C18", "evolutions4/E18_refactor_4.diff")
RP("c18-create-with-named-steps", "C18", "evolutions4/E18_refactor_6.diff")

# round 9 / campaign 8
MP("c02-failed-watch-recorded-before-test", "C02", "C02.IDS", "C02-h1/patch.diff")
MP("c02-class-level-short-name-memo", "C02", "C02.PATH", "C02-h2/patch.diff")
MP("c02-no-frame-normalised-away", "C02", "C02.TYPE", "C02-h3/patch.diff")
MP("c03-failed-context-requeued", "C03", "C03.DEFER", "C03-h1/patch.diff")
MP("c03-threadlocal-default-shared", "C03", "C03.DEFER", "C03-h2/patch.diff")
MP("c04-thread-local-statistics", "C04", "C04.STATE", "C04-h2/patch.diff")
MP("c07-not-recorded-after-search", "C07", "C07.OPTIONAL", "C07-h3/patch.diff")
MP("c11-per-action-guard-folded", "C11", "C11.EACHACT", "C11-h1/patch.diff")
MP("c12-conversion-hoisted-out-of-guard", "C12", "C12.APPLY", "C12-h1/patch.diff")
MP("c12-first-match-only", "C12", "C12.ACT", "C12-h3/patch.diff")
MP("c13-one-guard-around-hand-over", "C13", "C13.ALONGSIDE", "C13-h1/patch.diff")
MP("c14-initial-poll-narrow-guard", "C14", "C14.START", "C14-h1/patch.diff")
MP("c14-class-level-pending-map", "C14", "C14.DRAIN", "C14-h2/patch.diff")
MP("c14-list-changed-while-walked", "C14", "C14.D", "C14-h3/patch.diff")
MP("c18-one-guard-around-provider-loop", "C18", "C18.CHAIN", "C18-h1/patch.diff")
MP("c19-class-level-short-name-memo", "C19", "C19.FRAME", "C19-h2/patch.diff")
MP("c20-merge-outside-guard", "C20", "C20.ISO", "C20-h1/patch.diff")
MP("c20-lru-cache-on-plugin-lookup", "C20", "C20.LOAD", "C20-h2/patch.diff")
MP("c20-order-none-not-defaulted", "C20", "C20.LOAD", "C20-h3/patch.diff")
RP("c18-provider-step-helper-in-loop", "C18", "evolutions5/E19_refactor_1.diff")
RP("c20-active-answer-held-in-local", "C20", "evolutions5/E19_refactor_2.diff")
RP("c16-success-branch-first", "C16", "evolutions5/E19_refactor_5.diff")
RP("c15-class-level-event-constants", "C15", "evolutions5/E20_refactor_2.diff")
RP("c02-per-call-short-name-memo", "C02", "evolutions5/E20_refactor_3.diff")
RP("c19-per-call-short-name-memo", "C19", "evolutions5/E20_refactor_3.diff")
RP("c19-cached-pure-split", "C19", "evolutions5/E20_refactor_4.diff")
RP("c13-copies-at-the-api-boundary", "C13", "evolutions5/E22_refactor_1.diff")
RP("c04-config-built-by-helper", "C04", "evolutions5/E22_refactor_2.diff")
RP("c13-config-built-by-helper", "C13", "evolutions5/E22_refactor_2.diff")
RP("c16-attach-through-forwarder", "C16", "evolutions5/E22_refactor_5.diff")
RP("c20-attach-through-forwarder", "C20", "evolutions5/E22_refactor_5.diff")
RP("c03-guard-form-continue", "C03", "evolutions5/E21_refactor_4.diff")
RP("c17-any-over-plugins", "C17", "evolutions5/E21_refactor_6.diff")

# round 10 / campaign 9
MP("c01-config-refilled-in-place", "C01", "C01.R2", "C01-i1/patch.diff")
MP("c01-limit-read-through-float", "C01", "C01.R1", "C01-i2/patch.diff")
MP("c02-search-root-one-level-down", "C02", "C02.VAR", "C02-i2/patch.diff")
MP("c03-read-before-the-lock", "C03", "C03.PUBLISH", "C03-i1/patch.diff")
MP("c06-threadlocal-default-shared", "C06", "C06.COMPLETE", "C06-i1/patch.diff")
MP("c06-cut-in-bytes", "C06", "C06.TOTAL", "C06-i2/patch.diff")
MP("c07-entry-dropped-at-the-budget", "C07", "C07.ENTRY", "C07-i2/patch.diff")
MP("c09-wait-divided-by-pending", "C09", "C09.C", "C09-i2/patch.diff")
MP("c09-second-task-handler", "C09", "C09.D", "C09-i3/patch.diff")
MP("c11-period-zero-replaced", "C11", "C11.LIMITS", "C11-i2/patch.diff")
MP("c14-index-zero-left-out", "C14", "C14.D", "C14-i2/patch.diff")
MP("c15-handler-wide-pending-flag", "C15", "C15.ONCE", "C15-i1/patch.diff")
MP("c16-last-fire-in-millis", "C16", "C16.ONCE", "C16-i2/patch.diff")
MP("c17-failure-raised-not-returned", "C17", "C17.VALUE", "C17-i3/patch.diff")
MP("c19-cut-without-trailing-slash", "C19", "C19.FRAME", "C19-i2/patch.diff")
MP("c20-entry-filled-after-publication", "C20", "C20.LOAD", "C20-i1/patch.diff")
MP("c20-order-truncated", "C20", "C20.LOAD", "C20-i2/patch.diff")
MP("c20-config-by-position", "C20", "C20.LOAD", "C20-i3/patch.diff")
RP("c09-done-callback-as-partial", "C09", "evolutions6/E23_refactor_1.diff")
RP("c09-lock-taken-by-hand", "C09", "evolutions6/E23_refactor_2.diff")
RP("c12-lock-taken-by-hand-and-helper", "C12", "evolutions6/E23_refactor_5.diff")
RP("c10-evaluation-result-namedtuple", "C10", "evolutions6/E25_refactor_2.diff")
RP("c17-evaluation-result-namedtuple", "C17", "evolutions6/E25_refactor_2.diff")
RP("c19-app-frame-match-namedtuple", "C19", "evolutions6/E25_refactor_3.diff")
RP("c05-truncated-string-namedtuple", "C05", "evolutions6/E25_refactor_6.diff")
RP("c16-processed-variable-namedtuple", "C16", "evolutions6/E25_refactor_6.diff")
RP("c04-unit-helpers", "C04", "evolutions6/E24_refactor_1.diff")
RP("c09-named-wait-constant", "C09", "evolutions6/E24_refactor_4.diff")
RP("c08-named-wire-widths", "C08", "evolutions6/E24_refactor_5.diff")

# round 11 / campaign 10
MP("c02-falsy-setting-taken-as-unset", "C02", "C02.PATH", "C02-j1/patch.diff")
MP("c02-merge-key-is-the-name", "C02", "C02.PLACE", "C02-j3/patch.diff")
MP("c03-empty-configuration-ignored", "C03", "C03.PUBLISH", "C03-j1/patch.diff")
MP("c06-dict-read-by-stale-key", "C06", "C06.TOTAL", "C06-j2/patch.diff")
MP("c08-method-line-minus-one-on-the-wire", "C08", "C08.SOURCE", "C08-j1/patch.diff")
MP("c08-watch-source-and-expression-swapped", "C08", "C08.SOURCE", "C08-j3/patch.diff")
MP("c09-flush-skipped-when-idle", "C09", "C09.D", "C09-j1/patch.diff")
MP("c09-finished-task-removes-latest-id", "C09", "C09.C", "C09-j3/patch.diff")
MP("c11-actions-skipped-after-a-refusal", "C11", "C11.EACHACT", "C11-j2/patch.diff")
MP("c14-timer-not-joined", "C14", "C14.E", "C14-j2/patch.diff")
MP("c14-finished-task-removes-latest-id", "C14", "C14.DRAIN", "C14-j3/patch.diff")
MP("c16-log-skipped-without-logger", "C16", "C16.SNAP", "C16-j1/patch.diff")
MP("c16-fast-path-without-formatter", "C16", "C16.PIPE", "C16-j2/patch.diff")
MP("c16-watch-result-arguments-swapped", "C16", "C16.SNAP", "C16-j3/patch.diff")
MP("c18-initial-map-pre-sliced", "C18", "C18.CAP", "C18-j2/patch.diff")
MP("c19-classification-stops-at-first-non-app-frame", "C19", "C19.FRAME", "C19-j2/patch.diff")
MP("c20-lookup-memo-never-reset", "C20", "C20.LOAD", "C20-j2/patch.diff")
RP("c05-bound-append-and-deque", "C05", "evolutions7/E27_refactor_4.diff")
RP("c15-constructor-parameter-renamed", "C15", "evolutions7/E28_refactor_2.diff")
RP("c02-frame-index-named-first", "C02", "evolutions7/E28_refactor_3.diff")
RP("c15-named-queue-provider", "C15", "evolutions7/E28_refactor_5.diff")
RP("c11-get-without-none-default", "C11", "evolutions7/E29_refactor_1.diff")
RP("c08-element-none-test-as-statement", "C08", "evolutions7/E29_refactor_6.diff")
RP("c06-membership-test-as-guard", "C06", "refactorings/R2_refactor_4.diff")

# round 12
MP("c02-consumer-answers-none-for-a-seen-value", "C02", "C02.VAR", "C02-k2/patch.diff")
MP("c03-return-inside-the-extracted-action-loop", "C03", "C03.ACT", "C03-k2/patch.diff")
MP("c04-timestamp-stored-in-a-field-nobody-reads", "C04", "C04.UNITS", "C04-k2/patch.diff")
MP("c05-tail-larger-than-the-limit", "C05", "C05.SEQ", "C05-k3/patch.diff")
MP("c06-callback-removed-while-walked", "C06", "C06.COMPLETE", "C06-k1/patch.diff")
MP("c06-log-variables-not-merged", "C06", "C06.COMPLETE", "C06-k3/patch.diff")
MP("c08-truth-test-on-the-user-name", "C08", "C08.AUTH", "C08-k1/patch.diff")
MP("c08-numbers-in-the-snapshot-configuration", "C08", "C08.TYPES", "C08-k3/patch.diff")
MP("c11-period-unit-honoured-by-one-builder", "C11", "C11.LIMITS", "C11-k3/patch.diff")
MP("c12-publication-task-dropped", "C12", "C12.NOTIFY", "C12-k3/patch.diff")
MP("c15-callback-removed-while-walked", "C15", "C15.ONCE", "C15-k1/patch.diff")
MP("c19-file-name-normalised-before-matching", "C19", "C19.FRAME", "C19-k3/patch.diff")
RP("c09-flush-wait-named-local-constant", "C09", "evolutions8/E30_refactor_4.diff")
RP("c14-timer-read-into-local-before-stop", "C14", "evolutions8/E30_refactor_5.diff")
RP("c07-table-bound-to-local-before-store", "C07", "evolutions8/E31_refactor_3.diff")
RP("c02-node-value-keyword-arguments", "C02", "evolutions8/E31_refactor_5.diff")
RP("c05-budget-answer-named-before-test", "C05", "evolutions8/E31_refactor_1.diff")
RP("c07-unwrap-of-locals-in-helper-with-not-in-guard", "C07", "evolutions8/E31_refactor_6.diff")
RP("c16-formatter-classes-at-module-level", "C16", "evolutions8/E32_refactor_1.diff")
RP("c16-prefix-constant-concatenated", "C16", "evolutions8/E32_refactor_2.diff")
