"""Self-test of the checkers (thorough tier): mutants must be reported, refactorings must stay silent.

Each case is applied to a scratch copy of the repository's `src` and `docs` trees under $TMPDIR (outside
/repo and /verif, removed immediately). The scratch copy must still byte-compile. The self-test decides
nothing about the repository; a failing case means the *checker* is broken (reported as ANALYSIS-ERROR).
"""
import json
import os
import py_compile
import shutil
import subprocess
import sys
import tempfile
from concurrent.futures import ThreadPoolExecutor

HERE = os.path.dirname(os.path.abspath(__file__))
CHECK = os.path.join(os.path.dirname(HERE), "check.py")
REPO = os.environ.get("DEEP_VERIF_REPO", "/repo")


def _scratch():
    d = tempfile.mkdtemp(prefix="verif-selftest-")
    shutil.copytree(os.path.join(REPO, "src"), os.path.join(d, "src"),
                    ignore=shutil.ignore_patterns("__pycache__", "*.pyc", "*.egg-info"))
    if os.path.isdir(os.path.join(REPO, "docs")):
        shutil.copytree(os.path.join(REPO, "docs"), os.path.join(d, "docs"))
    return d


def run_case(case):
    """-> dict(id, status in {ok, fail, skipped}, detail)."""
    d = _scratch()
    try:
        for (rel, old, new) in case["edits"]:
            path = os.path.join(d, rel)
            if not os.path.exists(path):
                return {"id": case["id"], "status": "skipped", "detail": "file %s missing" % rel}
            src = open(path).read()
            if src.count(old) != 1:
                return {"id": case["id"], "status": "skipped", "detail": "anchor text occurs %d times in %s" % (src.count(old), rel)}
            open(path, "w").write(src.replace(old, new))
            try:
                py_compile.compile(path, doraise=True, cfile=os.path.join(d, "x.pyc"))
            except py_compile.PyCompileError as e:
                return {"id": case["id"], "status": "fail", "detail": "mutant does not compile: %s" % e}
        out = subprocess.run([sys.executable, CHECK, case["prop"], "--repo", d, "--json", "--no-selftest"],
                             capture_output=True, text=True, timeout=300)
        line = [l for l in out.stdout.splitlines() if l.startswith("{")]
        if out.returncode == 2 or not line:
            if case.get("expect") == "error":
                return {"id": case["id"], "status": "ok", "detail": "analysis error as expected"}
            return {"id": case["id"], "status": "fail", "detail": "checker error: " + (out.stdout + out.stderr)[-600:]}
        rep = json.loads(line[-1])
        rules = sorted({v["rule"] for v in rep["violations"]})
        if case.get("expect") == "silent":
            if rep["violations"]:
                return {"id": case["id"], "status": "fail", "detail": "refactoring reported: %s" % json.dumps(rep["violations"][:2])[:600]}
            return {"id": case["id"], "status": "ok", "detail": "silent"}
        want = case.get("rule")
        hit = [v for v in rep["violations"] if want is None or v["rule"].startswith(want)]
        if not hit:
            return {"id": case["id"], "status": "fail", "detail": "mutant not reported (wanted %s, got %s)" % (want, rules)}
        return {"id": case["id"], "status": "ok", "detail": "reported by %s at %s" % (hit[0]["rule"], hit[0]["location"])}
    except subprocess.TimeoutExpired:
        return {"id": case["id"], "status": "fail", "detail": "timeout"}
    finally:
        shutil.rmtree(d, ignore_errors=True)


def tree_digest(repo=None) -> str:
    """Digest of the python sources the self-test cases are written against."""
    import hashlib
    h = hashlib.sha256()
    root = os.path.join(repo or REPO, "src")
    for dp, dn, fn in sorted(os.walk(root)):
        dn.sort()
        for f in sorted(fn):
            if f.endswith(".py"):
                p = os.path.join(dp, f)
                h.update(os.path.relpath(p, root).encode())
                h.update(open(p, "rb").read())
    return h.hexdigest()


def validated_digest() -> str:
    try:
        return open(os.path.join(HERE, "validated_digest.txt")).read().split()[0]
    except (OSError, IndexError):
        return ""


def base_clean(pid) -> bool:
    out = subprocess.run([sys.executable, CHECK, pid, "--repo", REPO, "--json", "--no-selftest"],
                         capture_output=True, text=True, timeout=300)
    return out.returncode == 0


def run_for(pid, jobs=16):
    from sa.selftest import cases
    todo = [c for c in cases.CASES if c["prop"] == pid]
    if not base_clean(pid):
        return {"skipped": "the tree under analysis already violates %s: the self-test needs a clean base" % pid,
                "cases": len(todo), "failed": []}
    with ThreadPoolExecutor(max_workers=jobs) as ex:
        results = list(ex.map(run_case, todo))
    failed = [r for r in results if r["status"] == "fail"]
    # The cases are textual edits written against one known tree. On that tree a failing case means the
    # checker is broken (fatal). On any other tree the edit may no longer mean what it meant, so failures are
    # reported as warnings and decide nothing.
    on_validated_tree = tree_digest() == validated_digest()
    warnings = []
    if not on_validated_tree:
        warnings, failed = failed, []
    return {"cases": len(todo), "on_validated_tree": on_validated_tree, "warnings": warnings, "ok": sum(r["status"] == "ok" for r in results),
            "skipped": [r for r in results if r["status"] == "skipped"],
            "failed": failed,
            "mutants_reported": sum(1 for c, r in zip(todo, results) if c.get("expect") != "silent" and r["status"] == "ok"),
            "refactorings_silent": sum(1 for c, r in zip(todo, results) if c.get("expect") == "silent" and r["status"] == "ok"),
            "sample": results[:12]}


if __name__ == "__main__":
    sys.path.insert(0, os.path.dirname(os.path.dirname(HERE)))
    from sa.selftest import cases
    pids = sys.argv[1:] or sorted({c["prop"] for c in cases.CASES})
    bad = 0
    if "--stamp" in pids:
        open(os.path.join(HERE, "validated_digest.txt"), "w").write(tree_digest() + "\n")
        print("stamped", tree_digest())
        sys.exit(0)
    for pid in pids:
        r = run_for(pid)
        print(pid, "cases=%s ok=%s skipped=%s failed=%s" % (r.get("cases"), r.get("ok"), len(r.get("skipped") or []) if isinstance(r.get("skipped"), list) else r.get("skipped"), len(r["failed"])))
        for f in r["failed"] + r.get("warnings", []):
            print("   FAIL", f["id"], f["detail"][:400])
            bad += 1
        if isinstance(r.get("skipped"), list):
            for f in r["skipped"]:
                print("   SKIP", f["id"], f["detail"][:200])
    sys.exit(1 if bad else 0)
