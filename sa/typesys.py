"""E2 - light type inference and callee resolution (the "resolved program") on top of the index.

Type terms are hashable tuples:
  ('inst', cls_qname, targs)   instance of a repo class (targs: tuple of frozensets for generics)
  ('clsobj', cls_qname)        a repo class object
  ('mod', dotted)              a module (repo or external)
  ('ext', dotted)              instance of an external type, e.g. builtins.dict
  ('extobj', dotted)           an external callable / class object, e.g. uuid.uuid4
  ('seq', elems)               list / deque / tuple / generator with element types `elems` (frozenset)
  ('tuple', (elems, ...))      fixed-size tuple
  ('map', vals)                mapping with value types
  ('func', key)                repo function object
  ('bound', key, recv)         bound repo method (recv is a type term)
  ('super', cls_qname)         super() proxy inside cls
  ('none',)
"""
import ast
from typing import Dict, FrozenSet, List, Optional, Tuple

from .index import Program, FuncInfo, ClassInfo, ModuleInfo

T = Tuple
EMPTY: FrozenSet = frozenset()


def S(ts):
    """Deterministic iteration order over a set of type terms."""
    return sorted(ts, key=repr)

NONE_T = ("none",)

SEQ_GENERICS = {"List", "Deque", "Sequence", "Iterable", "Iterator", "Generator", "Set", "FrozenSet",
                "MutableSequence", "Collection", "list", "set", "frozenset", "deque"}
MAP_GENERICS = {"Dict", "Mapping", "MutableMapping", "OrderedDict", "dict"}
BUILTIN_TYPES = {"str", "int", "bool", "float", "bytes", "dict", "list", "tuple", "set", "frozenset", "object",
                 "type", "BaseException", "Exception"}
BUILTIN_RET = {
    "builtins.len": ("ext", "builtins.int"), "builtins.str": ("ext", "builtins.str"),
    "builtins.repr": ("ext", "builtins.str"), "builtins.int": ("ext", "builtins.int"),
    "builtins.float": ("ext", "builtins.float"), "builtins.bool": ("ext", "builtins.bool"),
    "builtins.id": ("ext", "builtins.int"), "builtins.isinstance": ("ext", "builtins.bool"),
    "builtins.hasattr": ("ext", "builtins.bool"), "builtins.callable": ("ext", "builtins.bool"),
    "builtins.format": ("ext", "builtins.str"), "builtins.hash": ("ext", "builtins.int"),
}


class CallTargets:
    def __init__(self):
        self.repo: List[FuncInfo] = []
        self.ctor: List[ClassInfo] = []      # repo classes constructed (even when no __init__ in repo)
        self.ext: List[str] = []
        self.by_name = False                 # resolved only by method name (receiver type unknown)
        self.unknown = False

    def add_repo(self, f):
        if f is not None and f not in self.repo:
            self.repo.append(f)

    @property
    def resolved(self):
        return bool(self.repo or self.ctor or self.ext) and not self.unknown

    def __repr__(self):
        return "<Targets repo=%s ctor=%s ext=%s by_name=%s unknown=%s>" % (
            [f.qname for f in self.repo], [c.qname for c in self.ctor], self.ext, self.by_name, self.unknown)


class Types:
    def __init__(self, prog: Program):
        self.p = prog
        self._memo: Dict[int, FrozenSet] = {}
        self._busy = set()
        self._cuts = 0
        self._ret_memo: Dict[str, FrozenSet] = {}
        self._attr_memo: Dict[Tuple[str, str], FrozenSet] = {}
        self._local_memo: Dict[Tuple[str, str], FrozenSet] = {}
        self._call_memo: Dict[int, CallTargets] = {}
        self.callers: Dict[str, List[Tuple[FuncInfo, ast.Call]]] = {}
        self.use_callsite_params = False
        self._methods_by_name: Dict[str, List[FuncInfo]] = {}
        for f in prog.functions.values():
            if f.cls is not None:
                self._methods_by_name.setdefault(f.name, []).append(f)
        self._attr_stores = None
        self._ann_ids: Dict[str, set] = {}
        self.build()

    # ------------------------------------------------------------------ driver
    def build(self, rounds=3):
        for r in range(rounds):
            self._memo.clear(); self._ret_memo.clear(); self._attr_memo.clear()
            self._local_memo.clear(); self._call_memo.clear()
            callers: Dict[str, List] = {}
            for fi in list(self.p.functions.values()):
                for call in self.calls_in(fi):
                    t = self.resolve_call(call, fi)
                    for g in t.repo:
                        callers.setdefault(self.fkey(g), []).append((fi, call))
            self.callers = callers
            self.use_callsite_params = True
        # final pass with call-site param types available
        self._memo.clear(); self._ret_memo.clear(); self._attr_memo.clear()
        self._local_memo.clear(); self._call_memo.clear()

    @staticmethod
    def fkey(f: FuncInfo) -> str:
        return f.qname + ("#setter" if f.is_setter else "")

    def calls_in(self, fi: FuncInfo):
        """Call nodes whose innermost owner is fi (nested defs excluded)."""
        skip = self.annotation_ids(fi)
        for n in ast.walk(fi.node):
            if isinstance(n, ast.Call) and self.p.owner_of(n) is fi and id(n) not in skip:
                yield n

    def annotation_ids(self, fi: FuncInfo):
        key = self.fkey(fi)
        if key not in self._ann_ids:
            ids = set()
            roots = []
            a = fi.node.args
            for x in a.posonlyargs + a.args + a.kwonlyargs + [a.vararg, a.kwarg]:
                if x is not None and x.annotation is not None:
                    roots.append(x.annotation)
            if fi.node.returns is not None:
                roots.append(fi.node.returns)
            for n in ast.walk(fi.node):
                if isinstance(n, ast.AnnAssign):
                    roots.append(n.annotation)
            for r in roots:
                for n in ast.walk(r):
                    ids.add(id(n))
            for d in fi.node.decorator_list:
                for n in ast.walk(d):
                    ids.add(id(n))
            self._ann_ids[key] = ids
        return self._ann_ids[key]

    def nodes_in(self, fi: FuncInfo, kinds=None):
        """AST nodes executed as part of fi's body (nested defs, annotations and decorators excluded)."""
        skip = self.annotation_ids(fi)
        for n in ast.walk(fi.node):
            if n is fi.node or id(n) in skip:
                continue
            if self.p.owner_of(n) is fi and (kinds is None or isinstance(n, kinds)):
                yield n

    # ------------------------------------------------------------------ annotations
    def ann(self, e: Optional[ast.expr], m: ModuleInfo, cls=None, func=None, recv=None) -> FrozenSet:
        if e is None:
            return EMPTY
        try:
            return self._ann(e, m, cls, func, recv)
        except RecursionError:
            return EMPTY

    def _ann(self, e, m, cls, func, recv) -> FrozenSet:
        if isinstance(e, ast.Constant):
            if e.value is None:
                return frozenset([NONE_T])
            if isinstance(e.value, str):
                try:
                    return self._ann(ast.parse(e.value, mode="eval").body, m, cls, func, recv)
                except SyntaxError:
                    return EMPTY
            return EMPTY
        if isinstance(e, ast.BinOp) and isinstance(e.op, ast.BitOr):
            return self._ann(e.left, m, cls, func, recv) | self._ann(e.right, m, cls, func, recv)
        if isinstance(e, ast.Subscript):
            base = e.value
            bname = base.attr if isinstance(base, ast.Attribute) else (base.id if isinstance(base, ast.Name) else "")
            args = list(e.slice.elts) if isinstance(e.slice, ast.Tuple) else [e.slice]
            if bname in ("Optional", "Union"):
                out = set()
                for a in args:
                    out |= self._ann(a, m, cls, func, recv)
                if bname == "Optional":
                    out.add(NONE_T)
                return frozenset(out)
            if bname in SEQ_GENERICS:
                return frozenset([("seq", self._ann(args[0], m, cls, func, recv))])
            if bname in MAP_GENERICS:
                val = self._ann(args[1], m, cls, func, recv) if len(args) > 1 else EMPTY
                return frozenset([("map", val)])
            if bname in ("Tuple", "tuple"):
                if len(args) == 2 and isinstance(args[1], ast.Constant) and args[1].value is Ellipsis:
                    return frozenset([("seq", self._ann(args[0], m, cls, func, recv))])
                return frozenset([("tuple", tuple(self._ann(a, m, cls, func, recv) for a in args))])
            if bname == "Type":
                out = set()
                for t in S(self._ann(args[0], m, cls, func, recv)):
                    if t[0] == "inst":
                        out.add(("clsobj", t[1]))
                return frozenset(out)
            if bname in ("Callable", "Generic"):
                return EMPTY
            r = self.p.resolve_expr_static(m, base, cls, func)
            if r and r[0] == "cls":
                targs = tuple(self._ann(a, m, cls, func, recv) for a in args)
                return frozenset([("inst", r[1].qname, targs)])
            return EMPTY
        if isinstance(e, (ast.Name, ast.Attribute)):
            if isinstance(e, ast.Name):
                if e.id in ("any", "Any", "object"):
                    return EMPTY
                if e.id == "None":
                    return frozenset([NONE_T])
            r = self.p.resolve_expr_static(m, e, cls, func)
            if r is None:
                return EMPTY
            if r[0] == "cls":
                return frozenset([("inst", r[1].qname, ())])
            if r[0] == "const":
                # TypeVar?
                v = r[1].consts.get(r[2])
                if isinstance(v, ast.Call) and ast.unparse(v.func).endswith("TypeVar"):
                    if recv is not None and recv[0] == "inst" and len(recv) > 2 and recv[2]:
                        return recv[2][0]
                    return EMPTY
                return EMPTY
            if r[0] == "ext":
                d = r[1]
                if d.startswith("builtins."):
                    short = d.split(".", 1)[1]
                    if short in ("list", "set", "frozenset", "tuple"):
                        return frozenset([("seq", EMPTY)])
                    if short == "dict":
                        return frozenset([("map", EMPTY)])
                return frozenset([("ext", d)])
        return EMPTY

    # ------------------------------------------------------------------ expressions
    def type_of(self, e: ast.expr, fi: Optional[FuncInfo], m: Optional[ModuleInfo] = None) -> FrozenSet:
        k = id(e)
        if k in self._memo:
            return self._memo[k][1]
        if k in self._busy:
            self._cuts += 1
            return EMPTY
        self._busy.add(k)
        c0 = self._cuts
        try:
            try:
                r = self._type_of(e, fi, m or (fi.module if fi else None))
            except RecursionError:
                self._cuts += 1
                r = EMPTY
        finally:
            self._busy.discard(k)
        # a result computed while a cycle was cut below us is only provisional: keep it out of the memo unless we
        # are the outermost query (then it is the best deterministic answer we have)
        if self._cuts == c0 or not self._busy:
            self._memo[k] = (e, r)     # holding `e` keeps id(e) from being reused by a later (synthetic) node
        return r

    def _const_type(self, v) -> FrozenSet:
        if v is None:
            return frozenset([NONE_T])
        return frozenset([("ext", "builtins." + type(v).__name__)])

    def _elem(self, ts: FrozenSet) -> FrozenSet:
        out = set()
        for t in S(ts):
            if t[0] == "seq":
                out |= t[1]
            elif t[0] == "tuple":
                for x in t[1]:
                    out |= x
            elif t[0] == "map":
                out.add(("ext", "builtins.str"))
        return frozenset(out)

    def _type_of(self, e, fi, m) -> FrozenSet:
        if isinstance(e, ast.Constant):
            return self._const_type(e.value)
        if isinstance(e, ast.JoinedStr):
            return frozenset([("ext", "builtins.str")])
        if isinstance(e, (ast.List, ast.Set)):
            out = set()
            for x in e.elts:
                out |= self.type_of(x, fi, m)
            return frozenset([("seq", frozenset(out))])
        if isinstance(e, ast.Tuple):
            return frozenset([("tuple", tuple(self.type_of(x, fi, m) for x in e.elts))])
        if isinstance(e, ast.Dict):
            out = set()
            for x in e.values:
                if x is not None:
                    out |= self.type_of(x, fi, m)
            return frozenset([("map", frozenset(out))])
        if isinstance(e, (ast.ListComp, ast.SetComp, ast.GeneratorExp)):
            return frozenset([("seq", self.type_of(e.elt, fi, m))])
        if isinstance(e, ast.DictComp):
            return frozenset([("map", self.type_of(e.value, fi, m))])
        if isinstance(e, ast.IfExp):
            return self.type_of(e.body, fi, m) | self.type_of(e.orelse, fi, m)
        if isinstance(e, ast.BoolOp):
            out = set()
            for v in e.values:
                out |= self.type_of(v, fi, m)
            return frozenset(out)
        if isinstance(e, ast.Compare) or (isinstance(e, ast.UnaryOp) and isinstance(e.op, ast.Not)):
            return frozenset([("ext", "builtins.bool")])
        if isinstance(e, ast.BinOp):
            lt = self.type_of(e.left, fi, m)
            if isinstance(e.op, ast.Mod) and any(t == ("ext", "builtins.str") for t in lt):
                return frozenset([("ext", "builtins.str")])
            if isinstance(e.op, ast.Add):
                return lt | self.type_of(e.right, fi, m)
            return lt
        if isinstance(e, ast.Lambda):
            return EMPTY
        if isinstance(e, ast.Await):
            return self.type_of(e.value, fi, m)
        if isinstance(e, ast.NamedExpr):
            return self.type_of(e.value, fi, m)
        if isinstance(e, ast.Starred):
            return self.type_of(e.value, fi, m)
        if isinstance(e, ast.Name):
            lam = self._lambda_param(e, fi)
            if lam is not None:
                return lam
            return self._name_type(e.id, fi, m)
        if isinstance(e, ast.Attribute):
            out = set()
            base = self.type_of(e.value, fi, m)
            for t in S(base):
                out |= self.attr_type(t, e.attr, fi)
            return frozenset(out)
        if isinstance(e, ast.Subscript):
            base = self.type_of(e.value, fi, m)
            out = set()
            for t in S(base):
                if t[0] == "seq":
                    if isinstance(e.slice, ast.Slice):
                        out.add(t)
                    else:
                        out |= t[1]
                elif t[0] == "map":
                    out |= t[1]
                elif t[0] == "tuple":
                    if isinstance(e.slice, ast.Constant) and isinstance(e.slice.value, int) \
                            and -len(t[1]) <= e.slice.value < len(t[1]):
                        out |= t[1][e.slice.value]
                    else:
                        for x in t[1]:
                            out |= x
                elif t == ("ext", "builtins.str"):
                    out.add(t)
            return frozenset(out)
        if isinstance(e, ast.Call):
            return self._call_type(e, fi, m)
        return EMPTY

    # ------------------------------------------------------------------ names
    def _lambda_param(self, e: ast.Name, fi) -> Optional[FrozenSet]:
        stop = fi.node if fi is not None else None
        for a in self.p.ancestors(e, stop=stop):
            if isinstance(a, ast.Lambda):
                names = [x.arg for x in a.args.posonlyargs + a.args.args + a.args.kwonlyargs]
                if e.id in names:
                    # `key=lambda x: ...` of sort/sorted/min/max: x is an element of the sorted collection
                    par = self.p.parent_of(a)
                    if isinstance(par, ast.keyword) and par.arg == "key":
                        call = self.p.parent_of(par)
                        if isinstance(call, ast.Call):
                            if isinstance(call.func, ast.Attribute) and call.func.attr == "sort":
                                return self._elem(self.type_of(call.func.value, fi))
                            if call.args:
                                return self._elem(self.type_of(call.args[0], fi))
                    return EMPTY
        return None

    def _name_type(self, name, fi: Optional[FuncInfo], m: ModuleInfo) -> FrozenSet:
        f = fi
        while f is not None:
            r = self.local_type(f, name)
            if r is not None:
                return r
            f = f.parent
        cls = fi.cls if fi else None
        r = self.p.resolve_expr_static(m, ast.Name(id=name), cls, fi)
        if r is not None and r[0] == "ext" and name in m.module_imports:
            return frozenset([("mod", r[1])])
        return self._entity_type(r)

    def _entity_type(self, r) -> FrozenSet:
        if r is None:
            return EMPTY
        if r[0] == "cls":
            return frozenset([("clsobj", r[1].qname)])
        if r[0] == "func":
            return frozenset([("func", self.fkey(r[1]))])
        if r[0] == "mod":
            return frozenset([("mod", r[1].name)])
        if r[0] == "const":
            mod, nm = r[1], r[2]
            return self.type_of(mod.consts[nm], None, mod)
        if r[0] == "clsattr":
            return self.type_of(r[1].class_attrs[r[2]], None, r[1].module)
        if r[0] == "ext":
            return frozenset([("extobj", r[1])])
        return EMPTY

    def local_bindings(self, fi: FuncInfo, name: str):
        """All binding sites of `name` in fi: list of (kind, node) ."""
        out = []
        a = fi.node.args
        allargs = a.posonlyargs + a.args + a.kwonlyargs
        for idx, p in enumerate(allargs):
            if p.arg == name:
                out.append(("param", p))
        if a.vararg and a.vararg.arg == name:
            out.append(("vararg", a.vararg))
        if a.kwarg and a.kwarg.arg == name:
            out.append(("kwarg", a.kwarg))
        for n in self.nodes_in(fi):
            if isinstance(n, ast.Assign):
                for t in n.targets:
                    self._bind_target(t, n.value, name, out, "assign")
            elif isinstance(n, ast.AnnAssign):
                if isinstance(n.target, ast.Name) and n.target.id == name:
                    if n.value is not None:
                        # `x: T = v` binds like `x = v`
                        self._bind_target(n.target, n.value, name, out, "assign")
                    else:
                        out.append(("ann", n))
            elif isinstance(n, ast.AugAssign):
                if isinstance(n.target, ast.Name) and n.target.id == name:
                    out.append(("aug", n))
            elif isinstance(n, (ast.For, ast.AsyncFor)):
                self._bind_target(n.target, n.iter, name, out, "for")
            elif isinstance(n, ast.comprehension):
                self._bind_target(n.target, n.iter, name, out, "for")
            elif isinstance(n, (ast.With, ast.AsyncWith)):
                for it in n.items:
                    if it.optional_vars is not None:
                        self._bind_target(it.optional_vars, it.context_expr, name, out, "with")
            elif isinstance(n, ast.ExceptHandler):
                if n.name == name:
                    out.append(("except", n))
            elif isinstance(n, ast.NamedExpr):
                if isinstance(n.target, ast.Name) and n.target.id == name:
                    out.append(("assign", (n.target, n.value, None)))
            elif isinstance(n, (ast.Import, ast.ImportFrom)):
                for al in n.names:
                    if (al.asname or al.name.split(".")[0]) == name:
                        out.append(("import", n))
        return out

    def _bind_target(self, target, value, name, out, kind):
        if isinstance(target, ast.Name):
            if target.id == name:
                out.append((kind, (target, value, None)))
        elif isinstance(target, (ast.Tuple, ast.List)):
            for i, el in enumerate(target.elts):
                if isinstance(el, ast.Name) and el.id == name:
                    out.append((kind, (el, value, i)))
                elif isinstance(el, (ast.Tuple, ast.List)):
                    self._bind_target(el, None, name, out, kind)

    def local_type(self, fi: FuncInfo, name: str) -> Optional[FrozenSet]:
        key = (self.fkey(fi), name)
        if key in self._local_memo:
            return self._local_memo[key]
        if ("busy",) + key in self._busy:
            self._cuts += 1
            return EMPTY
        binds = self.local_bindings(fi, name)
        # annotated assignments bind like assignments; their annotation still types the name
        binds = binds + [("anntype", n) for n in self.nodes_in(fi, ast.AnnAssign)
                         if isinstance(n.target, ast.Name) and n.target.id == name and n.value is not None]
        if not binds:
            if name in fi.locals_funcs:
                r = frozenset([("func", self.fkey(fi.locals_funcs[name]))])
                self._local_memo[key] = r
                return r
            if name in fi.locals_classes:
                r = frozenset([("clsobj", fi.locals_classes[name].qname)])
                self._local_memo[key] = r
                return r
            return None
        self._busy.add(("busy",) + key)
        c0 = self._cuts
        try:
            out = set()
            m = fi.module
            for kind, b in binds:
                if kind == "param":
                    out |= self.param_type(fi, b)
                elif kind == "vararg":
                    out.add(("seq", EMPTY))
                elif kind == "kwarg":
                    out.add(("map", EMPTY))
                elif kind in ("ann", "anntype"):
                    out |= self.ann(b.annotation, m, fi.cls, fi)
                elif kind == "aug":
                    out |= self.type_of(b.value, fi, m)
                elif kind == "except":
                    if b.type is not None:
                        for t in S(self.type_of(b.type, fi, m)):
                            if t[0] == "clsobj":
                                out.add(("inst", t[1], ()))
                            elif t[0] == "extobj":
                                out.add(("ext", t[1]))
                elif kind == "import":
                    r = self.p.resolve_name_in_module(m, name)
                    out |= self._entity_type(r)
                else:
                    tgt, value, idx = b
                    if value is None:
                        continue
                    vt = self.type_of(value, fi, m)
                    if kind == "for":
                        vt = self._elem(vt)
                    elif kind == "with":
                        vt = self._enter_type(vt, fi)
                    if idx is not None:
                        sel = set()
                        for t in S(vt):
                            if t[0] == "tuple" and idx < len(t[1]):
                                sel |= t[1][idx]
                            elif t[0] == "seq":
                                sel |= t[1]
                        vt = frozenset(sel)
                    out |= vt
            r = frozenset(out)
        finally:
            self._busy.discard(("busy",) + key)
        if self._cuts == c0 or not self._busy:
            self._local_memo[key] = r
        return r

    def _enter_type(self, vt, fi) -> FrozenSet:
        out = set()
        for t in S(vt):
            if t[0] == "inst":
                c = self.p.classes.get(t[1])
                f = c.lookup("__enter__") if c else None
                if f is not None:
                    out |= self.return_type(f, recv=t)
                else:
                    out.add(t)
            else:
                out.add(t)
        return frozenset(out)

    def param_type(self, fi: FuncInfo, p: ast.arg) -> FrozenSet:
        a = fi.node.args
        pos = a.posonlyargs + a.args
        if fi.cls is not None and not fi.is_static and pos and pos[0] is p:
            if fi.is_classmethod:
                return frozenset([("clsobj", fi.cls.qname)])
            return frozenset([("inst", fi.cls.qname, ())])
        if p.annotation is not None:
            t = self.ann(p.annotation, fi.module, fi.cls, fi)
            if t:
                return t
        if not self.use_callsite_params:
            return EMPTY
        out = set()
        for caller, call in self.callers.get(self.fkey(fi), []):
            arg = self.bind_args(fi, call).get(p.arg)
            if arg is not None:
                out |= self.type_of(arg, caller)
        return frozenset(out)

    def bind_args(self, callee: FuncInfo, call: ast.Call, bound: Optional[bool] = None) -> Dict[str, ast.expr]:
        """Bind the call's arguments to callee parameter names through the callee's real signature."""
        a = callee.node.args
        pos = [x.arg for x in a.posonlyargs + a.args]
        if bound is None:
            bound = callee.cls is not None and not callee.is_static
            # Class.method(obj, ...) style explicit unbound calls are not used in this code base.
        if bound and pos:
            pos = pos[1:]
        out: Dict[str, ast.expr] = {}
        i = 0
        for arg in call.args:
            if isinstance(arg, ast.Starred):
                break
            if i < len(pos):
                out[pos[i]] = arg
            i += 1
        names = set(pos) | {x.arg for x in a.kwonlyargs}
        for kw in call.keywords:
            if kw.arg is not None and kw.arg in names:
                out[kw.arg] = kw.value
        return out

    # ------------------------------------------------------------------ attributes
    def _attr_store_index(self):
        if self._attr_stores is None:
            idx: Dict[Tuple[str, str], List] = {}
            for fi in self.p.functions.values():
                if fi.cls is None and (fi.parent is None or fi.parent.cls is None):
                    pass
                for n in ast.walk(fi.node):
                    if self.p.owner_of(n) is not fi:
                        continue
                    tgt_vals = []
                    if isinstance(n, ast.Assign):
                        for t in n.targets:
                            tgt_vals.append((t, n.value, None))
                    elif isinstance(n, ast.AnnAssign):
                        tgt_vals.append((n.target, n.value, n.annotation))
                    elif isinstance(n, ast.AugAssign):
                        tgt_vals.append((n.target, n.value, None))
                    for t, v, ann in tgt_vals:
                        if isinstance(t, ast.Attribute) and isinstance(t.value, ast.Name) and t.value.id == "self" \
                                and fi.cls is not None:
                            idx.setdefault((fi.cls.qname, fi.cls.mangle(t.attr)), []).append((fi, v, ann))
            self._attr_stores = idx
        return self._attr_stores

    def field_stores(self, c: ClassInfo, attr: str):
        """(func, value expr, annotation) of `self.<attr> = ...` stores over the MRO of c."""
        idx = self._attr_store_index()
        out = []
        for k in c.mro:
            out += idx.get((k.qname, k.mangle(attr) if attr.startswith("__") and not attr.endswith("__") else attr), [])
        return out

    def attr_type(self, t, attr: str, fi: Optional[FuncInfo]) -> FrozenSet:
        if t[0] == "inst":
            c = self.p.classes.get(t[1])
            if c is None:
                return EMPTY
            # name mangling applies to the class the *code* is in
            real = attr
            if attr.startswith("__") and not attr.endswith("__") and fi is not None:
                k = fi.cls or (fi.parent.cls if fi.parent else None)
                if k is not None:
                    real = k.mangle(attr)
            key = (t, real)
            if key in self._attr_memo:
                return self._attr_memo[key]
            bk = ("attr",) + key
            if bk in self._busy:
                self._cuts += 1
                return EMPTY
            self._busy.add(bk)
            c0 = self._cuts
            out = set()
            f = c.lookup(attr)
            if f is not None:
                if f.is_property:
                    out |= self.return_type(f, recv=t)
                else:
                    out.add(("bound", self.fkey(f), t))
            else:
                idx = self._attr_store_index()
                found = False
                for k in c.mro:
                    for (sf, v, ann) in idx.get((k.qname, real), []):
                        found = True
                        if ann is not None:
                            at = self.ann(ann, sf.module, sf.cls, sf, recv=t)
                            if at:
                                out |= at
                                continue
                        if v is not None:
                            out |= self.type_of(v, sf)
                    if real in k.class_ann and not found:
                        out |= self.ann(k.class_ann[real], k.module, k, None, recv=t)
                    if real in k.class_attrs:
                        out |= self.type_of(k.class_attrs[real], None, k.module)
                # stores in subclasses (attribute defined lower in the hierarchy)
                if not out:
                    for sub in self.p.subclasses.get(c.qname, []):
                        for (sf, v, ann) in idx.get((sub.qname, real), []):
                            if v is not None:
                                out |= self.type_of(v, sf)
            r = frozenset(out)
            self._busy.discard(bk)
            if self._cuts == c0 or not self._busy:
                self._attr_memo[key] = r
            return r
        if t[0] == "super":
            c = self.p.classes.get(t[1])
            if c is None:
                return EMPTY
            for k in c.mro[1:]:
                f = k.own_method(attr)
                if f is not None:
                    if f.is_property:
                        return self.return_type(f)
                    return frozenset([("bound", self.fkey(f), ("inst", c.qname, ()))])
            return frozenset([("extobj", "super." + attr)])
        if t[0] == "clsobj":
            c = self.p.classes.get(t[1])
            if c is None:
                return EMPTY
            if attr in c.inner:
                return frozenset([("clsobj", c.inner[attr].qname)])
            f = c.lookup(attr)
            if f is not None:
                if f.is_static:
                    return frozenset([("func", self.fkey(f))])
                if f.is_classmethod:
                    return frozenset([("bound", self.fkey(f), t)])
                return frozenset([("func", self.fkey(f))])
            for k in c.mro:
                if attr in k.class_attrs:
                    # Enum members: instance of the enum class
                    if "Enum" in " ".join(k.ext_base_names()):
                        return frozenset([("inst", k.qname, ())])
                    return self.type_of(k.class_attrs[attr], None, k.module)
            if attr == "__name__":
                return frozenset([("ext", "builtins.str")])
            return EMPTY
        if t[0] == "mod":
            r = self.p.resolve_dotted(t[1] + "." + attr)
            if r[0] == "ext":
                if t[1] in self.p.modules:
                    return EMPTY
                return frozenset([("extobj", r[1])])
            return self._entity_type(r)
        if t[0] == "extobj":
            return frozenset([("extobj", t[1] + "." + attr)])
        if t[0] == "ext":
            return frozenset([("extobj", "method:%s.%s" % (t[1], attr))])
        if t[0] in ("seq", "map", "tuple"):
            return frozenset([("cmeth", t, attr)])
        return EMPTY

    # ------------------------------------------------------------------ functions
    def return_type(self, f: FuncInfo, recv=None) -> FrozenSet:
        key = self.fkey(f) + "|" + repr(recv if recv and len(recv) > 2 and recv[2] else None)
        if key in self._ret_memo:
            return self._ret_memo[key]
        bk = ("ret", key)
        if bk in self._busy:
            self._cuts += 1
            return EMPTY
        self._busy.add(bk)
        c0 = self._cuts
        out = set()
        has_yield = any(isinstance(n, (ast.Yield, ast.YieldFrom)) for n in self.nodes_in(f))
        if has_yield:
            el = set()
            for n in self.nodes_in(f, ast.Yield):
                if n.value is not None:
                    el |= self.type_of(n.value, f)
            ra = self.ann(f.node.returns, f.module, f.cls, f, recv)
            if ra and not el:
                out |= ra
            else:
                out.add(("seq", frozenset(el)))
        else:
            ra = self.ann(f.node.returns, f.module, f.cls, f, recv)
            inferred = set()
            for n in self.nodes_in(f, ast.Return):
                if n.value is None:
                    inferred.add(NONE_T)
                elif isinstance(n.value, ast.Name) and n.value.id == "self" and recv is not None:
                    inferred.add(recv)
                else:
                    inferred |= self.type_of(n.value, f)
            # prefer the more specific information: annotation if it names classes, else inferred
            if ra:
                out |= ra
                # keep precise inferred instance types too (annotation may name a base class)
                out |= {t for t in inferred if t[0] == "inst"}
            else:
                out |= inferred
        r = frozenset(out)
        self._busy.discard(bk)
        if self._cuts == c0 or not self._busy:
            self._ret_memo[key] = r
        return r

    def _call_type(self, e: ast.Call, fi, m) -> FrozenSet:
        out = set()
        ft = self.type_of(e.func, fi, m)
        if isinstance(e.func, ast.Name) and e.func.id == "super" and fi is not None:
            k = fi.cls
            if k is not None:
                return frozenset([("super", k.qname)])
        for t in S(ft):
            if t[0] == "clsobj":
                out.add(("inst", t[1], ()))
            elif t[0] == "func":
                f = self.p.functions.get(t[1])
                if f is not None:
                    out |= self.return_type(f)
            elif t[0] == "bound":
                f = self.p.functions.get(t[1])
                if f is not None:
                    out |= self.return_type(f, recv=t[2])
                    # overrides in subclasses may return more specific types
                    if t[2][0] == "inst":
                        for g in self.overrides(t[2][1], f.name):
                            out |= self.return_type(g, recv=t[2])
            elif t[0] == "cmeth":
                out |= self._container_method(t[1], t[2], e, fi, m)
            elif t[0] == "extobj":
                d = t[1]
                if d in BUILTIN_RET:
                    out.add(BUILTIN_RET[d])
                elif d in ("builtins.list", "builtins.tuple", "builtins.set", "builtins.frozenset",
                           "builtins.sorted", "builtins.reversed", "builtins.iter", "collections.deque"):
                    el = self._elem(self.type_of(e.args[0], fi, m)) if e.args else EMPTY
                    out.add(("seq", el))
                elif d in ("builtins.dict", "collections.OrderedDict"):
                    src = self.type_of(e.args[0], fi, m) if e.args else EMPTY
                    vals = set()
                    for s in S(src):
                        if s[0] == "map":
                            vals |= s[1]
                    out.add(("map", frozenset(vals)))
                elif d == "builtins.next":
                    if e.args:
                        out |= self._elem(self.type_of(e.args[0], fi, m))
                    if len(e.args) > 1:
                        out |= self.type_of(e.args[1], fi, m)
                elif d == "builtins.enumerate":
                    el = self._elem(self.type_of(e.args[0], fi, m)) if e.args else EMPTY
                    out.add(("seq", frozenset([("tuple", (frozenset([("ext", "builtins.int")]), el))])))
                elif d == "builtins.getattr":
                    if len(e.args) >= 2 and isinstance(e.args[1], ast.Constant) and isinstance(e.args[1].value, str):
                        for bt in S(self.type_of(e.args[0], fi, m)):
                            out |= self.attr_type(bt, e.args[1].value, fi)
                elif d == "builtins.type":
                    pass
                elif d.startswith("method:builtins.str."):
                    meth = d.rsplit(".", 1)[1]
                    if meth in ("split", "rsplit", "splitlines"):
                        out.add(("seq", frozenset([("ext", "builtins.str")])))
                    elif meth in ("startswith", "endswith", "isdigit"):
                        out.add(("ext", "builtins.bool"))
                    else:
                        out.add(("ext", "builtins.str"))
                else:
                    out.add(("ext", "ret:" + d))
        return frozenset(out)

    def _container_method(self, ct, meth, e, fi, m) -> FrozenSet:
        if ct[0] == "seq":
            if meth in ("pop", "popleft", "__getitem__", "__next__"):
                return ct[1]
            if meth in ("copy", "__iter__"):
                return frozenset([ct])
            return EMPTY
        if ct[0] == "map":
            if meth in ("get", "pop", "setdefault"):
                out = set(ct[1])
                if len(e.args) > 1:
                    out |= self.type_of(e.args[1], fi, m)
                elif meth == "get":
                    out.add(NONE_T)
                return frozenset(out)
            if meth == "values":
                return frozenset([("seq", ct[1])])
            if meth == "keys":
                return frozenset([("seq", frozenset([("ext", "builtins.str")]))])
            if meth == "items":
                return frozenset([("seq", frozenset([("tuple", (frozenset([("ext", "builtins.str")]), ct[1]))]))])
            if meth == "copy":
                return frozenset([ct])
        return EMPTY

    def overrides(self, cls_qname: str, name: str, setter=False) -> List[FuncInfo]:
        out = []
        for sub in self.p.subclasses.get(cls_qname, []):
            f = sub.own_method(name, setter)
            if f is not None and f not in out:
                out.append(f)
        return out

    # ------------------------------------------------------------------ call resolution
    def resolve_call(self, call: ast.Call, fi: Optional[FuncInfo]) -> CallTargets:
        k = id(call)
        if k in self._call_memo:
            return self._call_memo[k][1]
        res = CallTargets()
        self._call_memo[k] = (call, res)
        m = fi.module if fi else None
        ft = self.type_of(call.func, fi, m)
        if isinstance(call.func, ast.Name) and call.func.id == "super":
            res.ext.append("builtins.super")
            return res
        for t in S(ft):
            self._targets_of_type(t, res, call, fi)
        if not (res.repo or res.ctor or res.ext):
            if isinstance(call.func, ast.Attribute):
                cands = [f for f in self._methods_by_name.get(call.func.attr, []) if not f.is_property
                         and self._arity_ok(f, call)]
                if cands:
                    res.by_name = True
                    for f in cands:
                        res.add_repo(f)
                else:
                    res.ext.append("method:?." + call.func.attr)
            else:
                res.unknown = True
        return res

    def _arity_ok(self, f: FuncInfo, call: ast.Call) -> bool:
        a = f.node.args
        pos = a.posonlyargs + a.args
        npos = len(pos) - (1 if (f.cls is not None and not f.is_static) else 0)
        if any(isinstance(x, ast.Starred) for x in call.args) or any(k.arg is None for k in call.keywords):
            return True
        given = len(call.args) + len(call.keywords)
        required = npos - len(a.defaults)
        if a.vararg is None and len(call.args) > npos:
            return False
        return given >= required or a.kwarg is not None

    def _targets_of_type(self, t, res: CallTargets, call, fi):
        if t[0] == "func":
            res.add_repo(self.p.functions.get(t[1]))
        elif t[0] == "bound":
            f = self.p.functions.get(t[1])
            res.add_repo(f)
            if f is not None and t[2][0] == "inst":
                for g in self.overrides(t[2][1], f.name):
                    res.add_repo(g)
        elif t[0] == "clsobj":
            c = self.p.classes.get(t[1])
            if c is not None:
                res.ctor.append(c)
                init = c.lookup("__init__")
                if init is not None:
                    res.add_repo(init)
                else:
                    for b in c.ext_base_names():
                        res.ext.append(b + ".__init__")
        elif t[0] == "extobj":
            res.ext.append(t[1])
        elif t[0] == "cmeth":
            kind = {"seq": "list", "map": "dict", "tuple": "tuple"}[t[1][0]]
            res.ext.append("method:builtins.%s.%s" % (kind, t[2]))
        elif t[0] == "inst":
            c = self.p.classes.get(t[1])
            f = c.lookup("__call__") if c else None
            if f is not None:
                res.add_repo(f)
            else:
                res.unknown = True
        elif t[0] == "ext":
            res.ext.append("call:" + t[1])

    def property_targets(self, node: ast.Attribute, fi: Optional[FuncInfo]) -> List[FuncInfo]:
        """Property getters an attribute load may invoke."""
        if not isinstance(node.ctx, ast.Load):
            return []
        out: List[FuncInfo] = []
        bt = self.type_of(node.value, fi)
        known = False
        for t in S(bt):
            if t[0] in ("inst", "super"):
                known = True
                c = self.p.classes.get(t[1])
                if c is None:
                    continue
                mro = c.mro if t[0] == "inst" else c.mro[1:]
                f = None
                for k in mro:
                    f = k.own_method(node.attr)
                    if f is not None:
                        break
                if f is not None and f.is_property:
                    if f not in out:
                        out.append(f)
                    if t[0] == "inst":
                        for g in self.overrides(t[1], node.attr):
                            if g.is_property and g not in out:
                                out.append(g)
                # __getattribute__ / __getattr__ hooks
                for hook in ("__getattribute__", "__getattr__"):
                    h = c.lookup(hook)
                    if h is not None and h not in out and f is None:
                        out.append(h)
            elif t[0] in ("mod", "clsobj", "seq", "map", "tuple", "ext", "extobj", "none", "func", "bound"):
                known = True
        if not known and not bt:
            for f in self._methods_by_name.get(node.attr, []):
                if f.is_property and not f.is_setter and f not in out:
                    out.append(f)
        return out
