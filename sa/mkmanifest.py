"""Regenerate /verif/MANIFEST.json from the table below (run after adding/removing a check)."""
import json
import os

VERIF = os.path.dirname(os.path.dirname(os.path.abspath(__file__)))

LEVEL_NOTE = ("Trusted base: CPython's `ast` parser; the callee resolution of sa/typesys.py (statistics printed on every "
              "run; unresolved calls are treated as may-raise/unknown); stdlib logging never raises; protobuf "
              "descriptors shipped in the deep-proto wheel. Structural clauses are necessary conditions of the "
              "behaviour, not the behaviour itself; undecided clauses are listed in the evidence file under "
              "coverage.not_decided.")

CHECKS = {
    "C01": ("interprocedural exception-containment (escape) analysis of the settrace callback + exit-value rule + host-value taint deny-list",
            "Static proof obligations over the resolved call graph: no exception token escapes the trace callback "
            "on any path, every exit keeps tracing on, no mutating operation on host values. Decides the "
            "containment/trace-retention clauses for all programs and inputs at once; does not decide side "
            "effects of user expressions.", "4/C01"),
    "C02": ("field-provenance by origin expansion bound through the real constructor signatures, loop-shape rule of the stack walk, decision tables of frame_type and value rendering",
            "Static decision that every field of the snapshot model is fed from the designated source of the same frame/value (file, "
            "function, line, class of self, locals of the loop frame; type name, rendered+truncated text, identity, truncation flag of one "
            "value; tracepoint, timestamp, frames and table in order), that the stack is walked once per frame from the trigger frame by "
            "f_back, and of the frame_type and rendering tables. Does not decide rendered text of concrete objects.", "4/C02"),
    "C03": ("decision-table extraction over the comparison atoms of the two at_location implementations, origin expansion of the location tuple, loop-shape and dominance rules",
            "Static decision of the matching tables for every abstract world (every event kind, file/line/name equal or "
            "not), of the origin of the values matched (the callback's own frame) and of the loop shape (all triggers "
            "visited, all actions of exactly the matching ones, each action isolated, process under can_trigger, same-location merge).", "4/C03"),
    "C04": ("decision tables of can_trigger/in_window, unit/origin rules, typestate of record_triggered, reader/writer key agreement, critical-section rule",
            "Static decision of the limit tables including the exact period boundary and the -1 sentinel, of the "
            "timestamp/unit wiring, of `record iff processed`, of int fallback, of key agreement between LocationAction "
            "and every builder, and of the presence of a critical section around check+record (the static stand-in for "
            "all interleavings). Two genuine defects are listed as known findings.", "4/C04"),
    "C05": ("shape/dominance rules of the bounded collector, queue-discipline (FIFO) rule, decision table of the budget check, limit wiring by origin expansion",
            "Static decision, for every object graph and limit setting, of the structural bounds: slice+flag of truncation, "
            "count check dominating every sequence append, depth refusal before children and depth=parent+1, budget check "
            "dominating recording and stopping the search, FIFO work list (=> breadth-first, shallower variables win), "
            "each limit wired to its own key.", "4/C05"),
    "C06": ("host-value taint analysis enumerating every operation on traced-program values, type-pin (refinement) and local-guard rules, ownership rule for the snapshot table and identity cache by origin expansion",
            "Static decision for every object graph: each operation the collector applies to a host value is total on a dominating "
            "type pin or locally guarded (otherwise an input exists that loses the whole snapshot); each snapshot's table and the "
            "identity cache used to fill it are created per action and one action uses one cache. Does not decide protobuf encodability.", "4/C06"),
    "C07": ("origin expansion of reference ids, dominance/escape rule between id issue and table entry, who-may-write rule on the identity cache, Optional-use contradiction rule, deletion rule",
            "Static decision that every reference id is the cache id of the value it names, that an issued id always gets its entry, "
            "children attach only to recorded ids, ids come from the size of a grow-only cache, cache hits stop descent before issue, "
            "an Optional id is tested before use, and no entry is deleted while its id can still be handed out (one known finding).", "4/C07"),
    "C08": ("reader/writer agreement between protobuf descriptors, converter keyword tables and the internal model; type-domain agreement of the attribute store and convert_value; who-passes-metadata rule on stub calls",
            "Static decision that every message construction names only schema fields, sets every field (or lists it as not produced), "
            "feeds each from the like-named attribute of the one source object element-wise, and consumes every model property; that "
            "every storable attribute type has a convert_value arm (subclass first, own keyword); that watch sources match the enum; "
            "that every stub call carries GRPCService.metadata() which returns the provider's metadata. Does not decide byte-level encodability.", "4/C08"),
    "C09": ("who-may-call / thread-role reachability over the resolved call graph, exactly-once path-shape rules, escape analysis of flush, lock discipline",
            "Static rules deciding, for every schedule and fault placement, the structural clauses: conversion and "
            "sending are unreachable from the application thread, each hand-over is submitted exactly once on every "
            "path, flush lets no task outcome escape and waits per future, submit-after-close raises before queueing. "
            "Does not decide timing or grpc-internal retries.", "4/C09"),
    "C10": ("decision tables of can_trigger and its overrides, typestate of the fire budget, origin expansion of the single eval site, containment and tagged-result discrimination rules",
            "Static decision for every condition/expression: limits first, blank = always, truth from the evaluated text, "
            "failed evaluation = rejected; rejected hits cannot reach record_triggered; the only eval site gets the "
            "unchanged expression text with f_globals/f_locals of the callback's own frame and is reached by every "
            "expression consumer; failures are contained as values and discriminated before use.", "4/C10"),
    "C11": ("exhaustive decision tables of build_trigger / from_stage / the action builders, sibling agreement, reader/writer key agreement, Optional-use and per-item guard rules, protobuf field binding",
            "Static decision over every presence/value class of the consulted argument keys of the location kind, stage and "
            "produced actions; agreement of the four builders on condition/fire_count/fire_period/id/payload; every key an "
            "action context reads is written by its builder; an uninterpretable tracepoint is skipped inside a per-item "
            "guard; metric/label definitions bind the matching protobuf fields.", "4/C11"),
    "C12": ("tail-position / dominance rules of the poll path, who-may-write rule for hash and config, loop-guard and escape rules of the timer, ordering rule (serial executor | re-read under lock | version check), origin of the listener payload",
            "Static decision for every response/fault sequence: the stored configuration changes only as the last effect of a fully "
            "converted poll, hash and configuration are written together by one function, no-change writes only the timestamp, the "
            "reported hash is the stored one, the timer loop survives failures; and, as the static stand-in for all interleavings of "
            "the two workers, that updates are applied serially with the configuration re-read under a lock (latest wins).", "4/C12"),
    "C13": ("object-sensitive value-dependence analysis of the registration handle (freshness/injectivity), shape rules of add/remove, argument forwarding by origin expansion",
            "Static decision that the handle depends on a per-call fresh token (so equal arguments never give equal handles), that "
            "removal matches that same quantity, deletes at most one entry and is harmless when repeated, that registrations are "
            "appended with unchanged arguments alongside the service's tracepoints, and that the public API forwards everything unchanged.", "4/C13"),
    "C14": ("path-condition/dominance rules over start/shutdown, origin of the restore arguments, step-isolation via escape analysis",
            "Static rules deciding for every start/shutdown history and fault subset: start effects only when not "
            "started, settrace only when tracing is enabled, restore passes exactly the values saved before install "
            "(sys to sys, threading to threading), a failing shutdown step never skips a later step.", "4/C14"),
    "C15": ("exactly-one-of path rule on the pending stack, decision table of the completion match, unused-parameter/identity dataflow rule, origin of the captured result, ownership rule on the per-thread store",
            "Static decision that a popped pending context is processed xor pushed back and registered only after the pending ones were "
            "examined, of the completion table, that the captured result is the completing event's arg and sent once, and that the pending "
            "store is a per-instance threading.local (not shared, not inheritable). The invocation-identity clause is decided too and is a "
            "known finding (frame argument unused).", "4/C15"),
    "C16": ("role binding by origin expansion at the abstract logger call and in its implementations, template-pipeline shape rules, snapshot/log agreement, exactly-once rule",
            "Static decision that message, tracepoint id and context id reach the logger each in its own place (call sites bound "
            "through the abstract signature; implementations' labels paired with their parameters), that the message is "
            "'[deep] ' + Formatter over the configured text with each field evaluated once as a LOG watch in the frame, and "
            "that the snapshot records that same message, one watch result per field and their variables.", "4/C16"),
    "C17": ("schema/interface agreement (protobuf enum vs abstract methods), signature binding by origin expansion, sibling signature agreement, loop-shape and guard rules",
            "Static decision that every metric type has its record method and is dispatched by lower-cased name, that the call "
            "passes one metric's (name, labels, namespace or 'deep', help, unit, value) in interface order to every processor "
            "(each isolated, processors re-obtained per metric), that the value is 1 unless float(expression) and labels are "
            "static or evaluated text, and that without a processor the hit is rejected before limits.", "4/C17"),
    "C18": ("dominance/lock rules on every mutation of the attribute store, escape rule, capacity shape rule, origin of the stored value, decision tables of value cleaning and the schema-URL rule, merge purity (no-write) rule, source-order rule",
            "Static decision for every operation history: no mutation without the raising immutable test and the lock, the backing dict never "
            "escapes, drop at capacity 0 / evict the oldest exactly once when full / replace evicts nothing, only cleaned non-None values "
            "stored, merge writes nothing to its operands and is right-biased with the schema table, sources chained default < env < code < "
            "fallback and plugins onto the accumulated resource.", "4/C18"),
    "C19": ("decision table of the config lookup fallback, documentation/default key agreement, text-to-number type-flow rule, flat-list shape rule, order rule of is_app_frame",
            "Static decision of the lookup precedence over every presence class (code > module default > DEEP_<KEY> > None, callables "
            "called), that every documented key has a default reading its own DEEP_ variable, that no setting that can be environment "
            "text reaches an arithmetic use unconverted and list settings are flat lists of text on every path, and of the "
            "exclude/include/app-root order with the matched-prefix slice.", "4/C19"),
    "C20": ("plugin call-site isolation: extension-point call sites from the resolved call graph, guard-inside-loop rule, loader shape",
            "Static rule over every plugin callback site found by callee resolution: guarded by a non-re-raising "
            "handler for Exception, inside the loop over plugins, in the site's function or on every in-repo call "
            "path; loader skips inactive plugins and sorts by order(). Holds for every fault subset at once.", "4/C20"),
}

NOT_YET = "check under construction in this session (static rule designed in DESIGN.md section 4, not yet armed)"


def main():
    props = [json.loads(l) for l in open(os.path.join(VERIF, "properties.jsonl"))]
    checks, na = [], []
    for p in props:
        pid = p["id"]
        if pid in CHECKS:
            tech, text, ref = CHECKS[pid]
            checks.append({
                "property_id": pid,
                "quick_cmd": "/venv/bin/python /verif/sa/check.py %s --tier quick" % pid,
                "thorough_cmd": "/venv/bin/python /verif/sa/check.py %s --tier thorough" % pid,
                "evidence_file": "/verif/evidence/%s.json" % pid,
                "replay_cmd_template": "cat {path}",
                "engine": "sa",
                "level_claimed": {"category": "other", "text": text, "design_ref": "DESIGN.md section " + ref},
                "level_note": LEVEL_NOTE,
                "technique": "static analysis: " + tech,
            })
        else:
            na.append({"property_id": pid, "reason": NA.get(pid, NOT_YET)})
    man = {
        "version": 1,
        "setup_cmd": "/venv/bin/python -m compileall -q /verif/sa",
        "hooks": {
            "guard": "DEEP_VERIF",
            "enable": "no hooks: the checks read /repo's source with the stdlib ast module and never run it",
            "baseline_off_cmd": "cd /repo && /venv/bin/python -m pytest -ra -q -p no:cacheprovider --timeout=900 --continue-on-collection-errors",
            "source_commits": [],
            "add_only": True,
        },
        "engines": [{"name": "sa", "path": "/verif/sa", "serves_properties": sorted(CHECKS),
                     "kind_free_text": "repository-specific static analyser on stdlib ast: program index, type-based "
                                       "callee resolution, exception-escape fixed point, structured dominance/path "
                                       "conditions, origin expansion, decision tables, taint, reader/writer agreement"}],
        "checks": checks,
        "not_applicable": na,
        "notes": "Technique family: static analysis only. Exit 2 + ANALYSIS-ERROR means the checker could not analyse "
                 "the tree (never a silent pass). Known findings: /verif/known_findings.json.",
    }
    with open(os.path.join(VERIF, "MANIFEST.json"), "w") as fh:
        json.dump(man, fh, indent=1)
    print("wrote MANIFEST.json: %d checks, %d not_applicable" % (len(checks), len(na)))


NA = {}

if __name__ == "__main__":
    main()
