"""E3 - exception-containment analysis.

Every construct that may raise is a *site* carrying a set of exception *tokens* (builtin exception class
names or repo exception class qnames; the generic failure of unknown/third-party code is 'Exception',
of evaluated user expressions 'BaseException'). `escape_tokens(f)` is the set of tokens that may leave
f, computed as a fixed point over the resolved call graph with the lexically enclosing handlers applied.
"""
import ast
import builtins
from typing import Dict, List, Optional, Tuple

from .index import Program, FuncInfo, norm
from .typesys import Types, S
from . import paths

Chain = Tuple[Tuple[str, str, str], ...]   # ((func qname, file:line, construct text), ...)

SAFE_EXT = {
    "builtins.len", "builtins.isinstance", "builtins.issubclass", "builtins.id", "builtins.type",
    "builtins.callable", "builtins.hasattr", "builtins.super", "builtins.dict", "builtins.list",
    "builtins.tuple", "builtins.set", "builtins.frozenset", "builtins.enumerate", "builtins.bool",
    "builtins.range", "builtins.zip", "builtins.iter", "builtins.object", "builtins.property",
    "builtins.staticmethod", "builtins.classmethod", "builtins.min", "builtins.max", "builtins.round",
    "builtins.abs", "builtins.print", "builtins.sorted", "builtins.reversed", "builtins.filter",
    "time.time", "time.time_ns", "uuid.uuid4", "random.getrandbits", "threading.current_thread",
    "threading.Lock", "threading.RLock", "threading.Event", "threading.Thread", "os.getenv",
    "os.path.basename", "os.path.dirname", "os.path.realpath", "os.path.join", "collections.deque",
    "collections.OrderedDict", "sys.gettrace", "sys.settrace", "threading.settrace", "threading.gettrace",
    "platform.python_version", "os.environ.get", "method:os.environ.get",
    "concurrent.futures.ThreadPoolExecutor", "typing.TypeVar",
}
SAFE_METHODS = {
    "append", "extend", "copy", "keys", "values", "items", "get", "update", "clear", "lower", "upper",
    "strip", "lstrip", "rstrip", "startswith", "endswith", "split", "rsplit", "join", "setdefault", "add",
    "discard", "insert", "appendleft", "count", "replace", "hex", "isdigit", "set", "is_set", "wait",
    "start", "acquire", "release", "locked", "__enter__", "__exit__", "add_done_callback", "items",
    "move_to_end", "title", "capitalize", "format_map", "splitlines", "partition", "rpartition",
}
LOOKUP_METHODS = {"pop": "LookupError", "popleft": "IndexError", "popitem": "KeyError", "remove": "ValueError",
                  "index": "ValueError"}
EXT_TOKENS = {
    "builtins.int": {"ValueError", "TypeError"},
    "builtins.float": {"ValueError", "TypeError"},
    "builtins.str": {"Exception"},
    "builtins.repr": {"Exception"},
    "builtins.format": {"Exception"},
    "builtins.eval": {"BaseException"},
    "builtins.exec": {"BaseException"},
    "builtins.compile": {"Exception"},
    "builtins.next": {"StopIteration"},
    "builtins.getattr": {"AttributeError"},
    "builtins.setattr": {"AttributeError"},
    "builtins.open": {"OSError"},
    "inspect.getsourcelines": {"OSError", "TypeError"},
    "inspect.stack": {"Exception"},
    "importlib.import_module": {"ImportError", "Exception"},
}


def _builtin_exc(name: str):
    obj = getattr(builtins, name, None)
    if isinstance(obj, type) and issubclass(obj, BaseException):
        return obj
    return None


class Site:
    __slots__ = ("node", "kind", "tokens", "detail")

    def __init__(self, node, kind, tokens: Dict[str, Chain], detail=""):
        self.node = node
        self.kind = kind
        self.tokens = tokens
        self.detail = detail


class Guards:
    def __init__(self, prog: Program, types: Types):
        self.p = prog
        self.t = types
        self._esc: Dict[str, Dict[str, Chain]] = {}
        self._sites_memo: Dict[str, List[Site]] = {}
        # the repository's logging wrappers are trusted not to raise only as long as they are pure forwarders to the
        # standard logging module (which formats lazily and swallows formatting errors)
        self.trusted_repo = {q for q in ("deep.logging.debug", "deep.logging.info", "deep.logging.warning", "deep.logging.error",
                                         "deep.logging.exception") if self._pure_log_forwarder(q)}
        self._stable = False
        self.extra_abstract_token = "Exception"
        self._compute()

    def _pure_log_forwarder(self, qname: str) -> bool:
        f = self.p.functions.get(qname)
        if f is None:
            return False
        body = [st for st in f.node.body if not (isinstance(st, ast.Expr) and isinstance(st.value, ast.Constant))]
        if len(body) != 1 or not isinstance(body[0], ast.Expr) or not isinstance(body[0].value, ast.Call):
            return False
        c = body[0].value
        if not (isinstance(c.func, ast.Attribute) and isinstance(c.func.value, ast.Call) and norm(c.func.value.func) in ("logging.getLogger", "getLogger")):
            return False
        if not f.params or not c.args or not (isinstance(c.args[0], ast.Name) and c.args[0].id == f.params[0]):
            return False            # the message must be handed over as it is: formatting belongs to the logging module
        va = f.node.args.vararg.arg if f.node.args.vararg else None
        rest = c.args[1:]
        if not all(isinstance(a, ast.Starred) and isinstance(a.value, ast.Name) and a.value.id == va for a in rest):
            return False
        return all(isinstance(k.value, (ast.Name, ast.Constant)) for k in c.keywords)

    # ------------------------------------------------------------------ exception classes
    def exc_root(self, token: str):
        """builtin exception class that the token is (or derives from)."""
        b = _builtin_exc(token)
        if b is not None:
            return b
        c = self.p.classes.get(token)
        if c is None:
            return Exception
        for k in c.mro:
            for e in k.ext_bases:
                b = _builtin_exc(e.split(".")[-1])
                if b is not None:
                    return b
        return Exception

    def token_of_class_expr(self, e: ast.expr, fi: FuncInfo) -> List[str]:
        """Exception class tokens named by a handler type / raise expression."""
        if isinstance(e, ast.Tuple):
            out = []
            for x in e.elts:
                out += self.token_of_class_expr(x, fi)
            return out
        if isinstance(e, ast.Call):
            return self.token_of_class_expr(e.func, fi)
        ts = self.t.type_of(e, fi)
        out = []
        for t in S(ts):
            if t[0] == "clsobj":
                out.append(t[1])
            elif t[0] == "extobj":
                out.append(t[1].split(".")[-1])
            elif t[0] == "inst":
                out.append(t[1])
            elif t[0] == "ext":
                out.append(t[1].split(".")[-1])
        if not out:
            name = ast.unparse(e).split(".")[-1]
            out.append(name if _builtin_exc(name) else "Exception")
        return out

    def catches(self, handler: ast.ExceptHandler, token: str, fi: FuncInfo) -> bool:
        if handler.type is None:
            return True
        for h in self.token_of_class_expr(handler.type, fi):
            if self._is_sub(token, h):
                return True
        return False

    def _is_sub(self, token: str, handler_tok: str) -> bool:
        hc = self.p.classes.get(handler_tok)
        tc = self.p.classes.get(token)
        if hc is not None:
            return tc is not None and tc.is_subclass_of(hc)
        hb = _builtin_exc(handler_tok)
        if hb is None:
            return False
        return issubclass(self.exc_root(token), hb)

    @staticmethod
    def reraises(handler: ast.ExceptHandler) -> bool:
        for n in ast.walk(handler):
            if isinstance(n, ast.Raise) and n.exc is None:
                return True
        return False

    # ------------------------------------------------------------------ lexical guards
    def enclosing_tries(self, node, fi: FuncInfo) -> List[ast.Try]:
        """Try statements whose *body* contains node (innermost first), within fi."""
        out = []
        child = node
        for a in self.p.ancestors(node, stop=fi.node):
            if isinstance(a, ast.Try):
                if any(paths.within(self.p, node, s) for s in a.body):
                    out.append(a)
            child = a
        return out

    def catching_try(self, node, fi: FuncInfo, token: str) -> Optional[Tuple[ast.Try, ast.ExceptHandler]]:
        """Innermost try/handler in fi that catches `token` raised at node and does not re-raise it."""
        for tr in self.enclosing_tries(node, fi):
            for h in tr.handlers:
                if self.catches(h, token, fi):
                    if self.reraises(h):
                        break   # first matching handler re-raises: continues outward
                    return tr, h
        return None

    def filter_tokens(self, node, fi: FuncInfo, tokens: Dict[str, Chain]) -> Dict[str, Chain]:
        out = {}
        for tok, ch in tokens.items():
            if self.catching_try(node, fi, tok) is None:
                out[tok] = ch
        return out

    # ------------------------------------------------------------------ sites
    def _link(self, fi: FuncInfo, node, text=None) -> Tuple[str, str, str]:
        return (fi.qname, fi.loc(node), text or norm(node)[:120])

    def ext_tokens(self, name: str, call: ast.Call, fi: FuncInfo) -> set:
        if name in SAFE_EXT:
            return set()
        if name in EXT_TOKENS:
            if name == "builtins.getattr" and len(call.args) >= 3:
                return set()
            if name == "builtins.next" and len(call.args) >= 2:
                return set()
            if name in ("builtins.str", "builtins.repr", "builtins.format") and call.args:
                a0 = call.args[0]
                if isinstance(a0, ast.Attribute) and a0.attr in ("__name__", "__qualname__", "__module__"):
                    return set()      # names of types are agent-independent strings
                at = self.t.type_of(call.args[0], fi)
                if at and all(t in (("ext", "builtins.str"), ("ext", "builtins.int"), ("ext", "builtins.bool"),
                                    ("ext", "builtins.float")) for t in at):
                    return set()
            return set(EXT_TOKENS[name])
        if name.startswith("logging.") or "logging.getLogger" in name or name.startswith("method:ret:logging"):
            return set()
        if name.startswith("method:") or name.startswith("call:"):
            meth = name.rsplit(".", 1)[-1]
            if meth == "result" and len(call.args) + len(call.keywords) <= 1 and not name.startswith("method:builtins."):
                # Future.result re-raises whatever the task raised - any BaseException (the executor stores them all)
                return {"BaseException"}
            if name.startswith("method:builtins.") or name.startswith("method:?."):
                if meth in SAFE_METHODS:
                    return set()
                if meth in LOOKUP_METHODS:
                    if meth == "pop" and name.startswith("method:builtins.dict") and len(call.args) >= 2:
                        return set()
                    return {LOOKUP_METHODS[meth]}
                if meth == "decode" or meth == "encode":
                    # encode with a lenient error handler cannot fail, and what it produced decodes
                    def lenient(c_):
                        h_ = c_.args[1] if len(c_.args) > 1 else next((k.value for k in c_.keywords if k.arg == "errors"), None)
                        return isinstance(h_, ast.Constant) and h_.value in ("replace", "backslashreplace", "ignore", "xmlcharrefreplace", "namereplace")
                    if meth == "encode" and lenient(call):
                        return set()
                    if meth == "decode" and isinstance(call.func, ast.Attribute) and isinstance(call.func.value, ast.Call) and \
                            isinstance(call.func.value.func, ast.Attribute) and call.func.value.func.attr == "encode" and lenient(call.func.value):
                        return set()
                    return {"UnicodeError"}
                if meth in ("sort",):
                    return {"Exception"} if call.keywords else set()
                if meth in ("to_bytes",):
                    return {"OverflowError"}
                return {"Exception"}
            if meth in ("acquire", "release", "set", "is_set", "wait", "start", "__enter__", "__exit__") \
                    and ("threading" in name):
                return set()
            return {"Exception"}
        if name.endswith(".__init__"):
            return set()
        return {"Exception"}

    PUBLIC_EXTENSION_MODULES = ("deep.api.plugin", "deep.api.auth", "deep.api.resource")
    """Modules whose abstract classes are the documented extension API: implementations may live outside
    the repository (third-party plugins, auth providers, resource detectors)."""

    def is_extension_point(self, f: FuncInfo) -> bool:
        """Method of a public extension interface: its real implementation may be third-party code."""
        c = f.cls
        if c is None or not c.module.name.startswith(self.PUBLIC_EXTENSION_MODULES):
            return False
        if f.name.startswith("__") and f.name != "__init__":
            return False
        if f.is_abstract:
            return True
        # concrete, overridable methods declared on the interface classes themselves (Plugin.shutdown, order, ...)
        declares_abstract = any(g.is_abstract for lst in c.methods.values() for g in lst)
        is_plugin_root = c.qname == "deep.api.plugin.Plugin"
        return (declares_abstract or is_plugin_root) and f.name != "__init__"

    def sites(self, fi: FuncInfo) -> List[Site]:
        key = self.t.fkey(fi)
        if key in self._sites_memo and self._stable:
            return self._sites_memo[key]
        out: List[Site] = []
        for n in self.t.nodes_in(fi):
            if isinstance(n, ast.Raise):
                if n.exc is None:
                    continue   # handled through `reraises`
                toks = {}
                for tk in self.token_of_class_expr(n.exc, fi):
                    toks[tk] = (self._link(fi, n),)
                # `raise <variable>` of unknown class (an error object handed back by someone): anything, also what `except Exception` lets through
                known_exc = [tk for tk in toks if _builtin_exc(tk) is not None or tk in self.p.classes]
                if isinstance(n.exc, ast.Name) and self.t.local_bindings(fi, n.exc.id) and not known_exc and \
                        not any(k_ == "except" for k_, _b in self.t.local_bindings(fi, n.exc.id)):
                    toks = {"BaseException": (self._link(fi, n),)}
                out.append(Site(n, "raise", toks))
            elif isinstance(n, ast.Assert):
                out.append(Site(n, "assert", {"AssertionError": (self._link(fi, n),)}))
            elif isinstance(n, ast.Call):
                out.append(self._call_site(n, fi))
            elif isinstance(n, ast.Attribute) and isinstance(n.ctx, ast.Load):
                par = self.p.parent_of(n)
                if isinstance(par, ast.Call) and par.func is n:
                    # method call: handled by the call itself, but a property returning a callable is rare; skip
                    pass
                props = self.t.property_targets(n, fi)
                toks = {}
                for g in props:
                    if g.is_abstract:
                        if self.is_extension_point(g):
                            toks.setdefault("Exception", (self._link(fi, n), (g.qname, g.loc(), "extension point")))
                        continue
                    for tk, ch in self.escape_tokens(g).items():
                        toks.setdefault(tk, (self._link(fi, n),) + ch)
                    if self.is_extension_point(g) and not (isinstance(n.value, ast.Name) and n.value.id in ("self", "cls")):
                        # a concrete property of an extension interface read on somebody else's object: the third-party
                        # subclass may override it, or may never have run the base constructor that sets its field
                        toks.setdefault("Exception", (self._link(fi, n), (g.qname, g.loc(), "extension point: third-party implementation")))
                if toks:
                    out.append(Site(n, "property", toks))
            elif isinstance(n, ast.BinOp) and isinstance(n.op, ast.Mod) and not isinstance(n.left, ast.Constant) \
                    and (not isinstance(n.left, (ast.BinOp, ast.Call)) or any(tt == ("ext", "builtins.str") for tt in self.t.type_of(n.left, fi))) \
                    and not any(tt[0] in ("ext", "extobj") and ("int" in tt[1] or "float" in tt[1] or "time" in tt[1]) for tt in self.t.type_of(n.left, fi)):
                # %-formatting with a format string that is not a literal: placeholders and arguments may not match
                out.append(Site(n, "format", {"TypeError": (self._link(fi, n),), "ValueError": (self._link(fi, n),)}))
            elif isinstance(n, ast.Subscript) and isinstance(n.ctx, (ast.Load, ast.Del)):
                if isinstance(n.slice, ast.Slice):
                    continue
                if self._subscript_safe(n, fi):
                    continue
                out.append(Site(n, "subscript", {"LookupError": (self._link(fi, n),)}))
            elif isinstance(n, (ast.With, ast.AsyncWith)):
                for it in n.items:
                    toks = {}
                    for t in S(self.t.type_of(it.context_expr, fi)):
                        if t[0] == "inst":
                            c = self.p.classes.get(t[1])
                            for meth in ("__enter__", "__exit__"):
                                f = c.lookup(meth) if c else None
                                cands = [f] if f else []
                                cands += self.t.overrides(t[1], meth) if c else []
                                for g in cands:
                                    for tk, ch in self.escape_tokens(g).items():
                                        toks.setdefault(tk, (self._link(fi, it.context_expr, "with " + norm(it.context_expr)),) + ch)
                    if toks:
                        out.append(Site(it.context_expr, "with", toks))
        self._sites_memo[key] = out
        return out

    def _subscript_safe(self, n: ast.Subscript, fi: FuncInfo) -> bool:
        base_t = self.t.type_of(n.value, fi)
        # tuple / string-format indexing by constant on fixed tuples
        if base_t and all(t[0] == "tuple" for t in base_t):
            return True
        key_txt = norm(n.slice)
        cont_txt = norm(n.value)
        for test, pol in paths.conditions(self.p, n, fi):
            for c in ast.walk(test):
                if isinstance(c, ast.Compare) and len(c.ops) == 1 and norm(c.left) == key_txt \
                        and norm(c.comparators[0]) == cont_txt:
                    if isinstance(c.ops[0], ast.In) and pol and self._positive(test, c):
                        return True
                    if isinstance(c.ops[0], ast.NotIn) and not pol and test is c:
                        return True
        # `for k in list(d.keys()) ... d[k]` with an `if k in d` filter is covered by conditions(); iterating keys:
        for loop in paths.enclosing_loops(self.p, n, fi):
            it = getattr(loop, "iter", None)
            tgt = getattr(loop, "target", None)
            if it is not None and tgt is not None and norm(tgt) == key_txt and cont_txt in norm(it) \
                    and not isinstance(it, ast.Call):
                return True
        return False

    @staticmethod
    def _positive(test, cmp_node) -> bool:
        """cmp_node occurs positively in test (test true => cmp true): test is cmp or an `and` chain containing it."""
        if test is cmp_node:
            return True
        if isinstance(test, ast.BoolOp) and isinstance(test.op, ast.And):
            return any(Guards._positive(v, cmp_node) for v in test.values)
        return False

    def _call_site(self, n: ast.Call, fi: FuncInfo) -> Site:
        tg = self.t.resolve_call(n, fi)
        toks: Dict[str, Chain] = {}
        link = self._link(fi, n)
        for g in tg.repo:
            if g.qname in self.trusted_repo:
                continue
            if not g.is_abstract:     # bodies of abstract methods are never the runtime target
                for tk, ch in self.escape_tokens(g).items():
                    toks.setdefault(tk, (link,) + ch)
            if self.is_extension_point(g):
                toks.setdefault(self.extra_abstract_token,
                                (link, (g.qname, g.loc(), "extension point: third-party implementation")))
        for name in tg.ext:
            for tk in self.ext_tokens(name, n, fi):
                toks.setdefault(tk, (link, ("<external>", name, "")))
        if tg.unknown or not (tg.repo or tg.ctor or tg.ext):
            toks.setdefault("Exception", (link, ("<unresolved>", norm(n.func), "")))
        return Site(n, "call", toks, detail=repr(tg))

    # ------------------------------------------------------------------ fixed point
    def escape_tokens(self, fi: FuncInfo) -> Dict[str, Chain]:
        return self._esc.get(self.t.fkey(fi), {})

    def _compute(self):
        funcs = list(self.p.functions.values())
        for f in funcs:
            self._esc[self.t.fkey(f)] = {}
        for rnd in range(30):
            changed = False
            self._sites_memo.clear()
            for f in funcs:
                new: Dict[str, Chain] = {}
                for s in self.sites(f):
                    for tk, ch in self.filter_tokens(s.node, f, s.tokens).items():
                        if tk not in new or len(ch) < len(new[tk]):
                            new[tk] = ch
                old = self._esc[self.t.fkey(f)]
                if set(new) != set(old):
                    changed = True
                for tk in new:
                    if tk in old:
                        new[tk] = old[tk]    # keep the first (shortest) witness
                self._esc[self.t.fkey(f)] = new
            if not changed:
                break
        else:
            raise RuntimeError("escape analysis did not converge")
        self._sites_memo.clear()
        self._stable = True

    # ------------------------------------------------------------------ queries
    def site_escapes(self, site: Site, fi: FuncInfo) -> Dict[str, Chain]:
        return self.filter_tokens(site.node, fi, site.tokens)

    def unguarded_sites(self, fi: FuncInfo) -> List[Tuple[Site, Dict[str, Chain]]]:
        out = []
        for s in self.sites(fi):
            esc = self.site_escapes(s, fi)
            if esc:
                out.append((s, esc))
        return out

    @staticmethod
    def fmt_chain(ch: Chain) -> str:
        return " -> ".join("%s [%s] %s" % (q, loc, txt) if txt else "%s %s" % (q, loc) for q, loc, txt in ch)
