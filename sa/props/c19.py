"""C19 configuration precedence and environment parity - see DESIGN.md section 4 (C19)."""
import ast
import os
import re

from .common import Ctx, Finding, Result, need, term, P, TRUSTED_LOGGING
from .c03 import table_rule
from ..index import norm
from ..dtable import Table, Vars
from .. import paths

CS = "deep.config.config_service.ConfigService"


def documented_keys(root: str):
    path = os.path.join(root, "docs", "config", "config.md")
    if not os.path.exists(path):
        return None
    keys = []
    for line in open(path, encoding="utf-8"):
        m = re.match(r"^\|\s*([A-Z][A-Z0-9_]+)\s*\|", line)
        if m:
            keys.append(m.group(1))
    return keys


def _first_prefix_helper(ctx, g):
    """g(filename, prefixes): for p in prefixes: if filename.startswith(p): return True, p  /  return False, None"""
    t = ctx.types
    if len(g.params) < 2:
        return None
    fn_, ps_ = g.params[-2], g.params[-1]
    loops = list(t.nodes_in(g, ast.For))
    rets = sorted(t.nodes_in(g, ast.Return), key=lambda r: r.lineno)
    if len(loops) != 1 or len(rets) != 2 or norm(loops[0].iter) != ps_:
        return None
    tv = norm(loops[0].target)
    r0, r1 = rets
    inside = [c for c, pol in paths.conditions(ctx.prog, r0, g) if pol]
    if norm(r0.value) == "(True, %s)" % tv and norm(r1.value) == "(False, None)" and any(norm(c) == "%s.startswith(%s)" % (fn_, tv) for c in inside) \
            and not list(t.nodes_in(g, (ast.Break, ast.Continue))):
        return (fn_, ps_)
    return None


def _frame_stages(ctx, ia):
    """is_app_frame as [(source text, flag)] + text of the final return, or None when a statement is not one of the known
    first-match shapes (the caller then falls back to the plain two-loop reading)."""
    t, p = ctx.types, ctx.prog
    fn = ia.params[1]
    env = {}

    def src(e):
        e = env.get(e.id, e) if isinstance(e, ast.Name) else e
        if isinstance(e, ast.List) and len(e.elts) == 1:
            e = e.elts[0]
            e = env.get(e.id, e) if isinstance(e, ast.Name) else e
        return norm(e)

    def flag(e, binds=None):
        if isinstance(e, ast.Name) and binds and e.id in binds:
            e = binds[e.id]
        return e.value if isinstance(e, ast.Constant) and isinstance(e.value, bool) else None

    stages = []
    body = [st for st in ia.node.body if not (isinstance(st, ast.Expr) and isinstance(st.value, ast.Constant))]
    i = 0
    final = None

    def match_ret(ifst, value_name, found_test, binds=None):
        """if <found_test>: return FLAG, <value_name>"""
        if not (isinstance(ifst, ast.If) and not ifst.orelse and len(ifst.body) == 1 and isinstance(ifst.body[0], ast.Return)
                and isinstance(ifst.body[0].value, ast.Tuple) and len(ifst.body[0].value.elts) == 2):
            return None
        if norm(ifst.test) != found_test or norm(ifst.body[0].value.elts[1]) != value_name:
            return None
        return flag(ifst.body[0].value.elts[0], binds)

    def helper_call(st_):
        """found, path = helper(filename, S)"""
        if isinstance(st_, ast.Assign) and isinstance(st_.targets[0], ast.Tuple) and len(st_.targets[0].elts) == 2 and isinstance(st_.value, ast.Call):
            tg = t.resolve_call(st_.value, ia).repo
            if len(tg) == 1 and _first_prefix_helper(ctx, tg[0]) is not None and len(st_.value.args) == 2 and norm(st_.value.args[0]) == fn:
                return norm(st_.targets[0].elts[0]), norm(st_.targets[0].elts[1]), st_.value.args[1]
        return None

    while i < len(body):
        st_ = body[i]
        nxt = body[i + 1] if i + 1 < len(body) else None
        if isinstance(st_, ast.Assign) and len(st_.targets) == 1 and isinstance(st_.targets[0], ast.Name):
            v = st_.value
            # x = next((p for p in S if filename.startswith(p)), None); if x is not None: return FLAG, x
            if isinstance(v, ast.Call) and norm(v.func) == "next" and len(v.args) == 2 and isinstance(v.args[0], ast.GeneratorExp) \
                    and isinstance(v.args[1], ast.Constant) and v.args[1].value is None:
                ge = v.args[0]
                g0 = ge.generators[0]
                if len(ge.generators) == 1 and norm(ge.elt) == norm(g0.target) and len(g0.ifs) == 1 and norm(g0.ifs[0]) == "%s.startswith(%s)" % (fn, norm(g0.target)):
                    fl = match_ret(nxt, st_.targets[0].id, "%s is not None" % st_.targets[0].id)
                    if fl is None:
                        return None
                    stages.append((src(g0.iter), fl))
                    i += 2
                    continue
                return None
            env[st_.targets[0].id] = v
            i += 1
            continue
        hc = helper_call(st_)
        if hc is not None:
            fl = match_ret(nxt, hc[1], hc[0])
            if fl is None:
                return None
            stages.append((src(hc[2]), fl))
            i += 2
            continue
        if isinstance(st_, ast.For):
            # for p in S: if filename.startswith(p): return FLAG, p
            if len(st_.body) == 1 and not st_.orelse and isinstance(st_.body[0], ast.If):
                fl = match_ret(st_.body[0], norm(st_.target), "%s.startswith(%s)" % (fn, norm(st_.target)))
                if fl is not None:
                    stages.append((src(st_.iter), fl))
                    i += 1
                    continue
            # for prefixes, in_app in ((S1, F1), (S2, F2)): found, path = helper(filename, prefixes); if found: return in_app, path
            if isinstance(st_.iter, (ast.Tuple, ast.List)) and isinstance(st_.target, ast.Tuple) and len(st_.target.elts) == 2 and len(st_.body) == 2 and not st_.orelse:
                a_, b_ = [norm(x) for x in st_.target.elts]
                hc = helper_call(st_.body[0])
                if hc is None or norm(hc[2]) != a_:
                    return None
                for pair in st_.iter.elts:
                    if not (isinstance(pair, (ast.Tuple, ast.List)) and len(pair.elts) == 2):
                        return None
                    fl = match_ret(st_.body[1], hc[1], hc[0], {b_: pair.elts[1]})
                    if fl is None:
                        return None
                    stages.append((src(pair.elts[0]), fl))
                i += 1
                continue
            return None
        if isinstance(st_, ast.If):
            # if filename.startswith(R): return True, R
            if not st_.orelse and len(st_.body) == 1 and isinstance(st_.body[0], ast.Return) and isinstance(st_.test, ast.Call) and isinstance(st_.test.func, ast.Attribute) \
                    and st_.test.func.attr == "startswith" and norm(st_.test.func.value) == fn and len(st_.test.args) == 1 \
                    and isinstance(st_.body[0].value, ast.Tuple) and len(st_.body[0].value.elts) == 2 and src(st_.test.args[0]) == src(st_.body[0].value.elts[1]):
                fl = flag(st_.body[0].value.elts[0])
                if fl is None:
                    return None
                stages.append((src(st_.test.args[0]), fl))
                i += 1
                continue
            return None
        if isinstance(st_, ast.Return) and i == len(body) - 1:
            final = norm(st_.value) if st_.value is not None else "None"
            i += 1
            continue
        return None
    return (stages, final) if final is not None else None


def run(ctx: Ctx, tier: str) -> Result:
    res = Result("C19")
    res.explanation = (
        "Decision table of the attribute-lookup fallback of ConfigService (code value, else environment-backed module "
        "default, else DEEP_<KEY> environment variable, else None; callables called) over every presence class; "
        "agreement between the documented keys and the module defaults, each default reading the DEEP_ variable of "
        "its own name; environment parity as a type-flow rule: a documented key whose default can be environment "
        "text must be converted before it is used arithmetically, and list-valued keys must yield flat lists of "
        "text on every path; order rule of is_app_frame (exclude, include, app root, else none) and the short-path "
        "slice; APP_ROOT derived only when absent from the code config, environment first.")
    res.trusted = [TRUSTED_LOGGING, "os.getenv returns text or the given default"]
    res.not_decided = ["concrete path/prefix arithmetic on concrete file names", "logging configuration"]
    for rid, text in (("C19.CHAIN", "lookup precedence: code > module default > DEEP_<KEY> env > None; callables called"),
                      ("C19.DOC", "documented keys exist and read their own DEEP_ variable"),
                      ("C19.ENV", "environment text is converted before numeric use; list keys are flat lists of text"),
                      ("C19.FRAME", "app-frame classification order and short path"),
                      ("C19.ROOT", "APP_ROOT derived only when absent, environment first")):
        res.rule(rid, text)
    p, t, g = ctx.prog, ctx.types, ctx.guards

    # ---------------- CHAIN
    ga = p.func(CS + ".__getattribute__")
    tries = list(t.nodes_in(ga, ast.Try))
    own_tries = [x for x in tries if any(isinstance(c, ast.Call) and norm(c.func) == "super().__getattribute__" for b in x.body for c in ast.walk(b))]
    need(len(own_tries) == 1 and own_tries[0].handlers, "__getattribute__: try/except AttributeError not found")
    tr = own_tries[0]
    # no other failure is turned into a value: a setting given in code that cannot be evaluated must not quietly resolve to
    # a lower-precedence source
    for x in tries:
        if x is tr:
            continue
        for h_ in x.handlers:
            rets_ = [n for n in ast.walk(h_) if isinstance(n, ast.Return)]
            falls = not paths.always_exits(h_.body)
            if rets_ or falls:
                res.fail(Finding("C19.CHAIN", ga.qname, h_, ga.loc(h_), "a failure while resolving a setting is answered with another value (%s): a code-supplied value that fails on one "
                                 "read resolves to the environment / default on that read - the precedence is not the same on every read" % (norm(rets_[0])[:50] if rets_ else "falls through")))
    h = tr.handlers[0]
    own = [c for c in ast.walk(ast.Module(body=tr.body, type_ignores=[])) if isinstance(c, ast.Call) and norm(c.func) == "super().__getattribute__"]
    if own and g.catches(h, "AttributeError", ga) and not g.reraises(h):
        res.ok("C19.CHAIN", {"own attributes first": norm(own[0])})
    else:
        res.fail(Finding("C19.CHAIN", ga.qname, tr, ga.loc(tr), "own attributes are not tried first with a fallback on AttributeError"))
    pos = paths.block_position(p, tr)
    after = getattr(pos[0], pos[1])[pos[2] + 1:]
    attr_names = [norm(n.targets[0]) for n in tr.body if isinstance(n, ast.Assign) and isinstance(n.targets[0], ast.Name)]
    env0 = {a: ast.Constant(None) for a in attr_names}
    tb = Table(ctx, ga, body=list(h.body) + list(after), env0=env0)
    N = P(ga, 1)
    CUST = term(ctx, ga, "self.__custom")
    IN, CV = "%s in %s" % (N, CUST), "%s[%s]" % (CUST, N)
    MODV = [k for k in tb.vars.truths if k.startswith("hasattr(") and N in k]
    ENVV = [k for k in tb.vars.enums if k.startswith("os.getenv(") and None in tb.vars.enums[k]]
    if len(MODV) != 1 or len(ENVV) != 1:
        res.fail(Finding("C19.CHAIN", ga.qname, "<module / environment fallbacks>", ga.loc(), "the fallback does not consult the deep.config module and the DEEP_<KEY> environment variable (found %s / %s)" % (MODV, ENVV)))
    else:
        HAS, ENV = MODV[0], ENVV[0]
        modname = HAS[len("hasattr("):HAS.index(",")]
        GETM = "getattr(%s, %s, None)" % (modname, N)
        rv = Vars()
        rv.enum(CUST, None); rv.boolean(IN); rv.enum(CV, None); rv.truth(HAS); rv.enum(ENV, None)
        rv.truth("callable(%s)" % CV); rv.truth("callable(%s)" % GETM)
        if "'DEEP_%s' % " + N not in ENV and ("'DEEP_%s' % " + N) not in ENV:
            pass

        def ref(w):
            in_custom = w.enum[CUST] is not None and w.boolean[IN] and w.enum[CV] is not None
            if in_custom:
                want = CV + "()" if w.truth["callable(%s)" % CV] else CV
            elif w.truth[HAS]:
                want = GETM + "()" if w.truth["callable(%s)" % GETM] else GETM
            elif w.enum[ENV] is not None:
                want = ENV
            else:
                # nothing anywhere: None - also when spelled as the (None-valued) environment lookup itself
                return lambda got: got[0] == "return" and got[1] in (None, ENV)
            return lambda got: got[0] == "return" and got[1] == want
        table_rule(res, "C19.CHAIN", tb, rv, ref, "code value > deep.config default > DEEP_<KEY> environment > None")
        from .common import fmt_parts
        env_nodes = [c for r in tb.rows for c0, _ in r.conds for c in ast.walk(c0) if isinstance(c, ast.Call) and norm(c.func) == "os.getenv"]
        fp = fmt_parts(env_nodes[0].args[0]) if env_nodes and env_nodes[0].args else None
        if fp is not None and fp[0] == "DEEP_{}" and fp[1] == [N]:
            res.ok("C19.CHAIN", {"environment variable": ENV})
        else:
            res.fail(Finding("C19.CHAIN", ga.qname, ENV, ga.loc(), "the environment fallback does not read DEEP_<KEY>: %s" % ENV))
        imp = ga.module.imports.get(modname) or ""
        if modname == "config" and any(isinstance(n, ast.ImportFrom) and n.module == "deep" and any(a.name == "config" for a in n.names) for n in ast.walk(ga.node)):
            res.ok("C19.CHAIN", {"module defaults": "deep.config"})
        else:
            res.fail(Finding("C19.CHAIN", ga.qname, modname, ga.loc(), "module defaults are not looked up in deep.config"))

    # ---------------- DOC
    keys = documented_keys(ctx.prog.root)
    cm = p.modules["deep.config"]
    if keys is None:
        res.fail(Finding("C19.DOC", "docs/config/config.md", "<table>", "docs/config/config.md", "the configuration documentation is missing"))
        keys = []
    res.analysed["documented keys"] = keys
    res.floor("documented configuration keys", len(keys), 6)
    for k in keys:
        if k in cm.consts:
            txt = norm(cm.consts[k])
            if k == "APP_ROOT":
                res.ok("C19.DOC", {k: "calculated at start"})
            elif ("'DEEP_%s'" % k) in txt and "getenv" in txt:
                res.ok("C19.DOC", {k: txt})
            else:
                res.fail(Finding("C19.DOC", "deep.config", k, cm.relpath, "the default of %s does not read the environment variable DEEP_%s: `%s`" % (k, k, txt)))
        elif k in cm.functions:
            f = cm.functions[k]
            reads = [norm(c) for c in t.calls_in(f) if "os.getenv" in t.resolve_call(c, f).ext or norm(c.func) == "os.getenv"]
            if any(("'DEEP_%s'" % k) in r for r in reads):
                res.ok("C19.DOC", {k: reads[0]})
            else:
                res.fail(Finding("C19.DOC", f.qname, k, f.loc(), "%s() does not read DEEP_%s" % (k, k)))
        else:
            res.fail(Finding("C19.DOC", "deep.config", k, cm.relpath, "documented key %s has no default in deep.config" % k))

    # ---------------- ENV: type flow of text defaults into numeric uses
    text_keys = {}
    for k, v in cm.consts.items():
        if not isinstance(v, ast.Call):
            continue
        if norm(v.func) == "os.getenv":
            text_keys[k] = v
    for k in sorted(text_keys):
        uses = numeric_uses(ctx, k)
        res.analysed["numeric uses of %s" % k] = len(uses)
        for f, n, why in uses:
            res.fail(Finding("C19.ENV", f.qname, n, f.loc(n),
                             "the setting %s can be environment text (default `%s`) but is used %s: with DEEP_%s set the agent fails there" % (
                                 k, norm(text_keys[k]), why, k)))
        if not uses:
            res.ok("C19.ENV", {k: "never used numerically while text"})
    for k, v in cm.consts.items():
        if isinstance(v, ast.Call) and norm(v.func) in ("int", "float") and v.args and isinstance(v.args[0], ast.Call) and norm(v.args[0].func) == "os.getenv":
            res.ok("C19.ENV", {k: "converted at definition: " + norm(v)})
    for k in ("IN_APP_INCLUDE", "IN_APP_EXCLUDE"):
        need(k in cm.functions, "deep.config.%s not found" % k)
        f = cm.functions[k]
        ft = Table(ctx, f)
        for r in ft.rows:
            if r.kind != "return":
                res.fail(Finding("C19.ENV", f.qname, r.node, f.loc(r.node), "%s() does not return a list on every path" % k))
                continue
            e = r.result

            def _flat(e, depth=0):
                if isinstance(e, ast.Call) and isinstance(e.func, ast.Attribute) and e.func.attr == "split":
                    return True
                if isinstance(e, (ast.List, ast.Tuple)) and all(not isinstance(x, (ast.List, ast.Tuple)) and not (isinstance(x, ast.Call) and isinstance(x.func, ast.Attribute) and x.func.attr == "split") for x in e.elts):
                    return True
                if isinstance(e, ast.Call) and isinstance(e.func, ast.Name) and e.func.id in ("list", "tuple") and len(e.args) == 1 and not e.keywords:
                    return _flat(e.args[0], depth)
                if isinstance(e, ast.Call) and depth < 2:
                    # a splitting helper of the module: flat on each of its returns
                    hs = [h for h in cm.functions.values() if norm(e.func) in (h.name, h.qname)]
                    if len(hs) == 1:
                        rets_ = [x for x in t.nodes_in(hs[0], ast.Return) if x.value is not None]
                        return bool(rets_) and all(_flat(x.value, depth + 1) for x in rets_)
                return False
            flat = _flat(e)
            if flat:
                pass
            elif isinstance(e, ast.List) and all(not isinstance(x, (ast.List, ast.Tuple)) and not (isinstance(x, ast.Call) and isinstance(x.func, ast.Attribute) and x.func.attr == "split") for x in e.elts):
                flat = True
            if flat:
                res.ok("C19.ENV", {k: norm(e)[:80]})
            else:
                res.fail(Finding("C19.ENV", f.qname, r.node, f.loc(r.node),
                                 "%s() yields `%s` on the path %s: not a flat list of text, so the prefix test of is_app_frame raises TypeError" % (
                                     k, norm(e)[:80], [("" if pol else "not ") + norm(c)[:50] for c, pol in r.conds])))
        # later in-place additions must add text
        for c in t.calls_in(f):
            if isinstance(c.func, ast.Attribute) and c.func.attr in ("append", "insert") and c.args:
                ts = t.type_of(c.args[-1], f)
                if any(x[0] in ("seq", "tuple", "map") for x in ts):
                    res.fail(Finding("C19.ENV", f.qname, c, f.loc(c), "%s() appends a non-text element" % k))

    # ---------------- FRAME
    ia = p.func(CS + ".is_app_frame")
    rets = sorted([r for r in t.nodes_in(ia, ast.Return)], key=lambda r: r.lineno)
    fn = P(ia, 1)
    seq = []
    for r in rets:
        lps = [l for l in paths.enclosing_loops(p, r, ia) if isinstance(l, ast.For)]
        src = ctx.expand.expand(lps[0].iter, ia)[0] if lps else None
        val = norm(r.value)
        cond = [norm(c) for c, pol in paths.conditions(p, r, ia) if pol]
        seq.append((src, val, cond))
    want_order = ["IN_APP_EXCLUDE", "IN_APP_INCLUDE", "APP_ROOT", None]
    ok = len(seq) == 4
    st_ = _frame_stages(ctx, ia)
    if st_ is not None:
        # the function read as a sequence of first-match stages (loops, next() over a generator, a first-prefix helper, a loop over
        # (prefixes, flag) pairs): (source, flag) in order, then the final answer
        stages, final = st_
        oks = len(stages) == 3 and "IN_APP_EXCLUDE" in stages[0][0] and stages[0][1] is False and "IN_APP_INCLUDE" in stages[1][0] and stages[1][1] is True \
            and "APP_ROOT" in stages[2][0] and stages[2][1] is True and final == "(False, None)"
        if oks:
            res.ok("C19.FRAME", {"order": "exclude (wins) -> include -> app root -> not an app frame", "stages": [(a[-30:], b) for a, b in stages]})
        else:
            res.fail(Finding("C19.FRAME", ia.qname, "<exclude, include, app root, none>", ia.loc(),
                             "is_app_frame does not test exclude prefixes first, then include prefixes, then the app root, else (False, None): %s then %s" % (stages, final)))
        ok = None
    if ok:
        (s0, v0, c0), (s1, v1, c1), (s2, v2, c2), (s3, v3, c3) = seq
        ok = s0 is not None and s0.endswith("IN_APP_EXCLUDE") and v0.startswith("(False,") and \
            s1 is not None and s1.endswith("IN_APP_INCLUDE") and v1.startswith("(True,") and \
            s2 is None and "APP_ROOT" in v2 and v2.startswith("(True,") and any("APP_ROOT" in c and "startswith" in c for c in c2) and \
            s3 is None and v3 == "(False, None)" and \
            all(any(c.startswith("%s.startswith(" % fn[1:]) for c in cc) for cc in (c0, c1, c2))
    if ok is None:
        pass
    elif ok:
        res.ok("C19.FRAME", {"order": "exclude (wins) -> include -> app root -> not an app frame", "returns": [v for _, v, _ in seq]})
    else:
        res.fail(Finding("C19.FRAME", ia.qname, "<exclude, include, app root, none>", ia.loc(),
                         "is_app_frame does not test exclude prefixes first, then include prefixes, then the app root, else (False, None): %s" % [(s_, v) for s_, v, _ in seq]))
    # the prefix answered is a prefix of the file name *as given*: the short path is cut from that text by the length of the
    # prefix, so the name is compared unchanged (a normalised / resolved / lower-cased copy matches prefixes the text does not have)
    fnp_ia = ia.params[1] if len(ia.params) > 1 else None
    rb_ = [b for k_, b in t.local_bindings(ia, fnp_ia) if k_ != "param"] if fnp_ia else []
    if rb_:
        n_ = rb_[0][1] if isinstance(rb_[0], tuple) else rb_[0]
        res.fail(Finding("C19.FRAME", ia.qname, paths.stmt_of(p, n_) if isinstance(n_, ast.AST) else fnp_ia, ia.loc(n_) if isinstance(n_, ast.AST) else ia.loc(), "is_app_frame replaces the file name it was "
                         "given (`%s`) before matching: the prefix it answers need not be a prefix of the real name, and the short path - the real name cut by that length - is wrong" % (
                             norm(paths.stmt_of(p, n_))[:60] if isinstance(n_, ast.AST) else fnp_ia)))
    else:
        res.ok("C19.FRAME", {"file name matched as given": fnp_ia})
    ps = p.func("deep.processor.frame_collector.FrameCollector.parse_short_name")
    pt = Table(ctx, ps)
    fnp = P(ps, 1)
    cut_rows = good_rows = 0
    for r in pt.rows:
        if r.kind == "return" and isinstance(r.result, ast.Tuple) and isinstance(r.result.elts[0], ast.Subscript):
            cut_rows += 1
            sl = r.result.elts[0]
            if norm(sl.value) == fnp and isinstance(sl.slice, ast.Slice) and sl.slice.upper is None and sl.slice.lower is not None \
                    and isinstance(sl.slice.lower, ast.Call) and norm(sl.slice.lower.func) == "len" \
                    and len(sl.slice.lower.args) == 1 and norm(sl.slice.lower.args[0]).endswith("is_app_frame(%s)[1]" % fnp):
                good_rows += 1
    # on every path that cuts the name, exactly the matched prefix is cut
    good = cut_rows > 0 and good_rows == cut_rows
    if good:
        res.ok("C19.FRAME", {"short path": "filename[len(matched prefix):]"})
    else:
        res.fail(Finding("C19.FRAME", ps.qname, "<filename[len(match):]>", ps.loc(), "the short path is not the file name with exactly the matched prefix removed"))

    # ---------------- ROOT
    st = p.func("deep.start")
    stores = [n for n in t.nodes_in(st, ast.Assign) if isinstance(n.targets[0], ast.Subscript) and norm(n.targets[0].slice) == "'APP_ROOT'"]
    okr = False
    if len(stores) == 1:
        conds = paths.conditions(p, stores[0], st)
        absent = any(isinstance(c, ast.Compare) and norm(c.left) == "'APP_ROOT'" and ((isinstance(c.ops[0], ast.NotIn) and pol) or (isinstance(c.ops[0], ast.In) and not pol)) for c, pol in conds)
        v = stores[0].value
        env_first = isinstance(v, ast.BoolOp) and isinstance(v.op, ast.Or) and "DEEP_APP_ROOT" in norm(v.values[0]) and "inspect.stack()" in norm(v.values[-1])
        if not env_first and isinstance(v, ast.Name):
            # unfolded form: x = getenv(...); if not x: x = <derived>; config['APP_ROOT'] = x
            binds = [b for k, b in t.local_bindings(st, v.id) if k == "assign" and b[1] is not None]
            envb = [b for b in binds if "DEEP_APP_ROOT" in norm(b[1])]
            derb = [b for b in binds if "inspect.stack()" in ctx.expand.expand(b[1], st)[0]]
            if len(binds) == 2 and len(envb) == 1 and len(derb) == 1:
                dconds = [(norm(c), pol) for c, pol in paths.conditions(p, derb[0][0], st)]
                env_first = (("not " + v.id, True) in dconds or (v.id, False) in dconds or ("%s is None" % v.id, True) in dconds) and \
                    not any(v.id in norm(c) for c, pol in paths.conditions(p, envb[0][0], st))
        okr = absent and env_first
    if okr:
        res.ok("C19.ROOT", {"APP_ROOT": norm(stores[0].value)[:100]})
    else:
        res.fail(Finding("C19.ROOT", st.qname, stores[0] if stores else "<config['APP_ROOT'] = ...>", st.loc(), "APP_ROOT is not derived only when absent from the code config with the environment value first"))
    # a value given in code is the caller's for that call: a mutable default of an entry point is one object for every call
    # made without the argument, and what one start writes into it (the resolved APP_ROOT) counts as `given in code` in the next
    from .common import param_mutations
    entry_ = [f_ for f_ in p.functions.values() if f_.module.name in ("deep", "deep.api.deep", "deep.config.config_service", "deep.api")]
    nmd = 0
    for f_ in entry_:
        a_ = f_.node.args
        pos_ = a_.posonlyargs + a_.args
        pairs_ = list(zip(pos_[len(pos_) - len(a_.defaults):], a_.defaults)) + [(k_, d_) for k_, d_ in zip(a_.kwonlyargs, a_.kw_defaults) if d_ is not None]
        for prm_, d_ in pairs_:
            mutable = isinstance(d_, (ast.Dict, ast.List, ast.Set)) or (isinstance(d_, ast.Call) and norm(d_.func) in ("dict", "list", "set", "OrderedDict", "collections.OrderedDict"))
            if not mutable:
                continue
            nmd += 1
            muts_ = param_mutations(ctx, f_, prm_.arg, depth=3)
            kept_ = [c_ for c_ in t.calls_in(f_) if any(isinstance(x_, ast.Name) and x_.id == prm_.arg for x_ in list(c_.args) + [k_.value for k_ in c_.keywords])
                     and (t.resolve_call(c_, f_).ctor or t.resolve_call(c_, f_).repo)]
            if muts_ or kept_:
                n_ = muts_[0][1] if muts_ else kept_[0]
                res.fail(Finding("C19.CHAIN", f_.qname, n_, (muts_[0][0] if muts_ else f_).loc(n_), "`%s` has the mutable default `%s` and the function writes into it / hands it on (`%s`): every call "
                                 "without the argument shares one object, so values resolved by an earlier start are taken as given in code by the next" % (
                                     prm_.arg, norm(d_), norm(n_)[:50])))
    if not nmd:
        res.ok("C19.CHAIN", {"no entry point has a mutable default for its configuration argument": len(entry_)})
    # the classification of a file is worked out from the configuration in force at that hit: nothing about it is kept on the
    # collector's class or module between hits (a per-file memo there answers for an earlier APP_ROOT / include / exclude)
    from .common import process_wide_writes
    fcs_ = [f_ for f_ in p.functions.values() if f_.module.name == "deep.processor.frame_collector"]
    pw_ = process_wide_writes(ctx, fcs_)
    for f_, n_, what_ in pw_[:3]:
        res.fail(Finding("C19.FRAME", f_.qname, n_, f_.loc(n_), "`%s` keeps what was worked out for a file in %s, shared by every collector for the life of the process: after the "
                         "settings change (another APP_ROOT, include / exclude list, a second agent) frames carry the short path and app-frame flag of the old ones" % (norm(n_)[:60], what_)))
    if not pw_:
        res.ok("C19.FRAME", {"the frame collector keeps nothing between hits on its class / module": len(fcs_)})
    from .common import borrow
    borrow(ctx, res, tier, "c02", ("C02.FRAME",), "C19.FRAME", "every frame of a stack is classified by its own file and the configuration, whatever frames stand above it")
    return res


def numeric_uses(ctx: Ctx, key: str):
    """Places where the value of config key `key` is used arithmetically / as a number without conversion."""
    p, t = ctx.prog, ctx.types
    out = []
    seeds = []
    for f in p.functions.values():
        for n in t.nodes_in(f, ast.Attribute):
            if n.attr == key and isinstance(n.ctx, ast.Load):
                seeds.append((f, n))
    seen = set()

    def follow(f, node, depth):
        if depth > 4 or (t.fkey(f), id(node)) in seen:
            return
        seen.add((t.fkey(f), id(node)))
        par = p.parent_of(node)
        # a use behind `isinstance(value, int)` is a use of a number, whatever the setting may also be
        if isinstance(node, ast.Name):
            for c_, pol_ in paths.conditions(p, node, f):
                if pol_ and isinstance(c_, ast.Call) and norm(c_.func) == "isinstance" and len(c_.args) == 2 and norm(c_.args[0]) == node.id \
                        and set(norm(x) for x in (c_.args[1].elts if isinstance(c_.args[1], ast.Tuple) else [c_.args[1]])) <= {"int", "float"}:
                    return
        if isinstance(par, ast.BinOp) and not (isinstance(par.op, ast.Mod) and isinstance(par.left, ast.Constant) and isinstance(par.left.value, str)) \
                and not isinstance(par.op, ast.Add):
            out.append((f, par, "arithmetically in `%s`" % norm(par)[:60]))
        elif isinstance(par, ast.BinOp) and isinstance(par.op, ast.Add) and any(isinstance(x, ast.Constant) and isinstance(x.value, (int, float)) for x in (par.left, par.right)):
            out.append((f, par, "arithmetically in `%s`" % norm(par)[:60]))
        elif isinstance(par, ast.Compare) and any(isinstance(x, ast.Constant) and isinstance(x.value, (int, float)) and not isinstance(x.value, bool) for x in [par.left] + par.comparators) \
                and any(isinstance(o, (ast.Lt, ast.Gt, ast.LtE, ast.GtE)) for o in par.ops):
            out.append((f, par, "in a numeric comparison `%s`" % norm(par)[:60]))
        elif isinstance(par, ast.Call) and node in par.args or isinstance(par, ast.keyword):
            call = par if isinstance(par, ast.Call) else p.parent_of(par)
            tg = t.resolve_call(call, f)
            if any(e in ("builtins.int", "builtins.float", "builtins.str") for e in tg.ext) or any(g.name == "str2bool" for g in tg.repo):
                return
            if any(e in ("time.sleep",) or e.endswith(".wait") for e in tg.ext):
                out.append((f, call, "as a number of seconds in `%s`" % norm(call)[:60]))
            for g in tg.repo:
                for pname, a in t.bind_args(g, call).items():
                    if a is node:
                        follow_param(g, pname, depth + 1)
        elif isinstance(par, ast.Assign) and par.value is node:
            tg_ = par.targets[0]
            if isinstance(tg_, ast.Name):
                for u in t.nodes_in(f, ast.Name):
                    if u.id == tg_.id and isinstance(u.ctx, ast.Load):
                        follow(f, u, depth + 1)
            elif isinstance(tg_, ast.Attribute) and isinstance(tg_.value, ast.Name) and tg_.value.id == "self" and f.cls is not None:
                for lst in f.cls.methods.values():
                    for m in lst:
                        for u in t.nodes_in(m, ast.Attribute):
                            if u.attr == tg_.attr and isinstance(u.value, ast.Name) and u.value.id == "self" and isinstance(u.ctx, ast.Load):
                                follow(m, u, depth + 1)

    def follow_param(g, pname, depth):
        for u in t.nodes_in(g, ast.Name):
            if u.id == pname and isinstance(u.ctx, ast.Load):
                follow(g, u, depth)

    for f, n in seeds:
        follow(f, n, 0)
    uniq = {}
    for f, n, why in out:
        uniq[(f.qname, norm(n))] = (f, n, why)
    return list(uniq.values())
