"""C06.TEXT / C08.TEXT - text that comes out of the traced program is made encodable where the agent produces it.

A protobuf `string` field only takes text that UTF-8 can encode; a Python str can hold lone surrogates (file names
decoded with surrogateescape, data read with errors='surrogatepass', broken JSON escapes). One such character in one
value makes the conversion of the whole snapshot fail. Whether a given run meets such a string is a matter of the
program's data - what is decided here is the structural necessary condition: every piece of text the agent derives
from the program's values (variable values, dictionary keys, failure texts of expressions - the log text is put
together from these) is produced by the one sanitising helper, and that helper cannot return text that does not
encode.
"""
import ast

from .common import Ctx, Finding, Result
from ..index import norm

LENIENT = ("replace", "backslashreplace", "ignore", "xmlcharrefreplace", "namereplace")
VP = "deep.processor.variable_processor"
AC = "deep.processor.context.action_context.ActionContext"


def _made_encodable(e, ctx=None, fi=None, depth=0) -> bool:
    """<text>.encode('utf-8', <lenient>).decode(...) - written out, or through a helper of the repository that returns
    exactly that of its argument"""
    if ctx is not None and fi is not None and isinstance(e, ast.Call) and depth < 3 and not (isinstance(e.func, ast.Attribute) and e.func.attr == "decode"):
        tg = ctx.types.resolve_call(e, fi)
        if tg.repo and not tg.ext:
            rets = [r for g in tg.repo for r in ctx.types.nodes_in(g, ast.Return)]
            return bool(rets) and all(r.value is not None and _made_encodable(r.value, ctx, g, depth + 1) for g in tg.repo for r in ctx.types.nodes_in(g, ast.Return))
        return False
    if not (isinstance(e, ast.Call) and isinstance(e.func, ast.Attribute) and e.func.attr == "decode"):
        return False
    inner = e.func.value
    if not (isinstance(inner, ast.Call) and isinstance(inner.func, ast.Attribute) and inner.func.attr == "encode"):
        return False
    handler = None
    if len(inner.args) >= 2:
        handler = inner.args[1]
    for kw in inner.keywords:
        if kw.arg == "errors":
            handler = kw.value
    return isinstance(handler, ast.Constant) and handler.value in LENIENT


def sanitiser_ok(ctx: Ctx, f):
    """every value safe_str returns was made encodable (directly, or it is a local that only holds such values)"""
    t = ctx.types
    bad = []
    for r in t.nodes_in(f, ast.Return):
        v = r.value
        if v is None:
            bad.append(r)
            continue
        if _made_encodable(v, ctx, f):
            continue
        if isinstance(v, ast.Name):
            bs = [b for k, b in t.local_bindings(f, v.id) if k != "param"]
            if bs and all(isinstance(b, tuple) and b[1] is not None and _made_encodable(b[1], ctx, f) for b in bs):
                continue
        bad.append(r)
    return bad


def _callable_candidates(ctx, fi, pname):
    """functions / lambdas a function-valued parameter can stand for: its default and what the callers pass"""
    t = ctx.types
    out = []
    a = fi.node.args
    pos = a.posonlyargs + a.args
    for arg_, d in zip(pos[len(pos) - len(a.defaults):], a.defaults):
        if arg_.arg == pname:
            out.append((d, fi))
    for cf, call in t.callers.get(t.fkey(fi), []):
        v = t.bind_args(fi, call).get(pname)
        if v is not None:
            out.append((v, cf))
    res = []
    for v, owner in out:
        if isinstance(v, ast.Lambda):
            res.append(("lambda", v, owner))
        elif isinstance(v, ast.Name):
            r = ctx.prog.resolve_name_in_module(owner.module, v.id)
            if r and r[0] == "func":
                res.append(("func", r[1], owner))
            else:
                return None
        else:
            return None
    return res


def encodable(ctx: Ctx, e, fi, san, tn, depth=0, assume=frozenset(), deny=frozenset()):
    """True when expression e is text that encodes whatever the program's values are: constants, numbers, type names,
    text that does not derive from the program's values (configuration), results of the sanitiser, formats, slices and
    pure rearrangements of such pieces."""
    t = ctx.types
    rec = lambda x, f=fi, a=assume: encodable(ctx, x, f, san, tn, depth + 1, a, deny)      # noqa: E731
    if e is None or depth > 8:
        return False
    if isinstance(e, ast.Constant):
        return True
    if isinstance(e, ast.JoinedStr):
        return all(rec(x.value) for x in e.values if isinstance(x, ast.FormattedValue))
    if isinstance(e, ast.BinOp) and isinstance(e.op, ast.Mod) and isinstance(e.left, ast.Constant):
        rs = e.right.elts if isinstance(e.right, ast.Tuple) else [e.right]
        return all(rec(x) for x in rs)
    if isinstance(e, ast.BinOp) and isinstance(e.op, ast.Add):
        return rec(e.left) and rec(e.right)
    if isinstance(e, ast.IfExp):
        return rec(e.body) and rec(e.orelse)
    if isinstance(e, ast.Attribute) and e.attr in ("__name__", "__qualname__", "__module__"):
        return True           # names of classes (trusted: identifiers)
    if isinstance(e, ast.Subscript):
        return rec(e.value)    # a slice / element of encodable text encodes
    if isinstance(e, ast.Call):
        if _made_encodable(e, ctx, fi):
            return True
        if isinstance(e.func, ast.Name) and e.func.id in ("len", "id", "type", "int", "float", "bool", "hash") and not t.local_bindings(fi, e.func.id):
            return True
        if isinstance(e.func, ast.Name) and e.func.id in ("str", "repr", "format") and e.args and not t.local_bindings(fi, e.func.id):
            return rec(e.args[0])
        if isinstance(e.func, ast.Attribute) and e.func.attr in ("strip", "lstrip", "rstrip", "lower", "upper", "replace", "format", "join", "title"):
            return rec(e.func.value) and all(rec(a) for a in e.args)
        tg = t.resolve_call(e, fi)
        if san in tg.repo and len(tg.repo) == 1:
            return True
        if tg.repo and not tg.ext:
            ok = True
            for g in tg.repo:
                b = t.bind_args(g, e)
                good = frozenset(pn for pn, a in b.items() if rec(a))
                for r in t.nodes_in(g, ast.Return):
                    ok = ok and r.value is not None and encodable(ctx, r.value, g, san, tn, depth + 1, good, frozenset(b) - good)
            return ok
        if isinstance(e.func, ast.Name) and any(k == "param" for k, _ in t.local_bindings(fi, e.func.id)):
            cands = _callable_candidates(ctx, fi, e.func.id)
            if not cands:
                return False
            okargs = [rec(a) for a in e.args]
            for kind, c, owner in cands:
                if kind == "lambda":
                    names = [a.arg for a in c.args.args]
                    good = frozenset(n for n, o in zip(names, okargs) if o)
                    if not encodable(ctx, c.body, owner, san, tn, depth + 1, good, frozenset(names) - good):
                        return False
                else:
                    good = frozenset(n for n, o in zip(c.params, okargs) if o)
                    if not all(r.value is not None and encodable(ctx, r.value, c, san, tn, depth + 1, good, frozenset(c.params) - good) for r in t.nodes_in(c, ast.Return)):
                        return False
            return True
        return not tn.tainted(e, fi)
    if isinstance(e, ast.Name):
        if e.id in assume:
            return True
        if e.id in deny:
            return False
        bs = [(k, b) for k, b in t.local_bindings(fi, e.id)]
        if any(k == "except" for k, _ in bs):
            return False      # the text of an exception the program's code raised
        if bs and all(k == "assign" and isinstance(b, tuple) and b[2] is None and b[1] is not None for k, b in bs):
            return all(rec(b[1]) for _, b in bs)
        return not tn.tainted(e, fi)
    if isinstance(e, ast.Attribute):
        return not tn.tainted(e, fi)
    return False


def check(ctx: Ctx, res: Result, rid: str):
    from .common import settrace_entries
    from ..taint import Taint
    p, t = ctx.prog, ctx.types
    tn = ctx._extra.get("text_taint")
    if tn is None:
        tn = ctx._extra["text_taint"] = Taint(p, t, [(f, f.params[3]) for f, _, _ in settrace_entries(ctx) if len(f.params) > 3] +
                                              [(f, f.params[1]) for f, _, _ in settrace_entries(ctx) if len(f.params) > 3])
    san = p.functions.get(VP + ".safe_str")
    if san is None:
        res.fail(Finding(rid, VP, "<safe_str>", "src/deep/processor/variable_processor.py", "the helper that turns a value of the program into text is gone"))
        return
    bad = sanitiser_ok(ctx, san)
    for r in bad:
        res.fail(Finding(rid, san.qname, r, san.loc(r), "`%s` hands out text as the program's value produced it: a string holding a lone surrogate (a file name decoded with "
                         "surrogateescape, broken JSON) cannot be encoded as UTF-8, the protobuf conversion of the whole snapshot fails and the snapshot is dropped" % norm(r)[:60]))
    if not bad:
        res.ok(rid, {"safe_str returns only text made encodable (encode(.., lenient).decode())": len(list(t.nodes_in(san, ast.Return)))})
    # sinks: the text fields of the snapshot model that are filled from the program's values
    n = 0
    var_cls = p.cls("deep.api.tracepoint.eventsnapshot.Variable")
    wr_cls = p.cls("deep.api.tracepoint.eventsnapshot.WatchResult")
    nv_cls = [c for c in p.classes.values() if c.name == "NodeValue" and c.module.name.startswith("deep.processor")]
    sinks = []      # (function, call, parameter name, why)
    for f in p.functions.values():
        if not f.module.name.startswith("deep.processor") or f.module.name.endswith("frame_config"):
            continue
        for c in t.calls_in(f):
            tg = t.resolve_call(c, f)
            for cls_, pnames in ((var_cls, ("value",)), (wr_cls, ("error",)), ) + tuple((k, ("name",)) for k in nv_cls):
                if cls_ in tg.ctor:
                    init = cls_.lookup("__init__")
                    b = t.bind_args(init, c)
                    for pn in pnames:
                        if b.get(pn) is not None and not (isinstance(b[pn], ast.Constant) and b[pn].value is None):
                            sinks.append((f, c, b[pn], "%s.%s" % (cls_.name, pn)))
    for f, c, e, what in sinks:
        n += 1
        # a local that is one element of a tuple returned by a repo function (text, flag = truncate_string(...))
        expr = e
        if isinstance(e, ast.Name):
            bs = [b for k, b in t.local_bindings(f, e.id) if k == "assign"]
            if len(bs) == 1 and isinstance(bs[0], tuple) and bs[0][2] is not None and isinstance(bs[0][1], ast.Call):
                call = bs[0][1]
                tg = t.resolve_call(call, f)
                idx = bs[0][2]
                oks = []
                for g in tg.repo:
                    for r in t.nodes_in(g, ast.Return):
                        if isinstance(r.value, ast.Tuple) and idx < len(r.value.elts):
                            el = r.value.elts[idx]
                            # string[:max] of a parameter: as encodable as the argument
                            if isinstance(el, ast.Subscript) and isinstance(el.value, ast.Name) and el.value.id in g.params:
                                arg = t.bind_args(g, call).get(el.value.id)
                                oks.append(arg is not None and encodable(ctx, arg, f, san, tn))
                            else:
                                oks.append(encodable(ctx, el, g, san, tn))
                        else:
                            oks.append(False)
                if oks and all(oks):
                    res.ok(rid, {what: "cut of encodable text", "at": f.loc(c)})
                    continue
        if encodable(ctx, expr, f, san, tn):
            res.ok(rid, {what: norm(e)[:60], "at": f.loc(c)})
        else:
            res.fail(Finding(rid, f.qname, e, f.loc(e), "%s is filled with `%s`, text taken from the program's value without the sanitising helper: when it holds a character "
                             "UTF-8 cannot encode (a lone surrogate) the whole snapshot fails to convert and is dropped" % (what, norm(e)[:60])))
    res.floor("text fields of the snapshot model filled from program values", n, 5)
