"""C15 deferred work completed exactly once, in its own invocation and thread - see DESIGN.md section 4 (C15)."""
import ast

from .common import is_attach_call, Ctx, Finding, Result, need, term, P, TRUSTED_LOGGING, trace_worker
from .c03 import table_rule
from ..index import norm
from ..dtable import Table, Vars
from .. import paths

TH = "deep.processor.trigger_handler.TriggerHandler"
CC = "deep.processor.context.callback_context.CallbackContext"
TL = "deep.thread_local.ThreadLocal"


def run(ctx: Ctx, tier: str) -> Result:
    res = Result("C15")
    res.explanation = (
        "Shape rules of deferred work: a pending context popped from the per-thread stack is either processed or pushed "
        "back, never both and never twice, and it is registered only after the pending ones were looked at for the same "
        "event; the completion table of CallbackContext.at_location (line-opened: next line/return/exception of the same "
        "file+function; method-opened: return/exception of the same file+function); invocation identity: the match must "
        "depend on the frame of the completing event and on an identity recorded when the context was opened, otherwise "
        "another invocation of a function with the same name completes it; the captured result is the arg of the "
        "completing event; per-thread ownership: the pending store must be per instance and die with its thread "
        "(threading.local), not a shared map keyed by the reusable thread ident.")
    res.trusted = [TRUSTED_LOGGING, "threading.local gives every thread its own attribute namespace, released when the thread ends"]
    res.not_decided = ["ordering of completions against real event streams (generators resuming, exceptions unwinding several frames)",
                       "real thread interleavings"]
    for rid, text in (("C15.ONCE", "popped context processed xor pushed back; registration after processing pending ones"),
                      ("C15.TABLE", "completion table of CallbackContext.at_location"),
                      ("C15.IDENT", "completion matched to the invocation that opened it"),
                      ("C15.RESULT", "captured result is the arg of the completing event; spans closed / snapshot sent once"),
                      ("C15.THREAD", "pending store is per instance and per thread, not inheritable")):
        res.rule(rid, text)
    p, t, g = ctx.prog, ctx.types, ctx.guards
    worker, roles = trace_worker(ctx)

    # ---------------- ONCE
    pcb = [f for f in p.functions.values() if f.cls is worker.cls and f.name.endswith("process_call_backs")]
    need(len(pcb) == 1, "callback processing function not found")
    pcb = pcb[0]
    pops = [c for c in t.calls_in(pcb) if isinstance(c.func, ast.Attribute) and c.func.attr in ("pop", "popleft")]
    cc = p.cls(CC)
    procs = [c for c in t.calls_in(pcb) if cc.lookup("process") in t.resolve_call(c, pcb).repo]
    backs = [c for c in t.calls_in(pcb) if isinstance(c.func, ast.Attribute) and c.func.attr in ("append", "appendleft")]
    ats = [c for c in t.calls_in(pcb) if cc.lookup("at_location") in t.resolve_call(c, pcb).repo]
    ok = len(pops) == 1 and len(procs) == 1 and len(backs) == 1 and len(ats) == 1 and not list(t.nodes_in(pcb, (ast.For, ast.While)))
    if ok:
        st = paths.stmt_of(p, pops[0])
        name = norm(st.targets[0]) if isinstance(st, (ast.Assign,)) else (norm(st.target) if isinstance(st, ast.AnnAssign) else None)
        cp = [(norm(c), pol) for c, pol in paths.conditions(p, procs[0], pcb)]
        cb = [(norm(c), pol) for c, pol in paths.conditions(p, backs[0], pcb)]
        at_txt = norm(ats[0])
        ok = name is not None and norm(procs[0].func.value) == name and backs[0].args and norm(backs[0].args[0]) == name and \
            norm(ats[0].func.value) == name and (at_txt, True) in cp and (at_txt, False) in cb and len(cp) == 1 and len(cb) == 1
    if ok:
        res.ok("C15.ONCE", {"popped context": "processed iff at its location, else pushed back"})
    else:
        res.fail(Finding("C15.ONCE", pcb.qname, "<pop; process xor push back>", pcb.loc(), "a pending context is not `popped once, then processed if at its location, else pushed back` (pops %d, process %d, push back %d)" % (len(pops), len(procs), len(backs))))
    # pending completions are looked at for every event the callback gets: no way out of the callback comes before them
    # (frames that are being traced keep delivering line / return events after the configuration became empty)
    pcalls = [c for c in t.calls_in(worker) if pcb in t.resolve_call(c, worker).repo]
    if pcalls:
        early = [n for n in t.nodes_in(worker, ast.Return) if n.lineno < pcalls[0].lineno]
        if early:
            cnd = [norm(c_) for c_, _ in paths.conditions(p, early[0], worker)]
            res.fail(Finding("C15.ONCE", worker.qname, early[0], worker.loc(early[0]), "the callback returns%s before the pending completions are processed: the return / line event that "
                             "would complete an open span or a deferred snapshot is dropped, the span is never closed and the snapshot never sent" % (
                                 " when `%s`" % cnd[0][:50] if cnd else "")))
        else:
            res.ok("C15.ONCE", {"pending completions processed before any exit of the callback": worker.loc(pcalls[0])})
    else:
        res.fail(Finding("C15.ONCE", worker.qname, "<process pending callbacks>", worker.loc(), "the trace callback does not process the pending completions"))
    # the thread's pending work is dropped only when there is none left
    for f_ in [x for lst in worker.cls.methods.values() for x in lst]:
        for c in t.calls_in(f_):
            if not (isinstance(c.func, ast.Attribute) and c.func.attr == "clear" and any(k.name == "ThreadLocal" for tt in t.type_of(c.func.value, f_) if tt[0] == "inst"
                                                                                          for k in [p.classes.get(tt[1])] if k is not None)):
                continue
            conds = [(norm(cnd), pol) for cnd, pol in paths.conditions(p, c, f_)]
            recv = norm(c.func.value)
            empty = [(cnd, pol) for cnd, pol in conds if (cnd in ("len(%s.value) == 0" % recv, "len(%s.get()) == 0" % recv, "not %s.value" % recv, "not %s.get()" % recv) and pol)
                     or (cnd in ("%s.value" % recv, "%s.get()" % recv, "len(%s.value) > 0" % recv, "len(%s.value) != 0" % recv) and not pol)]
            if empty:
                res.ok("C15.ONCE", {"pending work cleared only when none is left": f_.loc(c)})
            else:
                res.fail(Finding("C15.ONCE", f_.qname, c, f_.loc(c), "the thread's pending contexts are discarded when `%s`, not only when none is left: spans and deferred "
                                 "snapshots still open on that thread are never completed" % (" and ".join(("" if pol else "not ") + cnd for cnd, pol in conds) or "always")))
    # stack discipline: the pending contexts of a thread nest like its calls, so the end that is popped, the end a
    # non-matching context is put back to and the end new contexts are registered at must be the same end
    regs0 = [c for c in t.calls_in(worker) if isinstance(c.func, ast.Attribute) and c.func.attr in ("append", "appendleft", "insert")
             and c.args and isinstance(c.args[0], ast.Call) and cc in t.resolve_call(c.args[0], worker).ctor]
    if pops and backs and regs0:
        def end(call):
            a_ = call.func.attr
            if a_ in ("pop",):
                return "left" if (call.args and norm(call.args[0]) == "0") else "right"
            if a_ in ("popleft", "appendleft"):
                return "left"
            if a_ == "insert":
                return "left" if (call.args and norm(call.args[0]) == "0") else "middle"
            return "right"
        ends = {"pop": end(pops[0]), "push back": end(backs[0]), "register": end(regs0[0])}
        if len(set(ends.values())) == 1:
            res.ok("C15.ONCE", {"pending contexts form a stack": ends})
        else:
            bad_ = backs[0] if ends["push back"] != ends["pop"] else regs0[0]
            f_ = pcb if bad_ is backs[0] else worker
            res.fail(Finding("C15.ONCE", f_.qname, bad_, f_.loc(bad_),
                             "pending contexts are popped from the %s end but %s: with nested openings the context examined when the inner invocation "
                             "ends is the enclosing one, so the inner span/capture is never completed" % (
                                 ends["pop"], "put back at the %s end" % ends["push back"] if bad_ is backs[0] else "registered at the %s end" % ends["register"])))
    if ats:
        F, E = "@" + roles["frame"], "@" + roles["event"]
        b = t.bind_args(cc.lookup("at_location"), ats[0])
        callsite = [c for c in t.calls_in(worker) if pcb in t.resolve_call(c, worker).repo]
        need(len(callsite) == 1, "worker: callback processing call not found")
        bm = t.bind_args(pcb, callsite[0])
        want = {"event": [E], "file": ["os.path.basename(%s.f_code.co_filename)" % F], "function_name": ["%s.f_code.co_name" % F], "frame": [F]}
        good = True
        for role, w in want.items():
            a = b.get(role)
            e1 = ctx.expand.expand(a, pcb) if a is not None else []
            got = [x for x in ctx.expand.expand(bm[e1[0][1:]], worker) if not x.startswith("<loop:")] if len(e1) == 1 and e1[0].startswith("@") and e1[0][1:] in bm else e1
            if got != w:
                good = False
                res.fail(Finding("C15.ONCE", pcb.qname, ats[0], pcb.loc(ats[0]), "the pending context is matched against `%s` for %s, expected %s of the current event" % (got, role, w[0])))
        if good:
            res.ok("C15.ONCE", {"matched against the current event's": list(want)})
        conds = [(norm(c), pol) for c, pol in paths.conditions(p, callsite[0], worker)]
        evs = [c for c, pol in conds if pol and "'line'" in c and "'return'" in c and "'exception'" in c]
        if not evs:
            # the events may be named by a constant: `event in CALLBACK_EVENTS`
            from .common import fold_strings
            for c_, pol_ in paths.conditions(p, callsite[0], worker):
                for n_ in ast.walk(c_):
                    if pol_ and isinstance(n_, ast.Compare) and len(n_.ops) == 1 and isinstance(n_.ops[0], ast.In) and norm(n_.left) == roles["event"]:
                        fs_ = fold_strings(ctx, n_.comparators[0], worker)
                        if fs_ is not None and {"line", "return", "exception"} <= fs_:
                            evs.append(norm(n_))
        # whether a thread has pending work is that thread's own state: nothing the whole handler shares (a flag any thread sets
        # and clears) stands in front of the per-thread test
        shared_ = []
        for c_, pol_ in paths.conditions(p, callsite[0], worker):
            for a_ in ast.walk(c_):
                if isinstance(a_, ast.Attribute) and isinstance(a_.value, ast.Name) and a_.value.id == "self" and isinstance(a_.ctx, ast.Load) and worker.cls is not None:
                    if any(ty[0] == "inst" and ty[1].endswith("ThreadLocal") for ty in t.type_of(a_, worker)):
                        continue
                    late = [sf for sf, v_, _ in t.field_stores(worker.cls, a_.attr) if sf.name != "__init__"]
                    if late:
                        shared_.append((a_, late[0]))
        if shared_:
            res.fail(Finding("C15.ONCE", worker.qname, shared_[0][0], worker.loc(shared_[0][0]), "whether pending work is examined also depends on `%s`, a field of the handler that every "
                             "thread shares and %s rewrites: a thread that finishes its work switches the examination off for a thread that still has some (its span is never "
                             "closed, its snapshot never sent)" % (norm(shared_[0][0]), shared_[0][1].name)))
        elif evs and any("is_set" in c for c, pol in conds if pol):
            res.ok("C15.ONCE", {"pending work looked at on": "line/return/exception events when something is pending"})
        else:
            res.fail(Finding("C15.ONCE", worker.qname, callsite[0], worker.loc(callsite[0]), "pending work is not examined on every line/return/exception event of a thread that has some: %s" % conds))
        regf, regs, reg_anchor = worker, [c for c in t.calls_in(worker) if cc in t.resolve_call(c, worker).ctor], None
        if not regs:
            for c0 in t.calls_in(worker):
                for x in t.resolve_call(c0, worker).repo:
                    if x.cls is worker.cls and x is not pcb:
                        rr = [c for c in t.calls_in(x) if cc in t.resolve_call(c, x).ctor]
                        if rr:
                            regf, regs, reg_anchor = x, rr, c0
        anchor_node = reg_anchor if reg_anchor is not None else (regs[0] if regs else None)
        if len(regs) == 1 and anchor_node.lineno > callsite[0].lineno:
            res.ok("C15.ONCE", {"registered after pending work was examined (not completed by its own event)": regf.loc(regs[0])})
        else:
            res.fail(Finding("C15.ONCE", worker.qname, regs[0] if regs else "<CallbackContext(...)>", worker.loc(), "new deferred work is registered before the pending work of this event is examined: it can be completed by the event that opened it"))
        if len(regs) == 1:
            rb = t.bind_args(cc.lookup("__init__"), regs[0])
            # the constructor's parameters by position (event, file, line, function, callbacks), whatever they are called
            cip = cc.lookup("__init__").params
            canon_ = dict(zip(cip[1:6], ("event", "filename", "line", "name", "callbacks")))
            exp = {canon_.get(k, k): ctx.expand.expand(v, regf) for k, v in rb.items()}
            if regf is not worker:
                # translate the helper's parameters back to the worker's arguments
                hb = t.bind_args(regf, reg_anchor)
                tr_ = {}
                for k, alts in exp.items():
                    out_ = []
                    for x in alts:
                        if x.startswith("@") and x[1:] in hb:
                            out_ += ctx.expand.expand(hb[x[1:]], worker)
                        elif x.startswith("@") and "." in x and x[1:].split(".", 1)[0] in hb:
                            base_, rest_ = x[1:].split(".", 1)
                            out_ += [y + "." + rest_ for y in ctx.expand.expand(hb[base_], worker)]
                        else:
                            out_.append(x)
                    tr_[k] = out_
                exp = tr_
            okr = [x for x in exp.get("event", []) if not x.startswith("<loop")] == [E] and exp.get("filename") == ["os.path.basename(%s.f_code.co_filename)" % F] \
                and exp.get("name") == ["%s.f_code.co_name" % F]
            cbs = exp.get("callbacks", [])
            if okr and cbs and cbs[0].endswith(".callbacks"):
                res.ok("C15.ONCE", {"opened with the triggering event's file/function and the hit's callbacks": True})
            else:
                res.fail(Finding("C15.ONCE", worker.qname, regs[0], worker.loc(regs[0]), "the deferred context is not opened with the triggering event, file and function and the callbacks of this hit: %s" % exp))
    cp_ = cc.lookup("process")
    inner = [c for c in t.calls_in(cp_) if isinstance(c.func, ast.Attribute) and c.func.attr == "process"]
    lps = [l for l in t.nodes_in(cp_, ast.For)]
    if len(inner) == 1 and len(lps) == 1 and norm(inner[0].func.value) == norm(lps[0].target) and norm(lps[0].iter).endswith("callbacks") \
            and not [n for n in ast.walk(lps[0]) if isinstance(n, (ast.Break, ast.Return))]:
        res.ok("C15.ONCE", {"every callback of the context runs once": cp_.loc(inner[0])})
    else:
        res.fail(Finding("C15.ONCE", cp_.qname, "<for callback in callbacks: callback.process(...)>", cp_.loc(), "completing a context does not run each of its callbacks exactly once"))

    # every opened span / deferred snapshot is handed to exactly one result (-> one callback): results whose process()
    # yields a callback are attached outside any loop, at most once per run of the action
    n_att = 0
    for cls_ in p.classes.values():
        proc_ = cls_.methods.get("process", [])
        if not proc_ or not any(k.qname.endswith("action_results.ActionResult") for k in cls_.mro):
            continue
        yields_cb = any(r.value is not None and not (isinstance(r.value, ast.Constant) and r.value.value is None)
                        for f_ in proc_ for r in t.nodes_in(f_, ast.Return))
        if not yields_cb:
            continue
        for f_ in p.functions.values():
            for c in t.calls_in(f_):
                if not (is_attach_call(ctx, c, f_) and c.args) or (c.func.attr != "attach_result" and f_.name == c.func.attr):
                    continue
                made = c.args[0]
                if isinstance(made, ast.Name):
                    bs = [b for k, b in t.local_bindings(f_, made.id) if k == "assign"]
                    made = bs[0][1] if len(bs) == 1 else made
                if not (isinstance(made, ast.Call) and cls_ in t.resolve_call(made, f_).ctor):
                    continue
                n_att += 1
                lps_ = paths.enclosing_loops(p, c, f_)
                others = [c2 for c2 in t.calls_in(f_) if c2 is not c and is_attach_call(ctx, c2, f_) and c2.args
                          and norm(c2.args[0]) == norm(c.args[0])]
                if lps_ or others:
                    res.fail(Finding("C15.ONCE", f_.qname, c, f_.loc(c), "a %s is attached %s: the same spans / snapshot end up in several results, so each is "
                                     "completed more than once" % (cls_.name, "inside a loop" if lps_ else "more than once")))
                else:
                    res.ok("C15.ONCE", {"%s attached once per action" % cls_.name: f_.loc(c)})
    res.floor("deferred results attached", n_att, 2)

    # completing a span result closes every span it holds
    sac = p.classes.get("deep.processor.context.span_action.SpanActionCallback")
    need(sac is not None, "SpanActionCallback not found")
    sproc = sac.lookup("process")
    closes = [c for c in t.calls_in(sproc) if isinstance(c.func, ast.Attribute) and c.func.attr == "close"]
    okcl = False
    if len(closes) == 1:
        lps_ = [l for l in paths.enclosing_loops(p, closes[0], sproc) if isinstance(l, ast.For)]
        okcl = len(lps_) == 1 and norm(lps_[0].iter) in ("self.__spans", "list(self.__spans)", "reversed(self.__spans)") and norm(closes[0].func.value) == norm(lps_[0].target) \
            and not paths.enclosing_conditions(p, closes[0], sproc) and not [n for n in ast.walk(lps_[0]) if isinstance(n, (ast.Break, ast.Return))]
        st_ = t.field_stores(sac, "__spans")
        okcl = okcl and bool(st_) and all(sf.name == "__init__" and isinstance(v, ast.Name) and v.id == sf.params[1] for sf, v, _ in st_)
    if okcl:
        res.ok("C15.ONCE", {"every span of the result closed once": sproc.loc(closes[0])})
    else:
        res.fail(Finding("C15.ONCE", sproc.qname, closes[0] if closes else "<for span in spans: span.close()>", sproc.loc(), "completing a span result does not close each of its spans exactly once"))
    # only real callbacks are registered for later: a result without deferred work (None) is not queued
    tcx = p.func("deep.processor.context.trigger_context.TriggerContext.__exit__")
    apps_ = [c for c in t.calls_in(tcx) if isinstance(c.func, ast.Attribute) and c.func.attr == "append" and norm(c.func.value).endswith("callbacks")]
    for c in apps_:
        a0 = norm(c.args[0]) if c.args else ""
        cs_ = [(norm(cnd), pol) for cnd, pol in paths.conditions(p, c, tcx)]
        if ("%s is not None" % a0, True) in cs_ or ("%s is None" % a0, False) in cs_ or (a0, True) in cs_:
            res.ok("C15.ONCE", {"callback queued only when there is one": tcx.loc(c)})
        else:
            res.fail(Finding("C15.ONCE", tcx.qname, c, tcx.loc(c), "the result of processing an action result is queued as a callback without the `is not None` test: a None "
                             "entry makes the completion of the context fail, the callbacks behind it (span close, deferred snapshot) never run"))
    res.floor("callback registrations in the trigger context", len(apps_), 1)
    # a snapshot is deferred exactly for the capture stages
    isd = p.func("deep.processor.context.snapshot_action.SnapshotActionContext._is_deferred")
    dtb = Table(ctx, isd)
    stg = [k for k in dtb.vars.enums if "stage" in k.lower()]
    if len(stg) == 1:
        SG = stg[0]
        drv = Vars()
        for v_ in ("line_capture", "method_capture", "line_start", "method_start", "line_end", "method_end", None):
            drv.enum(SG, v_)

        def dref(w):
            return w.enum[SG] in ("line_capture", "method_capture")
        table_rule(res, "C15.TABLE", dtb, drv, dref, "snapshot deferred iff stage is line_capture or method_capture")
    else:
        res.fail(Finding("C15.TABLE", isd.qname, "<stage>", isd.loc(), "_is_deferred does not decide on the configured stage"))

    # ---------------- TABLE
    al = cc.lookup("at_location")
    tb = Table(ctx, al)
    EV, FL, FN = P(al, 1), P(al, 2), P(al, 4)
    OEV, OFL, OFN = term(ctx, al, "self._CallbackContext__event") if False else "@self._CallbackContext__event", "@self._CallbackContext__filename", "@self._CallbackContext__function_name"
    rv = Vars()
    for e in ("line", "call", "return", "exception"):
        rv.enum(EV, e)
    rv.enum(OEV, "line"); rv.enum(OEV, "call")
    rv.rel(FL, OFL, False); rv.rel(FN, OFN, False)

    def ref(w):
        if w.relation(FL, OFL) != "EQ" or w.relation(FN, OFN) != "EQ":
            return False
        ev = w.enum[EV]
        if not isinstance(ev, str):
            return lambda got: True
        if w.enum[OEV] == "line":
            if ev == "call":
                return lambda got: True      # not delivered to the callback processing
            return True
        return ev in ("return", "exception")
    table_rule(res, "C15.TABLE", tb, rv, ref, "line-opened: next line/return/exception of the same file+function; otherwise return/exception of it")
    init = cc.lookup("__init__")
    for fld, pi in (("__event", 1), ("__filename", 2), ("__function_name", 4)):
        st = t.field_stores(cc, fld)
        if st and all(sf is init and norm(v) == init.params[pi] for sf, v, _ in st):
            res.ok("C15.TABLE", {fld: "constructor parameter %s" % init.params[pi]})
        else:
            res.fail(Finding("C15.TABLE", init.qname, fld, init.loc(), "the opening %s of a deferred context is not stored from constructor parameter %d" % (fld.strip("_"), pi)))

    # ---------------- IDENT
    frame_param = al.params[5] if len(al.params) > 5 else None
    uses_frame = frame_param is not None and any(isinstance(n, ast.Name) and n.id == frame_param for n in t.nodes_in(al, ast.Name))
    helper_uses = False
    for c in t.calls_in(al):
        for a in c.args:
            if isinstance(a, ast.Name) and a.id == frame_param:
                helper_uses = True
    identity_fields = [a for a in ("frame", "invocation", "depth") if any(a in k[1] for k in t._attr_store_index() if k[0] == CC)]
    if uses_frame and identity_fields:
        res.ok("C15.IDENT", {"at_location depends on the completing frame": True, "identity recorded at open": identity_fields})
    else:
        res.fail(Finding("C15.IDENT", al.qname, "<frame identity>", al.loc(),
                         "a pending context is matched by file and function name only (the `frame` argument is not used and no identity of the opening "
                         "invocation is recorded): under recursion, or with two functions of the same name in one file, another invocation's "
                         "return completes it with the wrong result"))

    # ---------------- RESULT
    dc = p.func("deep.processor.context.snapshot_action.DeferredSnapshotActionCallback.process")
    caps = [c for c in t.calls_in(dc) if any(x.name == "process_capture_variable" for x in t.resolve_call(c, dc).repo)]
    pushes = [c for c in t.calls_in(dc) if any(x.name == "push_snapshot" for x in t.resolve_call(c, dc).repo)]
    from .common import fold_strings

    def _ends(c_):
        if "'return'" in norm(c_) and "'exception'" in norm(c_):
            return True
        return any(isinstance(n_, ast.Compare) and len(n_.ops) == 1 and isinstance(n_.ops[0], ast.In) and
                   (fold_strings(ctx, n_.comparators[0], dc) or set()) >= {"return", "exception"} for n_ in ast.walk(c_))
    okc = len(caps) == 1 and [norm(a) for a in caps[0].args] == [dc.params[2], dc.params[4]] and \
        any(pol and _ends(c) for c, pol in paths.conditions(p, caps[0], dc))
    if okc:
        res.ok("C15.RESULT", {"captured": "(event, arg) of the completing event"})
    else:
        res.fail(Finding("C15.RESULT", dc.qname, caps[0] if caps else "<process_capture_variable(event, arg)>", dc.loc(), "the deferred snapshot does not capture the (event, arg) of the completing return/exception event"))
    if len(pushes) == 1 and not paths.conditions(p, pushes[0], dc) and not paths.enclosing_loops(p, pushes[0], dc) and \
            (not caps or pushes[0].lineno > caps[0].lineno):
        res.ok("C15.RESULT", {"deferred snapshot sent exactly once, after the capture": dc.loc(pushes[0])})
    else:
        res.fail(Finding("C15.RESULT", dc.qname, "<push_snapshot(snapshot)>", dc.loc(), "the deferred snapshot is not sent exactly once after its result was captured"))
    args_ok = True
    cpc = [c for c in t.calls_in(cp_) if isinstance(c.func, ast.Attribute) and c.func.attr == "process"]
    if cpc and [norm(a) for a in cpc[0].args] == cp_.params[1:5]:
        pc_call = procs[0] if procs else None
        if pc_call is not None:
            bb = t.bind_args(cc.lookup("process"), pc_call)
            ev_a = ctx.expand.expand(bb.get("event"), pcb) if "event" in bb else []
            arg_a = ctx.expand.expand(bb.get("arg"), pcb) if "arg" in bb else []
            args_ok = bool(ev_a) and bool(arg_a) and ev_a[0].startswith("@") and arg_a[0].startswith("@")
    else:
        args_ok = False
    if args_ok:
        res.ok("C15.RESULT", {"event/arg forwarded unchanged to every callback": True})
    else:
        res.fail(Finding("C15.RESULT", cp_.qname, "<callback.process(ctx, event, frame, arg)>", cp_.loc(), "the completing event and arg are not forwarded unchanged to the callbacks"))
    sc = p.func("deep.processor.context.span_action.SpanActionCallback.process")
    closes = [c for c in t.calls_in(sc) if isinstance(c.func, ast.Attribute) and c.func.attr == "close"]
    lps = [l for l in t.nodes_in(sc, ast.For)]
    if len(closes) == 1 and len(lps) == 1 and norm(closes[0].func.value) == norm(lps[0].target) and not [n for n in ast.walk(lps[0]) if isinstance(n, (ast.Break, ast.Return))]:
        res.ok("C15.RESULT", {"every span closed once": sc.loc(closes[0])})
    else:
        res.fail(Finding("C15.RESULT", sc.qname, "<for span in spans: span.close()>", sc.loc(), "completing a span tracepoint does not close every opened span exactly once"))

    # ---------------- THREAD
    tl = p.cls(TL)
    cbs_field = None
    for sf, v, ann in t.field_stores(worker.cls, "_callbacks"):
        if isinstance(v, ast.Call) and tl in t.resolve_call(v, sf).ctor and sf.name == "__init__":
            cbs_field = v
    if cbs_field is not None:
        res.ok("C15.THREAD", {"pending store created per handler": "ThreadLocal(...) in TriggerHandler.__init__"})
        # what a thread starts with holds every opening until its end: an unbounded deque / list (a bounded one drops the
        # outermost pending context when the nesting is deeper than its bound)
        prov = cbs_field.args[0] if cbs_field.args else next((k.value for k in cbs_field.keywords), None)
        made = prov.body if isinstance(prov, ast.Lambda) else prov
        if isinstance(made, (ast.Name, ast.Attribute)) and norm(made) not in ("deque", "list", "collections.deque"):
            # a named provider of the repository: what its single return makes
            for ty in t.type_of(made, worker.cls.lookup("__init__")):
                if ty[0] in ("func", "bound") and ty[1] in p.functions:
                    rets_ = [r for r in t.nodes_in(p.functions[ty[1]], ast.Return) if r.value is not None]
                    if len(rets_) == 1:
                        made = rets_[0].value
        unbounded = (isinstance(made, ast.Call) and norm(made.func) in ("deque", "collections.deque", "list") and not made.keywords and len(made.args) <= 1) or \
            (isinstance(made, ast.List) and not made.elts) or (isinstance(made, ast.Name) and made.id in ("deque", "list"))
        if unbounded:
            res.ok("C15.ONCE", {"pending contexts kept in an unbounded stack": norm(made)})
        else:
            res.fail(Finding("C15.ONCE", worker.cls.qname + ".__init__", cbs_field, worker.module.relpath, "the per-thread stack of pending contexts is made by `%s`, not an unbounded deque / list: "
                             "with more openings pending than it holds (deep recursion under a method span / capture) the outermost ones are dropped and never completed" % (
                                 norm(made)[:60] if made is not None else "?")))
    else:
        res.fail(Finding("C15.THREAD", worker.cls.qname, "<self._callbacks = ThreadLocal(...)>", worker.module.relpath, "the pending callbacks are not kept in a per-handler ThreadLocal"))
    class_level = [k for k, v in tl.class_attrs.items() if isinstance(v, (ast.Dict, ast.List, ast.Set)) or (isinstance(v, ast.Call) and norm(v.func) in ("dict", "list", "set", "defaultdict"))]
    store_fields = {}
    for (cq, attr), lst in t._attr_store_index().items():
        if cq == TL:
            for sf, v, _ in lst:
                if v is not None:
                    store_fields.setdefault(attr, []).append((sf, v))
    local_store = [a for a, lst in store_fields.items() if all(sf.name == "__init__" and isinstance(v, ast.Call) and "threading.local" in t.resolve_call(v, sf).ext for sf, v in lst)]
    ident_keyed = [n for f in [x for lst in tl.methods.values() for x in lst] for n in t.nodes_in(f, ast.Attribute) if n.attr in ("ident", "native_id")]
    # the initial value of a thread must be made for that thread: the provider is called inside get(), per absent slot
    gt = tl.lookup("get")
    local_fields = set()
    for (cq, attr), lst_ in t._attr_store_index().items():
        if cq == TL and any(v_ is not None and isinstance(v_, ast.Call) and "threading.local" in t.resolve_call(v_, sf_).ext for sf_, v_, _ in lst_):
            local_fields.add(attr)
    slot_stores = [n for n in t.nodes_in(gt, ast.Assign) if isinstance(n.targets[0], ast.Attribute) and isinstance(n.targets[0].value, ast.Attribute)
                   and tl.mangle(n.targets[0].value.attr) in local_fields]
    fresh = False
    for n in slot_stores:
        v = n.value
        if isinstance(v, ast.Call) and norm(v.func).endswith("default_provider"):
            fresh = True
        elif isinstance(v, ast.Name):
            # nearest preceding assignment of that name in the same block
            pos = paths.block_position(p, n)
            prev = [x for x in getattr(pos[0], pos[1])[:pos[2]] if isinstance(x, ast.Assign) and norm(x.targets[0]) == v.id] if pos else []
            if prev and isinstance(prev[-1].value, ast.Call) and norm(prev[-1].value.func).endswith("default_provider"):
                fresh = True
    prov_calls = [c for c in t.calls_in(gt) if norm(c.func).endswith("default_provider")]
    if slot_stores and fresh and prov_calls:
        res.ok("C15.THREAD", {"default made per thread": norm(prov_calls[0])})
    else:
        res.fail(Finding("C15.THREAD", gt.qname, slot_stores[0] if slot_stores else "<slot = default_provider()>", gt.loc(),
                         "the value a thread starts with is not produced by calling the provider for that thread (one object is handed to every "
                         "thread): all threads push and pop the same stack of pending work"))
    if class_level:
        res.fail(Finding("C15.THREAD", TL, class_level[0], tl.module.relpath,
                         "the per-thread values live in a class-level container shared by every ThreadLocal instance: the pending work of two handlers is mixed"))
    if ident_keyed:
        f_ = t.p.owner_of(ident_keyed[0])
        res.fail(Finding("C15.THREAD", f_.qname if f_ else TL, ident_keyed[0], tl.module.relpath,
                         "per-thread values are keyed by the thread ident, which the OS reuses: what a finished thread left pending is inherited by a later thread"))
    if not class_level and not ident_keyed and local_store:
        res.ok("C15.THREAD", {"per instance threading.local store": local_store})
    elif not class_level and not ident_keyed:
        res.fail(Finding("C15.THREAD", TL, "<threading.local()>", tl.module.relpath, "the per-thread store is not a per-instance threading.local"))
    from .common import borrow
    borrow(ctx, res, tier, "c20", ("C20.ISO",), "C15.ISOLATE", "a failing result of the same hit does not keep the deferred work of the others from being registered / completed")
    # ThreadLocal answers per-thread questions from the thread's own store only: no other instance field is written after
    # construction (such a field is shared by all threads: one thread clearing it hides the pending work of the others)
    tlc = p.cls("deep.thread_local.ThreadLocal")
    shared_ = []
    for (cq, attr), lst_ in sorted(t._attr_store_index().items()):
        if cq != tlc.qname:
            continue
        for sf, v, _ in lst_:
            if sf.name != "__init__":
                shared_.append((sf, v, attr))
    for sf, v, attr in shared_:
        res.fail(Finding("C15.THREAD", sf.qname, paths.stmt_of(p, v) if v is not None else attr, sf.loc(v) if v is not None else sf.loc(),
                         "ThreadLocal.%s is an instance field written by %s: it is shared by all threads, so one thread changes what another thread sees "
                         "(pending spans / captures of the other thread are skipped or completed late)" % (attr, sf.name)))
    if not shared_:
        res.ok("C15.THREAD", {"ThreadLocal keeps no cross-thread state besides its store": True})
    # every callback of a closing event is run: the list of callbacks (and the per-thread queue) is not changed by the loop that
    # walks it - removing the finished callback makes the iterator skip the one after it (its span is never closed)
    from .common import mutated_while_walked
    scope_m = [f_ for f_ in p.functions.values() if f_.module.name in ("deep.processor.context.callback_context", "deep.processor.trigger_handler",
                                                                       "deep.processor.context.trigger_context", "deep.processor.context.span_action")]
    mw = mutated_while_walked(ctx, scope_m)
    for f_, lp_, c_ in mw[:3]:
        res.fail(Finding("C15.ONCE", f_.qname, c_, f_.loc(c_), "`%s` changes the collection the loop `for %s in %s` is walking: the element after the current one is skipped - of two "
                         "callbacks due at one event only one is completed" % (norm(c_)[:50], norm(lp_.target), norm(lp_.iter)[:40])))
    if not mw:
        res.ok("C15.ONCE", {"no loop over callbacks / results changes what it walks": len(scope_m)})
    return res
