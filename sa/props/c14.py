"""C14 lifecycle - see DESIGN.md section 4 (C14)."""
import ast

from .common import Ctx, Finding, Result, need, TRUSTED_LOGGING, settrace_entries
from ..index import norm
from .. import paths

DEEP = "deep.api.deep.Deep"


def settrace_calls(ctx: Ctx):
    out = []
    for fi in ctx.prog.functions.values():
        for call in ctx.types.calls_in(fi):
            tg = ctx.types.resolve_call(call, fi)
            for e in tg.ext:
                if e in ("sys.settrace", "threading.settrace"):
                    out.append((fi, call, e))
    return out


def mentions_attr(ctx: Ctx, test: ast.expr, fi, attr_name: str) -> bool:
    for n in ast.walk(test):
        if isinstance(n, ast.Attribute) and n.attr == attr_name:
            return True
    return False


def cond_polarity(test: ast.expr, pol: bool, pred) -> object:
    """Truth value that (test, pol) implies for the sub-expression satisfying pred: True/False/None."""
    if pred(test):
        return pol
    if isinstance(test, ast.UnaryOp) and isinstance(test.op, ast.Not):
        r = cond_polarity(test.operand, not pol, pred)
        return r
    if isinstance(test, ast.BoolOp):
        if isinstance(test.op, ast.And) and pol:
            for v in test.values:
                r = cond_polarity(v, True, pred)
                if r is not None:
                    return r
        if isinstance(test.op, ast.Or) and not pol:
            for v in test.values:
                r = cond_polarity(v, False, pred)
                if r is not None:
                    return r
    return None


def run(ctx: Ctx, tier: str) -> Result:
    res = Result("C14")
    res.explanation = (
        "Lifecycle shape rules: (A) every effect of Deep.start is under `not started`; (B) every "
        "sys/threading.settrace call is control-dependent on tracing being enabled (NO_TRACE false, or a flag "
        "that is only set on the installing path); (C) the restore calls pass the attributes saved from "
        "sys.gettrace()/threading.gettrace() before installation, sys to sys and threading to threading; "
        "(D) in Deep.shutdown a failing step never skips a later step (each step individually contained, or "
        "later steps in finally) and the started flag is cleared; (E) poll shutdown stops the timer, and the "
        "timer sets its stop event before joining.")
    res.trusted = [TRUSTED_LOGGING, "sys.settrace/threading.settrace/gettrace do not raise"]
    res.not_decided = ["already-running threads keep their trace function (CPython semantics)",
                       "sys.settrace acts on the calling thread only: a shutdown() called from another thread than start() cannot put the starting thread's own hook back (CPython < 3.12 has no settrace_all_threads)",
                       "timer-thread liveness / join timing"]
    for rid, text in (("C14.A", "start effects only when not started"),
                      ("C14.B", "settrace only when tracing enabled"),
                      ("C14.C", "restore exactly what was saved (order, sys/threading pairing)"),
                      ("C14.D", "a failing shutdown step never skips a later one"),
                      ("C14.E", "poll shutdown stops timer; stop event set before join")):
        res.rule(rid, text)
    p, t, g = ctx.prog, ctx.types, ctx.guards

    # ---------------- A
    start = p.func(DEEP + ".start")
    shutdown = p.func(DEEP + ".shutdown")
    started_stores = [n for n in t.nodes_in(start, ast.Assign)
                      if any(isinstance(x, ast.Attribute) and x.attr == "started" for x in n.targets)]
    need(started_stores, "Deep.start: no store to the started flag")
    if all(isinstance(s.value, ast.Constant) and s.value.value is True for s in started_stores):
        res.ok("C14.A", {"started set True in start": [start.loc(s) for s in started_stores]})
    else:
        res.fail(Finding("C14.A", start.qname, started_stores[0], start.loc(started_stores[0]),
                         "start does not set the started flag to True"))
    ncalls = 0
    for call in t.calls_in(start):
        ncalls += 1
        conds = paths.conditions(p, call, start)
        ok = any(cond_polarity(test, pol, lambda e: isinstance(e, ast.Attribute) and e.attr == "started") is False
                 for test, pol in conds)
        if ok:
            res.ok("C14.A")
        else:
            res.fail(Finding("C14.A", start.qname, call, start.loc(call),
                             "effect in Deep.start not guarded by the started test: a repeated start repeats it"))
    res.floor("calls in Deep.start", ncalls, 4)

    # ---------------- B / C
    sc = settrace_calls(ctx)
    res.floor("settrace call sites", len(sc), 2)
    entries = {f.qname for f, _, _ in settrace_entries(ctx)}
    installs = [(fi, c, e) for fi, c, e in sc if any(
        tt[0] in ("bound", "func") for tt in t.type_of(c.args[0], fi))] if sc else []
    restores = [(fi, c, e) for fi, c, e in sc if (fi, c, e) not in installs]
    res.analysed["install sites"] = len(installs)
    res.analysed["restore sites"] = len(restores)
    need(installs, "no settrace install site found")
    for api_ in ("sys.settrace", "threading.settrace"):
        if not any(e == api_ for _, _, e in installs):
            res.fail(Finding("C14.C", installs[0][0].qname, "<%s(self.trace_call)>" % api_, installs[0][0].loc(), "start does not install the hook through %s" % api_))
        if any(e == api_ for _, _, e in installs) and not any(e == api_ for _, _, e in restores):
            res.fail(Finding("C14.C", installs[0][0].qname, "<%s(saved hook)>" % api_, installs[0][0].loc(), "the hook installed through %s is never put back: after shutdown the "
                             "agent's trace function stays installed instead of the one that was present before start" % api_))

    def enabled_guard(fi, call):
        """settrace call is control dependent on tracing being enabled."""
        for test, pol in paths.conditions(p, call, fi):
            if cond_polarity(test, pol, lambda e: isinstance(e, ast.Attribute) and e.attr == "NO_TRACE") is False:
                return "NO_TRACE is false"
            # flag set only on the installing path
            for n in ast.walk(test):
                if isinstance(n, ast.Attribute) and isinstance(n.value, ast.Name) and n.value.id == "self" \
                        and fi.cls is not None:
                    val = cond_polarity(test, pol, lambda e, n=n: e is n)
                    if val is not True:
                        continue
                    stores = t.field_stores(fi.cls, n.attr)
                    true_stores = [(sf, v) for sf, v, _ in stores
                                   if isinstance(v, ast.Constant) and v.value is True]
                    other = [(sf, v) for sf, v, _ in stores if not isinstance(v, ast.Constant)]
                    if not true_stores or other:
                        continue
                    good = True
                    for sf, v in true_stores:
                        st = paths.stmt_of(p, v)
                        if not any(cond_polarity(tt, pp, lambda e: isinstance(e, ast.Attribute) and e.attr == "NO_TRACE") is False
                                   for tt, pp in paths.conditions(p, st, sf)):
                            good = False
                    if good:
                        return "flag self.%s (set True only when NO_TRACE is false)" % n.attr
        return None

    for fi, call, ext in sc:
        why = enabled_guard(fi, call)
        if why:
            res.ok("C14.B", {"site": norm(call), "at": fi.loc(call), "enabled because": why})
        else:
            res.fail(Finding("C14.B", fi.qname, call, fi.loc(call),
                             "%s is executed even when tracing is disabled by configuration: a trace hook that "
                             "was present before start (a debugger) is overwritten" % ext))

    for fi, call, ext in restores:
        # once the hooks were installed nothing but the `installed` flag decides whether they are put back
        ok_flag = lambda c_: any(isinstance(n_, ast.Attribute) and isinstance(n_.value, ast.Name) and n_.value.id == "self" and   # noqa: E731
                                 all(isinstance(v_, ast.Constant) and isinstance(v_.value, bool) for _, v_, _ in t.field_stores(fi.cls, n_.attr)) and t.field_stores(fi.cls, n_.attr)
                                 for n_ in ast.walk(c_)) or "NO_TRACE" in norm(c_)
        extra_ = [c_ for c_, _ in paths.conditions(p, call, fi) if not ok_flag(c_)]
        if extra_:
            res.fail(Finding("C14.C", fi.qname, extra_[0], fi.loc(extra_[0]), "the saved hook is only put back when `%s`: on other paths (shutdown called from another thread, another "
                             "tool having replaced the function meanwhile) the agent's hook stays installed for new threads" % norm(extra_[0])[:70]))
        arg = call.args[0] if call.args else None
        need(arg is not None, "restore call without argument")
        getter = ext.replace("settrace", "gettrace")
        ok = False
        why = "argument is not an attribute saved from %s()" % getter
        idx_ = None
        if isinstance(arg, ast.Name):
            # the saved hook read into a local first, possibly out of a pair `(sys hook, thread hook)` kept in one field
            bs_ = [b for k_, b in t.local_bindings(fi, arg.id) if k_ == "assign"]
            if len(bs_) == 1 and bs_[0][1] is not None and len(t.local_bindings(fi, arg.id)) == 1:
                arg, idx_ = bs_[0][1], bs_[0][2]
        if isinstance(arg, ast.Attribute) and isinstance(arg.value, ast.Name) and arg.value.id == "self" and fi.cls:
            def _is_none(v_):
                return (isinstance(v_, ast.Constant) and v_.value is None) or (isinstance(v_, ast.Tuple) and v_.elts and all(_is_none(x_) for x_ in v_.elts))
            stores = [(sf, v) for sf, v, _ in t.field_stores(fi.cls, arg.attr) if not _is_none(v)]
            if idx_ is not None:
                picked = []
                for sf, v in stores:
                    el_ = v.elts[idx_] if isinstance(v, ast.Tuple) and idx_ < len(v.elts) else None
                    if isinstance(el_, ast.Name):
                        lb_ = t.local_bindings(sf, el_.id)
                        el_ = lb_[0][1][1] if len(lb_) == 1 and lb_[0][0] == "assign" and lb_[0][1][2] is None else None
                    picked.append((sf, el_))
                stores = [(sf, v) for sf, v in picked if v is not None] if all(v is not None for _, v in picked) else []
            if stores:
                ok = True
                for sf, v in stores:
                    srcs = set()
                    for n in ast.walk(v):
                        if isinstance(n, ast.Call):
                            srcs.update(t.resolve_call(n, sf).ext)
                        if isinstance(n, ast.Attribute) and n.attr == "_trace_hook":
                            srcs.add("threading.gettrace")
                    srcs.discard("builtins.hasattr")
                    if getter not in srcs or any(s.endswith("gettrace") and s != getter for s in srcs):
                        ok = False
                        why = "saved value at %s comes from %s, not %s()" % (sf.loc(v), sorted(srcs), getter)
                    # saved before the matching install call
                    # a save made in both branches of an if/else precedes what follows that statement
                    anchor_ = v
                    for a_ in p.ancestors(v, stop=sf.node):
                        if isinstance(a_, ast.If) and a_.orelse and all(any(paths.within(p, v2, blk_) for sf2, v2 in stores if sf2 is sf for blk_ in br)
                                                                        for br in (a_.body, a_.orelse)):
                            anchor_ = a_
                    if installs and not any(ifi is sf for ifi, _ic, _ie in installs):
                        ok = False
                        why = "the hook is saved in %s, not where the agent's hook is installed (%s): what was current at that earlier moment is put back, " \
                              "not what the agent replaced" % (sf.qname.rsplit(".", 1)[-1], installs[0][0].qname.rsplit(".", 1)[-1])
                    for ifi, icall, iext in installs:
                        if ifi is sf and not paths.dominates(p, anchor_, icall, sf):
                            ok = False
                            why = "the save at %s does not precede the install at %s" % (sf.loc(v), ifi.loc(icall))
        if ok:
            res.ok("C14.C", {"restore": norm(call), "at": fi.loc(call)})
        else:
            res.fail(Finding("C14.C", fi.qname, call, fi.loc(call), "restore does not put back the saved hook: " + why))

    # ---------------- D
    steps = []
    for n in t.nodes_in(shutdown):
        if isinstance(n, ast.Call):
            tg = t.resolve_call(n, shutdown)
            if any(f.qname not in g.trusted_repo for f in tg.repo):
                steps.append(n)
        elif isinstance(n, ast.Assign) and any(isinstance(x, ast.Attribute) and x.attr == "started" for x in n.targets):
            steps.append(n)
    steps.sort(key=lambda n: (n.lineno, n.col_offset))
    res.floor("shutdown steps", len(steps), 5)
    site_by_node = {id(s.node): s for s in g.sites(shutdown)}
    for i, si in enumerate(steps):
        s = site_by_node.get(id(si))
        toks = dict(s.tokens) if s is not None else {}
        # a loop around the step: a failure in one iteration must not skip the remaining iterations
        if not toks:
            res.ok("C14.D", {"step": norm(si)[:80], "cannot raise": True})
            continue
        for tok, ch in sorted(toks.items()):
            ct = g.catching_try(si, shutdown, tok)
            bad = None
            if ct is not None:
                for lp in paths.enclosing_loops(p, si, shutdown):
                    if paths.within(p, lp, ct[0]):
                        bad = "the guard wraps the whole loop at %s" % shutdown.loc(lp)
            for sj in steps[i + 1:]:
                if ct is None:
                    in_finally = any(any(paths.within(p, sj, fs) for fs in tr.finalbody)
                                     for tr in g.enclosing_tries(si, shutdown))
                    if not in_finally:
                        bad = "if it raises %s, `%s` (line %d) is skipped" % (tok, norm(sj)[:60], sj.lineno)
                        break
                elif any(paths.within(p, sj, bs) for bs in ct[0].body):
                    bad = "its guard also encloses `%s` (line %d), which is skipped when it fails" % (
                        norm(sj)[:60], sj.lineno)
                    break
            if ct is None and not steps[i + 1:]:
                bad = "%s escapes shutdown" % tok
            if ct is None and any(isinstance(lp, (ast.For, ast.While)) for lp in paths.enclosing_loops(p, si, shutdown)):
                bad = bad or "no guard inside the loop: one failing element skips the rest"
            if bad:
                res.fail(Finding("C14.D", shutdown.qname, si, shutdown.loc(si),
                                 "shutdown step may fail (%s) and %s" % (tok, bad), path=g.fmt_chain(ch)))
            else:
                res.ok("C14.D", {"step": norm(si)[:80], "token": tok, "contained": True})
    # the handlers are the last line of defence: nothing in them may fail in turn
    for s_, e_ in g.unguarded_sites(shutdown):
        hs = [a for a in p.ancestors(s_.node, stop=shutdown.node) if isinstance(a, ast.ExceptHandler)]
        if hs:
            res.fail(Finding("C14.D", shutdown.qname, s_.node, shutdown.loc(s_.node),
                             "the handler at line %d can fail itself (`%s` may raise %s): the failure it was meant to contain leaves shutdown, the remaining "
                             "steps are skipped" % (hs[0].lineno, norm(s_.node)[:50], "/".join(sorted(e_))), path=g.fmt_chain(sorted(e_.items())[0][1])))
    # the plugin list walked by shutdown is not changed by the plugins' shutdown code in the repository (removing the current
    # element makes the loop skip the next plugin)
    MUT = ("remove", "pop", "append", "insert", "clear", "extend", "sort", "reverse")
    pl_sd = p.func("deep.api.plugin.Plugin.shutdown")
    for f_ in [pl_sd] + [x for x in t.overrides(pl_sd.cls.qname, "shutdown")]:
        for c_ in t.calls_in(f_):
            if isinstance(c_.func, ast.Attribute) and c_.func.attr in MUT:
                tgt = ctx.expand.expand(c_.func.value, f_)
                if any("plugins" in x for x in tgt):
                    res.fail(Finding("C14.D", f_.qname, c_, f_.loc(c_), "a plugin's shutdown modifies the list of plugins (`%s`) that Deep.shutdown is iterating: the plugin after it is "
                                     "skipped and never shut down" % norm(c_)[:60]))
    # every plugin is visited: a loop by index covers 0 .. len-1 (`range(len(x))`, or downwards `range(len(x) - 1, -1, -1)`)
    for lp_ in t.nodes_in(shutdown, ast.For):
        it_ = lp_.iter
        if isinstance(it_, ast.Call) and isinstance(it_.func, ast.Name) and it_.func.id == "range":
            a_ = [norm(x) for x in it_.args]
            full = (len(a_) == 1 and a_[0].startswith("len(")) or (len(a_) == 2 and a_[0] == "0" and a_[1].startswith("len(")) or \
                (len(a_) == 3 and a_[0].startswith("len(") and a_[0].endswith(" - 1") and a_[1] == "-1" and a_[2] == "-1")
            if full:
                res.ok("C14.D", {"index loop covers every element": norm(it_)})
            else:
                res.fail(Finding("C14.D", shutdown.qname, it_, shutdown.loc(it_), "the loop `for %s in %s` does not visit every index of the collection (an end is left out): a plugin "
                                 "is never shut down" % (norm(lp_.target), norm(it_)[:50])))
    # ... nor by shutdown itself while it walks it
    for lp_ in t.nodes_in(shutdown, ast.For):
        it_txt = norm(lp_.iter)
        it_ex = set(ctx.expand.expand(lp_.iter, shutdown))
        for c_ in [n for n in ast.walk(lp_) if isinstance(n, ast.Call) and isinstance(n.func, ast.Attribute) and n.func.attr in MUT]:
            if norm(c_.func.value) == it_txt or (it_ex & set(ctx.expand.expand(c_.func.value, shutdown))):
                res.fail(Finding("C14.D", shutdown.qname, c_, shutdown.loc(c_), "`%s` changes the list the loop `for %s in %s` is walking: the element after the current one is "
                                 "skipped (every second plugin is never shut down)" % (norm(c_)[:60], norm(lp_.target), it_txt[:40])))
    # draining is not optional: flush is also what closes the task handler (work offered afterwards is refused), so it runs on
    # every shutdown of a started agent - not only when something happens to be pending at that moment
    for c_ in t.calls_in(shutdown):
        if isinstance(c_.func, ast.Attribute) and c_.func.attr == "flush" and any(f_.qname.endswith("TaskHandler.flush") for f_ in t.resolve_call(c_, shutdown).repo):
            cs_ = [(norm(x), pol) for x, pol in paths.conditions(p, c_, shutdown) if "started" not in norm(x)]
            if cs_:
                res.fail(Finding("C14.D", shutdown.qname, c_, shutdown.loc(c_), "the delivery is only drained (and the task handler only closed) when `%s`: a shutdown that finds nothing pending leaves "
                                 "the handler open, and snapshots handed over afterwards are accepted and sent" % cs_[0][0][:60]))
            else:
                res.ok("C14.D", {"flush on every shutdown": shutdown.loc(c_)})
    flag_clear = [n for n in steps if isinstance(n, ast.Assign)]
    if flag_clear and all(isinstance(n.value, ast.Constant) and n.value.value is False for n in flag_clear):
        res.ok("C14.D", {"started cleared": shutdown.loc(flag_clear[-1])})
    else:
        res.fail(Finding("C14.D", shutdown.qname, "<started = False>", shutdown.loc(), "shutdown does not clear the started flag"))
    # the steps the property names must be present
    wanted = {"deep.processor.trigger_handler.TriggerHandler.shutdown": "restore hooks",
              "deep.task.TaskHandler.flush": "drain delivery",
              "deep.poll.poll.LongPoll.shutdown": "stop polling",
              "deep.api.plugin.Plugin.shutdown": "shut plugins down"}
    present = set()
    for n in steps:
        if isinstance(n, ast.Call):
            present.update(f.qname for f in t.resolve_call(n, shutdown).repo)
    for qn, what in wanted.items():
        if qn in present:
            res.ok("C14.D", {"step present": what})
        else:
            res.fail(Finding("C14.D", shutdown.qname, "<%s>" % what, shutdown.loc(), "shutdown no longer performs: " + what))

    # ---------------- DRAIN: shutdown drains delivery even when deliveries fail (same rules as C09.C)
    from .c09 import flush_rules
    res.rule("C14.DRAIN", "draining waits for every pending task, per task, and never re-raises a task outcome")
    flush_rules(ctx, res, "C14.DRAIN")

    # ---------------- E
    lps = p.func("deep.poll.poll.LongPoll.shutdown")
    stops = [c for c in t.calls_in(lps) if any(f.qname == "deep.utils.RepeatedTimer.stop" for f in t.resolve_call(c, lps).repo)]
    extra_ = [(norm(c), pol) for c, pol in paths.conditions(p, stops[0], lps)] if stops else []
    extra_ = [x for x in extra_ if x not in (("self.timer", True), ("self.timer is not None", True), ("self.timer is None", False))]
    if stops and isinstance(stops[0].func, ast.Attribute) and isinstance(stops[0].func.value, ast.Name):
        # the timer read into a local first: a test of that local is the same test
        rn_ = stops[0].func.value.id
        lb_ = t.local_bindings(lps, rn_)
        if len(lb_) == 1 and lb_[0][0] == "assign" and lb_[0][1][1] is not None and norm(lb_[0][1][1]) == "self.timer":
            extra_ = [x for x in extra_ if x not in ((rn_, True), ("%s is not None" % rn_, True), ("%s is None" % rn_, False))]
    if stops and extra_:
        res.fail(Finding("C14.E", lps.qname, stops[0], lps.loc(stops[0]), "the poll timer is only stopped when `%s`: polling goes on after shutdown" % extra_[0][0][:60]))
    elif stops:
        res.ok("C14.E", {"LongPoll.shutdown stops timer": lps.loc(stops[0])})
    else:
        res.fail(Finding("C14.E", lps.qname, "<timer.stop()>", lps.loc(), "poll shutdown does not stop the timer"))
    stop = p.func("deep.utils.RepeatedTimer.stop")
    sets = [c for c in t.calls_in(stop) if isinstance(c.func, ast.Attribute) and c.func.attr == "set"]
    joins = [c for c in t.calls_in(stop) if isinstance(c.func, ast.Attribute) and c.func.attr == "join"]
    timed = [j for j in joins if j.args or j.keywords]
    if timed:
        res.fail(Finding("C14.E", stop.qname, timed[0], stop.loc(timed[0]), "`%s` gives up waiting for the poll thread after a while: shutdown returns while a poll is still in flight, "
                         "its answer is applied (and the next poll prepared) after the agent is down" % norm(timed[0])))
    if sets and joins and all(paths.dominates(p, sets[0], j, stop) for j in joins):
        res.ok("C14.E", {"event.set() dominates join()": stop.loc(sets[0])})
    elif not sets:
        res.fail(Finding("C14.E", stop.qname, "<event.set()>", stop.loc(), "timer stop never sets the stop event"))
    elif joins:
        res.fail(Finding("C14.E", stop.qname, joins[0], stop.loc(joins[0]), "join() before the stop event is set: shutdown hangs for a full interval or forever"))
    else:
        res.fail(Finding("C14.E", stop.qname, "<thread.join()>", stop.loc(), "the timer is told to stop but not waited for: a poll that is in flight goes on, and its answer is applied (a configuration "
                         "installed, the next poll prepared) after shutdown has returned"))
    tgt = p.func("deep.utils.RepeatedTimer._target")
    waits = [n for n in t.nodes_in(tgt, ast.While)]
    def _is_wait(e):
        return isinstance(e, ast.Call) and isinstance(e.func, ast.Attribute) and e.func.attr == "wait"

    def _exits_on_event(w):
        # `while not event.wait(t): ...`, or `while True: if event.wait(t): break ...`
        if isinstance(w.test, ast.UnaryOp) and isinstance(w.test.op, ast.Not) and _is_wait(w.test.operand):
            return True
        if isinstance(w.test, ast.Constant) and w.test.value is True:
            for st_ in w.body:
                if isinstance(st_, ast.If) and _is_wait(st_.test) and st_.body and isinstance(st_.body[-1], (ast.Break, ast.Return)):
                    return True
                if isinstance(st_, ast.If) and isinstance(st_.test, ast.UnaryOp) and isinstance(st_.test.op, ast.Not) and _is_wait(st_.test.operand) \
                        and st_.orelse and isinstance(st_.orelse[-1], (ast.Break, ast.Return)):
                    return True
        return False
    if waits and any(_exits_on_event(w) for w in waits):
        res.ok("C14.E", {"timer loop exits on the stop event": tgt.loc(waits[0])})
    else:
        res.fail(Finding("C14.E", tgt.qname, "<while not event.wait()>", tgt.loc(), "timer loop does not test the stop event"))
    # what runs on the poll thread starts no further timer / thread of its own: shutdown can only stop what existed when
    # it ran, something the poll in flight creates afterwards keeps polling once the agent is down
    from .c01 import reachable
    pollf = p.func("deep.poll.poll.LongPoll.poll")
    spawned = []
    scope_ = reachable(ctx, pollf)
    for f_ in scope_:
        if f_.module.name.startswith("deep.task"):
            continue
        for c_ in t.calls_in(f_):
            tg_ = t.resolve_call(c_, f_)
            if any(e in ("threading.Timer", "threading.Thread", "threading._start_new_thread", "_thread.start_new_thread") or e.endswith("Executor") for e in tg_.ext) \
                    or any(k.qname == "deep.utils.RepeatedTimer" or any(b.endswith("Thread") or b.endswith("Timer") for b in k.ext_bases) for k in tg_.ctor):
                spawned.append((f_, c_))
    for f_, c_ in spawned:
        res.fail(Finding("C14.E", f_.qname, c_, f_.loc(c_), "`%s` starts another timer / thread from the poll thread itself: one created by a poll that is in flight while "
                         "shutdown runs is never stopped, the agent goes on polling after shutdown" % norm(c_)[:60]))
    if not spawned:
        res.ok("C14.E", {"the poll path starts no timer or thread of its own (functions)": len(scope_)})
    from .common import borrow
    borrow(ctx, res, tier, "c09", ("C09.A", "C09.D"), "C14.AFTER", "after shutdown nothing is delivered: work offered to the closed handler is refused, never run in place")
    borrow(ctx, res, tier, "c12", ("C12.LOOP",), "C14.START", "start completes whatever the first poll does: a failure there that escapes start() leaves the hooks installed with "
           "`started` false, and shutdown then puts nothing back")
    borrow(ctx, res, tier, "c09", ("C09.E", "C09.C"), "C14.DRAIN", "what shutdown drains is this agent's own pending work (per-handler bookkeeping)")
    return res
