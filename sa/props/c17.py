"""C17 metric tracepoints - see DESIGN.md section 4 (C17)."""
import ast

from .common import Ctx, Finding, Result, need, term, P, TRUSTED_LOGGING
from .c03 import table_rule
from ..index import norm
from ..dtable import Table, Vars
from .. import paths

MA = "deep.processor.context.metric_action.MetricActionContext"
MP = "deep.api.plugin.metric.MetricProcessor"
ROLES = ["name", "labels", "namespace", "help", "unit", "value"]


def proto_enum_names(modname: str, enum: str):
    import importlib
    m = importlib.import_module(modname)
    return [v.name for v in getattr(m, enum).DESCRIPTOR.values]


def run(ctx: Ctx, tier: str) -> Result:
    res = Result("C17")
    res.explanation = (
        "Agreement and shape rules of the metric action: the lower-cased value names of the protobuf enum MetricType "
        "equal the abstract record methods of MetricProcessor and the dispatch is getattr(processor, type.lower()); "
        "the dispatched call passes (name, labels, namespace or 'deep', help, unit, value) in the abstract parameter "
        "order and every concrete processor defines all methods with that order; every metric is dispatched to "
        "every processor (nested loops, no early exit, processors re-obtained per metric, each processor isolated); "
        "value defaults to 1 and is replaced only by float(evaluation) inside a guard; label = static value or the "
        "text of the evaluated expression; without a processor the action is rejected before limits/budget.")
    res.trusted = [TRUSTED_LOGGING, "protobuf descriptor of MetricType shipped in the deep-proto wheel"]
    res.not_decided = ["numeric results of concrete expressions", "the metric providers' own behaviour"]
    for rid, text in (("C17.ENUM", "MetricType names = MetricProcessor record methods; dispatch by lower-cased name"),
                      ("C17.SIG", "dispatch passes name, labels, namespace|'deep', help, unit, value in order; siblings agree"),
                      ("C17.FAN", "every metric x every processor, no early exit"),
                      ("C17.VALUE", "value 1 unless float(expression); labels static or evaluated text"),
                      ("C17.NOPROC", "no processor -> rejected without consulting limits")):
        res.rule(rid, text)
    p, t, g = ctx.prog, ctx.types, ctx.guards

    # ---------------- ENUM
    names = proto_enum_names("deepproto.proto.tracepoint.v1.tracepoint_pb2", "MetricType")
    mp = p.cls(MP)
    abstract = sorted(n for n, lst in mp.methods.items() for f in lst if f.is_abstract)
    want = sorted(n.lower() for n in names)
    res.analysed["MetricType values"] = names
    if want == abstract:
        res.ok("C17.ENUM", {"enum": names, "methods": abstract})
    else:
        res.fail(Finding("C17.ENUM", MP, "<abstract methods>", mp.module.relpath,
                         "metric types %s and MetricProcessor methods %s do not correspond: a metric of a type without a method raises at dispatch" % (want, abstract)))
    pa = p.func(MA + "._process_action")
    disp = [c for c in t.calls_in(pa) if isinstance(c.func, ast.Call) and "builtins.getattr" in t.resolve_call(c.func, pa).ext]
    direct = [c for c in t.calls_in(pa) if any(x.cls is mp or (x.cls and x.cls.is_subclass_of(mp)) for x in t.resolve_call(c, pa).repo)
              and c not in disp]
    need(disp or direct, "metric action: no dispatch to a metric processor found")
    for c in disp:
        ga = c.func.args
        name_txt = ctx.expand.expand(ga[1], pa) if len(ga) > 1 else []
        recv_t = t.type_of(ga[0], pa) if ga else frozenset()
        ok_recv = any(x[0] == "inst" and x[1] == MP for x in recv_t)
        ok_name = len(name_txt) == 1 and name_txt[0].endswith(".type.lower()") and len(ga) == 2
        if ok_recv and ok_name:
            res.ok("C17.ENUM", {"dispatch": "getattr(processor, %s)" % name_txt[0]})
        else:
            res.fail(Finding("C17.ENUM", pa.qname, c, pa.loc(c), "dispatch is not getattr(<metric processor>, metric.type.lower()) without default: %s" % name_txt))

    # ---------------- SIG
    absm = [f for n in abstract for f in mp.methods[n]]
    sig0 = None
    for f in absm:
        sig = f.params[1:]
        if sig0 is None:
            sig0 = sig
        if sig != sig0 or len(sig) != 6:
            res.fail(Finding("C17.SIG", f.qname, "<signature>", f.loc(), "abstract record methods do not share one six-parameter signature: %s vs %s" % (sig, sig0)))
    need(sig0 is not None and len(sig0) == 6, "MetricProcessor abstract signature not found")
    res.ok("C17.SIG", {"abstract signature": sig0})
    for c in disp + direct:
        args = [ctx.expand.expand(a, pa) for a in c.args]
        mv = "<elem>(@self._metrics())" if False else None
        exp = []
        okc = len(c.args) == 6 and not c.keywords
        if okc:
            a0, a1, a2, a3, a4, a5 = args
            okc = a0[0].endswith(".name") and a3[0].endswith(".help") and a4[0].endswith(".unit") \
                and a2[0].endswith(".namespace or 'deep'")
            # labels and value come from one _process_metric(metric) call on the same metric
            okc = okc and "_process_metric(" in a1[0] and a1[0].endswith("[0]") and "_process_metric(" in a5[0] and a5[0].endswith("[1]")
            base = a0[0][: -len(".name")]
            okc = okc and all(x[0].startswith(base) for x in (a2, a3, a4)) and base in a1[0] and base in a5[0]
        if okc:
            res.ok("C17.SIG", {"dispatch arguments": [a[0] for a in args]})
        else:
            res.fail(Finding("C17.SIG", pa.qname, c, pa.loc(c), "the record call does not pass (name, labels, namespace or 'deep', help, unit, value) of one metric in that order: %s" % [a[:1] for a in args]))
    # a metric definition keeps every value under the field of the same meaning: wire field -> constructor parameter -> attribute
    MEAN = {"name": "name", "type": "type", "metric_type": "type", "labels": "labels", "labelExpressions": "labels", "label_expressions": "labels",
            "expression": "expression", "namespace": "namespace", "help": "help", "help_str": "help", "unit": "unit"}
    mdc = p.cls("deep.api.tracepoint.tracepoint_config.MetricDefinition")
    mdi = mdc.lookup("__init__")
    nfield = 0
    for (cq, attr), lst_ in sorted(t._attr_store_index().items()):
        if cq != mdc.qname:
            continue
        for sf, v, _ in lst_:
            if sf is not mdi or not isinstance(v, ast.Name) or v.id not in mdi.params:
                continue
            nfield += 1
            if MEAN.get(v.id) is not None and MEAN.get(v.id) == MEAN.get(attr.lstrip("_")):
                res.ok("C17.SIG", {"MetricDefinition.%s" % attr: "from parameter %s" % v.id})
            else:
                res.fail(Finding("C17.SIG", mdi.qname, paths.stmt_of(p, v), mdi.loc(v), "MetricDefinition.%s is stored from parameter `%s`" % (attr, v.id)))
    res.floor("MetricDefinition fields stored from parameters", nfield, 7)
    nctor = 0
    for f_ in p.functions.values():
        for c_ in t.calls_in(f_):
            if mdc not in t.resolve_call(c_, f_).ctor:
                continue
            for pn, a_ in t.bind_args(mdi, c_).items():
                wires = [n.attr for n in ast.walk(a_) if isinstance(n, ast.Attribute) and isinstance(n.value, ast.Name) and n.attr in MEAN]
                if not wires or pn not in MEAN:
                    continue
                nctor += 1
                if all(MEAN[w] == MEAN[pn] for w in wires):
                    res.ok("C17.SIG", {"%s <- %s" % (pn, wires[0]): f_.qname})
                else:
                    res.fail(Finding("C17.SIG", f_.qname, c_, f_.loc(c_), "the metric definition is built with `%s` in the place of its `%s` parameter: the %s reported "
                                     "for service-defined metrics is the %s" % (norm(a_)[:40], pn, MEAN[pn], MEAN[wires[0]])))
    res.floor("MetricDefinition arguments taken from a wire metric", nctor, 6)
    pm = p.func(MA + "._process_metric")
    rets = list(t.nodes_in(pm, ast.Return))
    if len(rets) == 1 and isinstance(rets[0].value, ast.Tuple) and len(rets[0].value.elts) == 2:
        res.ok("C17.SIG", {"_process_metric returns": norm(rets[0].value)})
        LBL, VAL = norm(rets[0].value.elts[0]), norm(rets[0].value.elts[1])
    else:
        res.fail(Finding("C17.SIG", pm.qname, "<return labels, value>", pm.loc(), "_process_metric does not return (labels, value)"))
        return res
    impls = [c for c in p.subclasses.get(MP, [])]
    res.floor("concrete metric processors", len(impls), 2)
    for c in impls:
        for n in abstract:
            f = c.own_method(n)
            if f is None:
                res.fail(Finding("C17.SIG", c.qname, "<%s>" % n, c.module.relpath, "processor %s does not implement %s" % (c.name, n)))
            elif f.params[1:] != sig0:
                res.fail(Finding("C17.SIG", f.qname, "<signature>", f.loc(), "parameter order %s differs from the interface %s" % (f.params[1:], sig0)))
            else:
                res.ok("C17.SIG")

    # ---------------- FAN
    loops = [l for l in t.nodes_in(pa, ast.For)]
    need(len(loops) >= 2, "metric action: expected nested loops over metrics and processors")
    for c in disp + direct:
        enc = [l for l in paths.enclosing_loops(p, c, pa) if isinstance(l, ast.For)]
        if len(enc) != 2:
            res.fail(Finding("C17.FAN", pa.qname, c, pa.loc(c), "the record call is not inside the (metric x processor) double loop"))
            continue
        inner, outer = enc[0], enc[1]
        it_i = ctx.expand.expand(inner.iter, pa)
        it_o = ctx.expand.expand(outer.iter, pa)
        ok_i = any("metric_processors" in x or "MetricProcessor" in x for x in it_i) and isinstance(inner.iter, (ast.Attribute, ast.Call))
        ok_o = any("'metrics'" in x for x in it_o)
        exits = [n for n in ast.walk(outer) if isinstance(n, (ast.Break, ast.Return))]
        # neither collection is cut short (a slice / islice / next on the iterated expression or on what it is bound to)
        def cut(it, depth=0):
            if any(isinstance(n, ast.Subscript) and isinstance(n.slice, ast.Slice) or (isinstance(n, ast.Call) and norm(n.func).endswith(("islice", "next"))) for n in ast.walk(it)):
                return True
            if isinstance(it, ast.Name) and depth < 2:
                return any(b[1] is not None and cut(b[1], depth + 1) for k, b in t.local_bindings(pa, it.id) if k == "assign")
            return False
        if cut(inner.iter) or cut(outer.iter):
            exits = exits + [inner.iter if cut(inner.iter) else outer.iter]
        conds = [x for x in paths.conditions(p, c, pa)]
        if ok_i and ok_o and not exits and not conds:
            res.ok("C17.FAN", {"outer": it_o[0], "inner (re-obtained per metric)": it_i[0][:80]})
        else:
            res.fail(Finding("C17.FAN", pa.qname, c, pa.loc(c), "not every metric is reported to every processor (outer %s, inner %s, early exits %d, conditions %s)" % (
                it_o, [x[:60] for x in it_i], len(exits), [norm(x[0]) for x in conds])))
        ct = g.catching_try(c, pa, "Exception")
        if ct is not None and paths.within(p, ct[0], inner):
            res.ok("C17.FAN", {"each processor isolated": pa.loc(ct[0])})
        else:
            res.fail(Finding("C17.FAN", pa.qname, c, pa.loc(c), "a failing processor aborts the remaining processors/metrics (no guard inside the processor loop)"))

    # every metric definition of the tracepoint is kept for the action: the builder stores the list it is given (at most a copy)
    bma = p.functions.get("deep.api.tracepoint.trigger.build_metric_action")
    from .common import literal_key
    if bma is not None:
        mp_ = bma.params[2] if len(bma.params) > 2 else "metrics"
        vals_ = []
        for d_ in t.nodes_in(bma, ast.Dict):
            for k_, v_ in zip(d_.keys, d_.values):
                if k_ is not None and literal_key(ctx, bma, k_) == "metrics":
                    vals_.append(v_)
        vals_ += [n.value for n in t.nodes_in(bma, ast.Assign) if isinstance(n.targets[0], ast.Subscript) and literal_key(ctx, bma, n.targets[0].slice) == "metrics"]
        def _kept(v):
            x = ctx.expand.expand(v, bma)
            return bool(x) and all(y in ("@" + mp_, "list(@%s)" % mp_, "tuple(@%s)" % mp_, "@%s.copy()" % mp_, "[*@%s]" % mp_) for y in x)
        if vals_ and all(_kept(v) for v in vals_):
            res.ok("C17.FAN", {"the action keeps the metric definitions it was given": norm(vals_[0])})
        else:
            bad_ = next((v for v in vals_ if not _kept(v)), None)
            res.fail(Finding("C17.FAN", bma.qname, bad_ if bad_ is not None else "<'metrics': metrics>", bma.loc(bad_) if bad_ is not None else bma.loc(),
                             "the metric action is not given the tracepoint's metric definitions as they are (`%s`): definitions are dropped, merged or reordered before the first hit" % (
                                 norm(bad_)[:60] if bad_ is not None else "no 'metrics' entry")))
    # "every active metric processor": the enumeration of the plugins of a kind hands out every plugin of the list that is of
    # that kind - nothing but the kind decides (two exporters of one class, or with one name, are two processors)
    csvc = p.cls("deep.config.config_service.ConfigService")
    # (a generator function, or a function that returns a generator expression / list comprehension over the plugin list)
    def _enumerates(f_):
        if list(t.nodes_in(f_, (ast.Yield, ast.YieldFrom))):
            return True
        return len(f_.params) == 2 and any(isinstance(r.value, (ast.GeneratorExp, ast.ListComp)) and any("_plugins" in norm(g_.iter) for g_ in r.value.generators)
                                           for r in t.nodes_in(f_, ast.Return) if r.value is not None)
    gens = [f_ for lst_ in csvc.methods.values() for f_ in lst_ if _enumerates(f_)]
    for gf_ in gens:
        tp_ = gf_.params[1] if len(gf_.params) > 1 else None
        outs = list(t.nodes_in(gf_, (ast.Yield, ast.YieldFrom))) or [r for r in t.nodes_in(gf_, ast.Return) if isinstance(r.value, (ast.GeneratorExp, ast.ListComp))]
        for y_ in outs:
            cnds = paths.conditions(p, paths.stmt_of(p, y_), gf_)
            other = [c_ for c_, _pol in cnds if not (isinstance(c_, ast.Call) and norm(c_.func) == "isinstance" and len(c_.args) == 2 and tp_ and norm(c_.args[1]) == tp_)]
            filt = [g_ for n_ in ast.walk(y_) if isinstance(n_, (ast.ListComp, ast.GeneratorExp)) for g_ in n_.generators for i_ in g_.ifs
                    if not (isinstance(i_, ast.Call) and norm(i_.func) == "isinstance")]
            cut = [n_ for n_ in t.nodes_in(gf_, (ast.Break, ast.Return)) if n_ is not y_]
            if other or filt or cut:
                what_ = other[0] if other else (filt[0].ifs[0] if filt else cut[0])
                res.fail(Finding("C17.FAN", gf_.qname, what_, gf_.loc(what_), "the plugins of a kind are handed out depending on `%s`, not on their kind alone: an active processor "
                                 "(a second exporter of the same class or name) receives nothing" % norm(what_)[:60]))
            else:
                res.ok("C17.FAN", {"every plugin of the kind is handed out by": gf_.qname})
    res.floor("plugin enumerations of the configuration", len(gens), 1)

    # ---------------- VALUE
    # every assignment of the value is one of: the constant 1 (no expression given, or the fallback of the guard), or
    # float(<the metric's expression evaluated in the frame>) exactly when an expression is given, inside a guard
    mparam = P(pm, 1)
    inits = [n for n in t.nodes_in(pm, ast.Assign) if norm(n.targets[0]) == VAL]
    EXPR = "%s.expression" % mparam

    def expr_conds(n):
        out = []
        for c, pol in paths.conditions(p, n, pm):
            x = ctx.expand.expand(c.operand if isinstance(c, ast.UnaryOp) and isinstance(c.op, ast.Not) else c, pm)
            neg = isinstance(c, ast.UnaryOp) and isinstance(c.op, ast.Not)
            if x == [EXPR]:
                out.append(("expr", pol != neg))
            else:
                out.append((norm(c), pol))
        return out
    ones = [n for n in inits if isinstance(n.value, ast.Constant) and n.value.value == 1]
    conv = [n for n in inits if n not in ones]
    in_handler = lambda n: any(isinstance(a, ast.ExceptHandler) for a in p.ancestors(n, stop=pm.node))   # noqa: E731
    dflt = [n for n in ones if not in_handler(n) and expr_conds(n) in ([], [("expr", False)])]
    if dflt:
        res.ok("C17.VALUE", {"default value": 1})
    else:
        res.fail(Finding("C17.VALUE", pm.qname, "<%s = 1>" % VAL, pm.loc(), "the metric value does not default to 1"))
    for n in ones:
        if n in dflt or in_handler(n):
            continue
        res.fail(Finding("C17.VALUE", pm.qname, n, pm.loc(n), "the metric value is set to 1 when `%s`" % expr_conds(n)))
    for n in conv:
        txt = ctx.expand.expand(n.value, pm)
        # float() of a program value can fail with anything (OverflowError, whatever a __float__ raises)
        guarded = g.catching_try(n.value, pm, "Exception") is not None
        ec = expr_conds(n)
        others_ = [c for c in ec if c != ("expr", True)]
        if others_:
            res.fail(Finding("C17.VALUE", pm.qname, n, pm.loc(n), "the evaluated expression becomes the value only when `%s`: for other numeric results "
                             "(Decimal, Fraction, numpy scalars, objects with __float__) the metric silently reports 1" % (others_[0][0] if others_[0][0] != "expr" else "not " + EXPR)[:60]))
        elif len(txt) == 1 and txt[0].startswith("float(") and "evaluate_expression(%s.expression)" % mparam in txt[0] and guarded and ("expr", True) in ec:
            res.ok("C17.VALUE", {"value": txt[0]})
        else:
            res.fail(Finding("C17.VALUE", pm.qname, n, pm.loc(n), "the metric value is not float(<the metric's expression evaluated in the frame>) inside a guard, only when an expression is given: %s" % txt))
    if not conv:
        res.fail(Finding("C17.VALUE", pm.qname, "<float(evaluate_expression(metric.expression))>", pm.loc(), "a metric expression is never evaluated into the value"))
    lst = [n for n in t.nodes_in(pm, ast.Assign) if isinstance(n.targets[0], ast.Subscript) and norm(n.targets[0].value) == LBL]
    if len(lst) == 1:
        key = ctx.expand.expand(lst[0].targets[0].slice, pm)
        vals = ctx.expand.expand(lst[0].value, pm)
        ok_key = len(key) == 1 and (key[0].endswith(".key") or key[0].endswith("__key"))
        ok_static = any(v.endswith(".static") or v.endswith("__static") for v in vals)
        ok_expr = any(v.startswith("str(") and "evaluate_expression(" in v and "expression" in v for v in vals)
        if ok_key and ok_static and ok_expr:
            res.ok("C17.VALUE", {"label": key[0], "values": vals})
        else:
            res.fail(Finding("C17.VALUE", pm.qname, lst[0], pm.loc(lst[0]), "labels are not {label.key: static value | text of the evaluated expression}: key %s values %s" % (key, vals)))
        lps = [l for l in paths.enclosing_loops(p, lst[0], pm) if isinstance(l, ast.For)]
        if lps and ctx.expand.expand(lps[0].iter, pm) == ["%s.labels" % mparam] and not [n for n in ast.walk(lps[0]) if isinstance(n, (ast.Break, ast.Return))]:
            res.ok("C17.VALUE", {"every label of the metric": True})
        else:
            res.fail(Finding("C17.VALUE", pm.qname, lst[0], pm.loc(lst[0]), "not every label of the metric definition is produced"))
    else:
        res.fail(Finding("C17.VALUE", pm.qname, "<labels[key] = value>", pm.loc(), "labels are stored %d times (expected one store in the label loop)" % len(lst)))

    # ---------------- NOPROC
    sf = p.functions.get(MA + ".can_trigger")
    if sf is None:
        res.fail(Finding("C17.NOPROC", MA, "<def can_trigger: no metric processor -> False>", p.cls(MA).module.relpath,
                         "the metric action has no can_trigger of its own any more: with no metric processor active the action still triggers - nothing is reported, "
                         "but the hit is recorded and uses up the tracepoint's fire count / period"))
    st = Table(ctx, sf) if sf is not None else None
    hs_t = [k for k in st.vars.truths if "MetricProcessor" in k or "has_metric_processor" in k] if st else []
    hs_e = [k for k in st.vars.enums if ("MetricProcessor" in k or "has_metric_processor" in k) and None in st.vars.enums[k]] if st else []
    if st is None:
        pass
    elif len(hs_t) + len(hs_e) == 1:
        H = (hs_t + hs_e)[0]
        rv = Vars()
        rv.truth(H) if hs_t else rv.enum(H, None)

        def refo(w):
            present = w.truth[H] if hs_t else (w.enum[H] is not None)
            if not present:
                return False
            return lambda got: got[0] == "return" and isinstance(got[1], str) and "super().can_trigger()" in got[1]
        table_rule(res, "C17.NOPROC", st, rv, refo, "metric action: no processor -> False, else base decision")
    else:
        res.fail(Finding("C17.NOPROC", sf.qname, "<has_metric_processor>", sf.loc(), "the metric action does not test for an active metric processor"))
    hp = p.func("deep.config.config_service.ConfigService.has_metric_processor")
    txt = term(ctx, hp, "self.has_metric_processor")
    import re as _re17
    if ("MetricProcessor" in txt and "is not None" in txt) or \
            _re17.fullmatch(r"any\(\[?isinstance\((\w+), [\w.]*MetricProcessor\) for \1 in @self\._plugins\]?\)", txt):
        res.ok("C17.NOPROC", {"has_metric_processor": txt})
    else:
        res.fail(Finding("C17.NOPROC", hp.qname, txt, hp.loc(), "has_metric_processor is not `some plugin is a MetricProcessor`"))
    from .common import borrow
    borrow(ctx, res, tier, "c13", ("C13.ARGS",), "C17.DEFS", "the metric definitions a caller registered stay as given (name, namespace, labels are not written to: the same definition on another tracepoint means the same)")
    borrow(ctx, res, tier, "c10", ("C10.CONTAIN",), "C17.FAILED", "a failing expression yields the exception itself, which is no number: the value falls back to 1 (an error text that reads as a number would be reported as the value)")
    borrow(ctx, res, tier, "c20", ("C20.LOAD",), "C17.NOPROC", "`a metric processor is active` is asked of the plugins loaded now: no answer remembered from an earlier plugin set")
    borrow(ctx, res, tier, "c10", ("C10.SCOPE", "C10.CONTAIN"), "C17.VALUE", "a metric expression that fails yields the default for that metric only: the failure reaches the metric code as a value, "
           "not as an exception that skips the metrics after it")
    return res
