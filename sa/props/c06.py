"""C06 collection is total and per-tracepoint independent - see DESIGN.md section 4 (C06)."""
import ast

from .common import Ctx, Finding, Result, need, term, P, TRUSTED_LOGGING, settrace_entries
from ..index import norm
from ..taint import Taint
from .. import paths

ROOTS = ["deep.processor.frame_collector.FrameCollector.collect",
         "deep.processor.variable_set_processor.VariableSetProcessor.process_variable",
         "deep.processor.context.action_context.ActionContext.eval_watch",
         "deep.processor.context.action_context.ActionContext.process_capture_variable"]
CAPS = {
    "dict": {"len", "keys", "values", "items", "get", "getitem", "contains", "iterate", "list", "tuple", "copy", "dict"},
    "listlike": {"len", "tuple", "list", "iterate", "sorted", "enumerate"},
    "exception": {"args"},
    "str": {"str", "startswith", "endswith", "getitem", "len", "lower", "upper", "strip", "split", "format", "contains", "iterate"},
}
LISTLIKE_NAMES = {"list", "tuple", "set", "frozenset"}
NEEDS = {"truth": "len", "builtin:len": "len", "builtin:tuple": "tuple", "builtin:list": "list", "builtin:dict": "dict", "iterate": "iterate",
         "getitem": "getitem", "contains": "contains", "builtin:sorted": "sorted", "builtin:enumerate": "enumerate"}
GUARD_ONLY = {"builtin:hasattr", "builtin:isinstance", "getattr:__class__", "builtin:str", "builtin:repr", "builtin:format", "builtin:float", "builtin:int", "format", "builtin:hash",
              "builtin:next", "builtin:iter", "builtin:bool", "builtin:vars", "builtin:dir", "builtin:getattr"}
IGNORED = {"compare": "equality between a name and its original name: both are agent-made strings after naming"}


def collector_scope(ctx: Ctx):
    t = ctx.types
    seen, stack = {}, [ctx.prog.func(q) for q in ROOTS]
    while stack:
        f = stack.pop()
        k = t.fkey(f)
        if k in seen:
            continue
        seen[k] = f
        for c in t.calls_in(f):
            tg = t.resolve_call(c, f)
            for g_ in tg.repo:
                if not tg.by_name and g_.module.name.startswith("deep.processor"):
                    stack.append(g_)
            # functions handed over as callbacks (the BFS consumer)
            for a in c.args:
                for tt in t.type_of(a, f):
                    if tt[0] in ("bound", "func"):
                        g2 = ctx.prog.functions.get(tt[1])
                        if g2 is not None and g2.module.name.startswith("deep.processor"):
                            stack.append(g2)
        for loc in f.locals_classes.values():
            for lst in loc.methods.values():
                stack.extend(lst)
    return seen


class Pins:
    def __init__(self, ctx: Ctx, taint: Taint):
        self.ctx = ctx
        self.tn = taint
        self._param_memo = {}

    def type_linked(self, T: ast.expr, S: ast.expr, fi, depth=0) -> bool:
        """T denotes type(S)."""
        t = self.ctx.types
        if isinstance(T, ast.Call) and norm(T.func) == "type" and T.args and norm(T.args[0]) == norm(S):
            return True
        if isinstance(T, ast.Name):
            binds = t.local_bindings(fi, T.id)
            if binds and all(k == "assign" for k, _ in binds):
                return all(b[1] is not None and self.type_linked(b[1], S, fi, depth + 1) for _, b in binds)
            if binds and all(k == "param" for k, _ in binds) and isinstance(S, ast.Name) and depth < 3:
                # parameter pair linked at every call site
                sites = t.callers.get(t.fkey(fi), [])
                if not sites:
                    return False
                for cf, call in sites:
                    b = t.bind_args(fi, call)
                    if T.id not in b or S.id not in b or not self.type_linked(b[T.id], b[S.id], cf, depth + 1):
                        return False
                return True
        return False

    def from_test(self, test: ast.expr, pol: bool, S: ast.expr, fi) -> set:
        """Capabilities of S implied by (test, pol)."""
        t = self.ctx.types
        s_txt = norm(S)
        if isinstance(test, ast.UnaryOp) and isinstance(test.op, ast.Not):
            return self.from_test(test.operand, not pol, S, fi)
        if isinstance(test, ast.BoolOp):
            parts = [self.from_test(v, pol, S, fi) for v in test.values]
            if (isinstance(test.op, ast.And) and pol) or (isinstance(test.op, ast.Or) and not pol):
                out = set()
                for x in parts:
                    out |= x
                return out
            # disjunction holds: only what every disjunct guarantees
            out = parts[0]
            for x in parts[1:]:
                out = out & x
            return out
        if not pol:
            return set()
        if isinstance(test, ast.Compare) and len(test.ops) == 1:
            l, op, r = test.left, test.ops[0], test.comparators[0]
            if isinstance(op, (ast.Is, ast.Eq)) and isinstance(r, ast.Name) and r.id in CAPS and self.type_linked(l, S, fi):
                return set(CAPS[r.id]) if r.id != "dict" else set(CAPS["dict"])
            if isinstance(op, ast.In) and isinstance(l, ast.Attribute) and l.attr == "__name__" and self.type_linked(l.value, S, fi):
                try:
                    names = set(self.ctx.prog.literal(fi.module, r))
                except (KeyError, TypeError):
                    names = None
                if names and names <= LISTLIKE_NAMES:
                    return set(CAPS["listlike"])
        if isinstance(test, ast.Call) and test.args:
            fn = norm(test.func)
            if fn == "isinstance" and norm(test.args[0]) == s_txt and len(test.args) == 2:
                names = [norm(x) for x in (test.args[1].elts if isinstance(test.args[1], ast.Tuple) else [test.args[1]])]
                out = None
                for nme in names:
                    # isinstance() also admits subclasses, whose __len__/__getitem__/__iter__ are the traced program's own
                    # code: only the exception family pins anything (BaseException.args is a C-level slot)
                    caps = CAPS["exception"] if nme in ("Exception", "BaseException") else None
                    if caps is None:
                        return set()
                    out = set(caps) if out is None else out & caps
                return out or set()
            if fn == "issubclass" and len(test.args) == 2 and self.type_linked(test.args[0], S, fi):
                names = [norm(x) for x in (test.args[1].elts if isinstance(test.args[1], ast.Tuple) else [test.args[1]])]
                if names and all(nme in ("Exception", "BaseException") for nme in names):
                    return set(CAPS["exception"])
                return set()
            if fn == "hasattr" and norm(test.args[0]) == s_txt and len(test.args) == 2 and isinstance(test.args[1], ast.Constant):
                return {"hasattr:" + str(test.args[1].value)}
        return set()

    def caps(self, S: ast.expr, node, fi, depth=0) -> set:
        """Capabilities guaranteed for the tainted subject S at node."""
        out = set()
        # intrinsic: CPython-owned mappings / attribute values of pinned kinds
        if isinstance(S, ast.Attribute) and S.attr in ("f_locals", "f_globals", "__dict__"):
            out |= CAPS["dict"]
        if isinstance(S, ast.Attribute) and S.attr == "args" and "args" in self.caps(S.value, node, fi, depth + 1):
            out |= CAPS["listlike"]
        if isinstance(S, ast.Call) and isinstance(S.func, ast.Attribute) and S.func.attr in ("keys", "values", "items") \
                and S.func.attr in self.caps(S.func.value, node, fi, depth + 1):
            out |= CAPS["listlike"] | {"iterate"}
        if isinstance(S, ast.Call) and norm(S.func) in ("list", "tuple") and S.args:
            out |= CAPS["listlike"]
        if isinstance(S, ast.Call) and norm(S.func) in ("enumerate", "reversed", "zip") and S.args and \
                all({"iterate", "tuple"} & self.caps(a_, node, fi, depth + 1) for a_ in S.args if not isinstance(a_, ast.Constant)):
            out |= {"iterate", "list", "tuple", "enumerate"}
        if isinstance(S, ast.Call) and depth < 4:
            # a repo helper that returns a pinned expression of its argument, or None (use sites test `is not None`)
            tg = self.ctx.types.resolve_call(S, fi)
            if len(tg.repo) == 1 and not tg.by_name and not tg.ext and not tg.ctor:
                g_ = tg.repo[0]
                rets = [r.value for r in self.ctx.types.nodes_in(g_, ast.Return) if r.value is not None
                        and not (isinstance(r.value, ast.Constant) and r.value.value is None)]
                if rets and not g_.is_wrapped:
                    acc = None
                    for rv in rets:
                        c_ = self.caps(rv, rv, g_, depth + 1)
                        acc = c_ if acc is None else acc & c_
                    out |= acc or set()
        if isinstance(S, ast.Name):
            binds = self.ctx.types.local_bindings(fi, S.id)
            # single local alias of a pinned expression
            if len(binds) == 1 and binds[0][0] == "assign" and binds[0][1][1] is not None and binds[0][1][2] is None:
                src = binds[0][1][1]
                got = self.caps(src, src, fi, depth + 1)
                if isinstance(src, ast.Call) and self._may_return_none(src, fi):
                    # the helper answers None when there is nothing to read: only uses behind `S is not None` are pinned
                    nn = any((norm(c_) == "%s is not None" % S.id and pol) or (norm(c_) == "%s is None" % S.id and not pol)
                             for c_, pol in paths.conditions(self.ctx.prog, node, fi))
                    if not nn:
                        got = set()
                out |= got
        for test, pol in paths.conditions(self.ctx.prog, node, fi):
            out |= self.from_test(test, pol, S, fi)
        if isinstance(S, ast.Name) and depth < 3 and any(k == "param" for k, _ in self.ctx.types.local_bindings(fi, S.id)):
            out |= self.param_caps(fi, S.id, depth)
        return out

    def _may_return_none(self, call, fi) -> bool:
        tg = self.ctx.types.resolve_call(call, fi)
        for g_ in tg.repo:
            for r in self.ctx.types.nodes_in(g_, ast.Return):
                if r.value is None or (isinstance(r.value, ast.Constant) and r.value.value is None):
                    return True
        return False

    def param_caps(self, fi, pname, depth) -> set:
        key = (self.ctx.types.fkey(fi), pname)
        if key in self._param_memo:
            return self._param_memo[key]
        self._param_memo[key] = set()
        sites = [(cf, c) for cf, c in self.ctx.types.callers.get(key[0], []) if not self.ctx.types.resolve_call(c, cf).by_name]
        res = None
        for cf, call in sites:
            a = self.ctx.types.bind_args(fi, call).get(pname)
            if a is None:
                res = set()
                break
            c_ = self.caps(a, call, cf, depth + 1)
            res = c_ if res is None else res & c_
        out = res or set()
        self._param_memo[key] = out
        return out


def run(ctx: Ctx, tier: str) -> Result:
    res = Result("C06")
    res.explanation = (
        "Totality: host-value taint (sources f_locals/f_globals/the trace arg/eval results, field-based, "
        "interprocedural) enumerates every operation the collector applies to a value owned by the traced program; "
        "each must be total on a dominating type pin (type(v) is dict / __name__ in the list-like names / "
        "isinstance / hasattr of the attribute read / CPython-owned mappings), or be enclosed by a local handler for "
        "Exception - otherwise an input exists (raising dunder, missing attribute, non-string key) for which the whole "
        "snapshot is lost. Independence: the variable table given to each EventSnapshot and the identity cache used "
        "while collecting it must be created per action (not attributes of the per-event trigger context), and one "
        "action uses one cache for frame variables, watches and captures.")
    res.trusted = [TRUSTED_LOGGING, "frame.f_locals / obj.__dict__ are real mappings; Exception.args is a tuple",
                   "`type(v).__name__ in ['frozenset','set','list','tuple']` is accepted as pinning the builtin containers "
                   "(a user class with one of these names would defeat it)"]
    res.assumptions = ["str ==/!= between variable names cannot raise"]
    res.not_decided = ["text that does not come from values: file / function names of code objects, attribute values supplied by plugins",
                       "what the placeholder text looks like"]
    res.rule("C06.TOTAL", "every operation on a host value is pinned by type or locally guarded")
    res.rule("C06.INDEP", "snapshot table and identity cache are created per action; one cache per action")
    res.rule("C06.TEXT", "text derived from program values is made encodable where it is produced (a string that is not valid UTF-8 text does not cost the snapshot)")
    from . import text_rule
    text_rule.check(ctx, res, "C06.TEXT")
    p, t, g = ctx.prog, ctx.types, ctx.guards
    entries = [(f, f.params[3]) for f, _, _ in settrace_entries(ctx) if len(f.params) > 3]
    tn = Taint(p, t, entries)
    scope = collector_scope(ctx)
    res.analysed["collector functions"] = len(scope)
    res.analysed["tainted parameters"] = len(tn.param_taint)
    pins = Pins(ctx, tn)
    nops = 0
    for k in sorted(scope):
        fi = scope[k]
        for op in tn.ops(fi):
            nops += 1
            if op.kind in IGNORED:
                res.ok("C06.TOTAL", {"op": op.kind, "at": fi.loc(op.node), "why": IGNORED[op.kind]})
                continue
            ct = g.catching_try(op.node, fi, "Exception")
            if ct is not None and any(g.reraises(h_) for h_ in ct[0].handlers):
                res.fail(Finding("C06.TOTAL", fi.qname, op.node, fi.loc(op.node), "the local guard around %s on `%s` lets part of the failures through again (a handler re-raises): "
                                 "such a value (endless recursion in __str__, huge repr) loses the snapshot, or leaves it half recorded" % (op.kind, norm(op.subject)[:50])))
                continue
            if ct is not None:
                res.ok("C06.TOTAL", {"op": op.kind, "on": norm(op.subject)[:60], "at": fi.loc(op.node), "why": "local guard at line %d" % ct[0].lineno})
                continue
            if op.kind in GUARD_ONLY or op.kind.startswith("extcall:"):
                res.fail(Finding("C06.TOTAL", fi.qname, op.node, fi.loc(op.node),
                                 "%s runs code of the traced program's object `%s` (raising __str__/__repr__/...) outside any local "
                                 "guard: the whole snapshot is lost" % (op.kind, norm(op.subject)[:60])))
                continue
            caps = pins.caps(op.subject, op.node, fi)
            need_cap = NEEDS.get(op.kind)
            if op.kind.startswith("getattr:"):
                a = op.kind.split(":", 1)[1]
                need_cap = "hasattr:" + a if a not in ("args",) else "args"
            elif op.kind.startswith("method:"):
                need_cap = op.kind.split(":", 1)[1]
            elif op.kind.startswith("mutate"):
                need_cap = "<never>"
            if need_cap in caps and op.kind == "getitem" and isinstance(op.node, ast.Subscript) and not isinstance(op.node.slice, (ast.Constant, ast.Slice)):
                # a dict read by key: the key came from a copy of the keys taken earlier - by the time it is read the entry may be
                # gone (another thread of the program removes it; a key whose hash moved is listed but not found): the read is
                # under a membership test of that key, or guarded
                key_t, subj_t = norm(op.node.slice), norm(op.subject)
                tested = any((pol and norm(c_) == "%s in %s" % (key_t, subj_t)) or ((not pol) and norm(c_) == "%s not in %s" % (key_t, subj_t))
                             for c_, pol in paths.conditions(ctx.prog, op.node, fi))
                # guard form inside a loop: `if key not in value: continue` before the read
                st_op = paths.stmt_of(ctx.prog, op.node)
                for lp_ in paths.enclosing_loops(ctx.prog, op.node, fi):
                    for sib in getattr(lp_, "body", []):
                        if sib.lineno < st_op.lineno and isinstance(sib, ast.If) and not sib.orelse and sib.body and isinstance(sib.body[-1], (ast.Continue, ast.Break)) \
                                and norm(sib.test) in ("%s not in %s" % (key_t, subj_t), "not %s in %s" % (key_t, subj_t)):
                            tested = True
                for anc in ctx.prog.ancestors(op.node, stop=fi.node):
                    if isinstance(anc, (ast.ListComp, ast.GeneratorExp, ast.SetComp, ast.DictComp)):
                        tested = tested or any(norm(i_) == "%s in %s" % (key_t, subj_t) for g_ in anc.generators for i_ in g_.ifs)
                if not tested and g.catching_try(op.node, fi, "KeyError") is None:
                    res.fail(Finding("C06.TOTAL", fi.qname, op.node, fi.loc(op.node), "`%s` reads the program's dict by a key taken from an earlier copy of its keys, without testing that the key "
                                     "is still there: when it is not (removed by another thread, or its hash has moved) the KeyError loses the whole snapshot instead of that one entry" % norm(op.node)[:50]))
                    continue
            if need_cap in caps:
                res.ok("C06.TOTAL", {"op": op.kind, "on": norm(op.subject)[:60], "at": fi.loc(op.node), "why": "pinned by type test"})
            else:
                res.fail(Finding("C06.TOTAL", fi.qname, op.node, fi.loc(op.node),
                                 "%s on the host value `%s` is neither pinned by a dominating type test nor locally guarded: an input "
                                 "(object without that attribute/method, non-string key, raising dunder) loses the whole snapshot" % (
                                     op.kind, norm(op.subject)[:60])))
    res.floor("operations on host values in the collector", nops, 8)
    # what the search iterates is a sequence on every path: the child finders answer a (possibly empty) list, never None
    nf = 0
    for c_ in [c for f_ in scope.values() for c in t.calls_in(f_) if isinstance(c.func, ast.Attribute) and c.func.attr == "add_children" and c.args]:
        pass
    for k in sorted(scope):
        fi = scope[k]
        if not (fi.cls is None and fi.module.name == "deep.processor.variable_processor" and (fi.name.startswith("process_") and "breadth" in fi.name
                                                                                                or fi.name in ("process_child_nodes", "find_children_for_parent"))):
            continue
        nf += 1
        rets = list(t.nodes_in(fi, ast.Return))
        bad = [r for r in rets if r.value is None or (isinstance(r.value, ast.Constant) and r.value.value is None)]
        if bad or not paths.always_returns(fi.node.body):
            res.fail(Finding("C06.TOTAL", fi.qname, bad[0] if bad else "<fall-off>", fi.loc(bad[0]) if bad else fi.loc(),
                             "%s can answer None instead of a list of children: the search then fails on `for child in None` and the whole snapshot is lost "
                             "(values of a childless type, values below the depth limit)" % fi.name))
        else:
            res.ok("C06.TOTAL", {"child finder answers a list on every path": fi.qname})
    res.floor("child finder functions", nf, 4)
    # the placeholder for a value whose str() fails is text
    ss = [f for f in scope.values() if f.name == "safe_str"]
    for f_ in ss:
        for h in t.nodes_in(f_, ast.ExceptHandler):
            for r in [n for n in ast.walk(h) if isinstance(n, ast.Return)]:
                if isinstance(r.value, ast.JoinedStr) or (isinstance(r.value, ast.Constant) and isinstance(r.value.value, str)) or \
                        (isinstance(r.value, ast.BinOp) and isinstance(r.value.left, ast.Constant) and isinstance(r.value.left.value, str)):
                    res.ok("C06.TOTAL", {"placeholder text for an unprintable value": norm(r.value)[:60]})
                else:
                    res.fail(Finding("C06.TOTAL", f_.qname, r, f_.loc(r), "the fallback for a value whose str() fails is not a placeholder text (%s)" % norm(r.value if r.value is not None else r)))

    # ---------------- INDEP
    es = p.cls("deep.api.tracepoint.eventsnapshot.EventSnapshot")
    init = es.lookup("__init__")
    ctors = [(f, c) for f in p.functions.values() for c in t.calls_in(f) if es in t.resolve_call(c, f).ctor]
    res.floor("EventSnapshot constructions", len(ctors), 1)

    def fresh_container(txt: str) -> bool:
        return txt in ("{}", "dict()", "builtins.dict()")

    def passed_through(a, f, depth=0):
        """`a` is element i of what a repo function returns, and that element is one of its parameters: follow the argument."""
        if depth > 3 or a is None:
            return None
        idx, call = None, None
        if isinstance(a, ast.Name):
            bs = [b for k, b in t.local_bindings(f, a.id) if k == "assign"]
            if len(bs) == 1 and isinstance(bs[0][1], ast.Call):
                call, idx = bs[0][1], bs[0][2]
        elif isinstance(a, ast.Subscript) and isinstance(a.value, ast.Call) and isinstance(a.slice, ast.Constant):
            call, idx = a.value, a.slice.value
        if call is None or idx is None:
            return None
        tg = t.resolve_call(call, f)
        if len(tg.repo) != 1 or tg.by_name:
            return None
        g_ = tg.repo[0]
        rets = [r for r in t.nodes_in(g_, ast.Return) if r.value is not None]
        if not rets or not all(isinstance(r.value, ast.Tuple) and idx < len(r.value.elts) and isinstance(r.value.elts[idx], ast.Name) for r in rets):
            return None
        names = {r.value.elts[idx].id for r in rets}
        if len(names) != 1:
            return None
        pn = names.pop()
        if [k for k, _ in t.local_bindings(g_, pn)] != ["param"]:
            return None
        arg = t.bind_args(g_, call).get(pn)
        if arg is None:
            return None
        return ctx.expand.expand(arg, f)

    for f, c in ctors:
        a = t.bind_args(init, c).get("var_lookup")
        txt = ctx.expand.expand(a, f) if a is not None else []
        if not (txt and all(fresh_container(x) for x in txt)):
            txt = passed_through(a, f) or txt
        if txt and all(fresh_container(x) for x in txt):
            res.ok("C06.INDEP", {"snapshot table": txt[0], "at": f.loc(c)})
        else:
            res.fail(Finding("C06.INDEP", f.qname, c, f.loc(c),
                             "the variable table of the snapshot is `%s`, not a table created for this action: tracepoints sharing the trace "
                             "event share (and alter) one another's variables" % txt))
    vsp = p.cls("deep.processor.variable_set_processor.VariableSetProcessor")
    fc = p.func("deep.processor.frame_collector.FrameCollector.collect")
    cache_texts = set()
    nsites = 0
    for f in p.functions.values():
        if not f.module.name.startswith("deep.processor.context"):
            continue
        for c in t.calls_in(f):
            tg = t.resolve_call(c, f)
            arg = None
            if vsp in tg.ctor:
                arg = t.bind_args(vsp.lookup("__init__"), c).get("var_cache")
            elif fc in tg.repo:
                arg = t.bind_args(fc, c).get("var_cache")
            if arg is None:
                continue
            nsites += 1
            txt = ctx.expand.expand(arg, f)
            cache_texts.update(txt)
            ok = bool(txt) and all("trigger_context" not in x for x in txt)
            if ok:
                # the cache must be created in the action context's constructor
                for x in txt:
                    if x.startswith("@self."):
                        fld = x.split(".", 1)[1]
                        st = t.field_stores(f.cls, fld) if f.cls else []
                        if not st or not all(sf.name == "__init__" and isinstance(v, ast.Call) and
                                             any(k.name == "VariableCacheProvider" for k in t.resolve_call(v, sf).ctor) for sf, v, _ in st):
                            ok = False
            if ok:
                res.ok("C06.INDEP", {"identity cache": txt[0], "at": f.loc(c)})
            else:
                res.fail(Finding("C06.INDEP", f.qname, c, f.loc(c),
                                 "the identity cache `%s` is not created per action: a later action of the same event finds the frame's values "
                                 "already cached and records no variables" % txt))
    # an action context created while processing another action (the log of a snapshot) feeds the same snapshot
    # table, so it must number its variables with the same identity cache
    acx = p.cls("deep.processor.context.action_context.ActionContext")
    for f in p.functions.values():
        if f.cls is None or not f.cls.is_subclass_of(acx):
            continue
        for c in t.calls_in(f):
            for k in t.resolve_call(c, f).ctor:
                if not k.is_subclass_of(acx):
                    continue
                st = paths.stmt_of(p, c)
                name = st.targets[0].id if isinstance(st, ast.Assign) and isinstance(st.targets[0], ast.Name) else None
                shared = False
                if name:
                    for n in t.nodes_in(f, ast.Assign):
                        tg = n.targets[0]
                        if isinstance(tg, ast.Attribute) and isinstance(tg.value, ast.Name) and tg.value.id == name and \
                                ctx.expand.expand(n.value, f) and set(ctx.expand.expand(n.value, f)) <= cache_texts | {"@self.var_cache"} and \
                                paths.dominates(p, st, n, f):
                            uses = [u for u in t.calls_in(f) if isinstance(u.func, ast.Attribute) and isinstance(u.func.value, ast.Name)
                                    and u.func.value.id == name]
                            if all(paths.dominates(p, n, u, f) for u in uses):
                                shared = True
                if shared:
                    res.ok("C06.INDEP", {"nested context shares the action's cache": f.loc(c)})
                else:
                    res.fail(Finding("C06.INDEP", f.qname, c, f.loc(c),
                                     "a nested %s is created while processing this action but numbers its variables with its own identity cache: "
                                     "when its variables are merged into the snapshot they overwrite entries with the same ids" % k.name))
    # action contexts may only take immutable facts and injected services from the per-event trigger context: any object
    # the trigger context itself creates (containers, collectors, caches) is shared by all actions of the event
    tcc = p.cls("deep.processor.context.trigger_context.TriggerContext")
    created = {}
    for lst in tcc.methods.values():
        for m_ in lst:
            for n in t.nodes_in(m_, (ast.Assign, ast.AnnAssign)):
                tg = n.targets[0] if isinstance(n, ast.Assign) else n.target
                v = n.value
                if isinstance(tg, ast.Attribute) and isinstance(tg.value, ast.Name) and tg.value.id == "self" and v is not None:
                    made = isinstance(v, (ast.Dict, ast.List, ast.Set)) or (isinstance(v, ast.Call) and (t.resolve_call(v, m_).ctor or
                                                                              norm(v.func) in ("dict", "list", "set", "deque")))
                    if made:
                        created[tcc.mangle(tg.attr)] = m_.loc(n)
    exposes = {}
    for name, lst in tcc.methods.items():
        for m_ in lst:
            for r in t.nodes_in(m_, ast.Return):
                if isinstance(r.value, ast.Attribute) and isinstance(r.value.value, ast.Name) and r.value.value.id == "self" \
                        and tcc.mangle(r.value.attr) in created:
                    exposes[name] = tcc.mangle(r.value.attr)
    APPEND_ONLY = {"_TriggerContext__results": "results are only appended through attach_result"}
    nacc = 0
    for f in p.functions.values():
        if f.cls is None or not (f.cls.is_subclass_of(acx) or f.cls.name in ("FrameCollector",)):
            continue
        for n in t.nodes_in(f, ast.Attribute):
            if not any(tt[0] == "inst" and tt[1] == tcc.qname for tt in t.type_of(n.value, f)):
                continue
            nacc += 1
            fld = exposes.get(n.attr) or (tcc.mangle(n.attr) if tcc.mangle(n.attr) in created else None)
            if fld is None or fld in APPEND_ONLY:
                res.ok("C06.INDEP")
            else:
                res.fail(Finding("C06.INDEP", f.qname, n, f.loc(n),
                                 "the action takes `%s` from the per-event trigger context, an object the trigger context creates once (%s): it is "
                                 "shared by every action of the trace event, so tracepoints at one location alter one another's collection" % (norm(n), created[fld])))
    res.floor("trigger-context accesses from action code", nacc, 10)
    res.floor("identity-cache uses in action contexts", nsites, 3)
    if len(cache_texts) <= 1:
        res.ok("C06.INDEP", {"one cache per action": sorted(cache_texts)})
    else:
        res.fail(Finding("C06.INDEP", "deep.processor.context.action_context.ActionContext", "<identity caches>", "src/deep/processor/context",
                         "frame variables, watches and captures of one action use different identity caches %s: references cannot resolve in the snapshot's table" % sorted(cache_texts)))
    from .common import borrow
    borrow(ctx, res, tier, "c07", ("C07.OPTIONAL",), "C06.LIMIT", "a value that could not be recorded (budget exhausted) yields `not recorded`, never an error that takes the snapshot with it")
    borrow(ctx, res, tier, "c20", ("C20.ISO",), "C06.ISOLATE", "the results of the tracepoints sharing an event are processed each in its own guard")
    borrow(ctx, res, tier, "c15", ("C15.RESULT",), "C06.COMPLETE", "a deferred snapshot is handed to delivery once it is complete: the captured result and its variables are in "
           "it before the (concurrent) sender sees it")
    borrow(ctx, res, tier, "c15", ("C15.THREAD",), "C06.COMPLETE", "a deferred snapshot is completed by its own thread's events (the queue of pending work is per thread)")
    borrow(ctx, res, tier, "c05", ("C05.STR",), "C06.TOTAL", "cutting a text to the limit cannot fail (a slice of the text, no re-encoding that may split a character)")
    borrow(ctx, res, tier, "c07", ("C07.MERGE",), "C06.COMPLETE", "what a snapshot's log fields recorded is part of that snapshot: their table entries are merged in whenever their ids were "
           "handed out (a later capture of the same object refers to them)")
    borrow(ctx, res, tier, "c15", ("C15.ONCE",), "C06.COMPLETE", "every deferred snapshot of an event is completed: the callbacks of one closing event are all run")
    borrow(ctx, res, tier, "c05", ("C05.BUDGET",), "C06.TOTAL", "the search goes on after a value that was already recorded: only the budget ends it")
    return res
