"""C12 installed tracepoints converge to the latest configuration - see DESIGN.md section 4 (C12)."""
import ast

from .common import Ctx, Finding, Result, need, term, P, TRUSTED_LOGGING
from ..index import norm
from .. import paths

SVC = "deep.config.tracepoint_config.TracepointConfigService"
POLL = "deep.poll.poll.LongPoll"
TIMER = "deep.utils.RepeatedTimer"


def run(ctx: Ctx, tier: str) -> Result:
    res = Result("C12")
    res.explanation = (
        "Shape rules of the poll/update path: in LongPoll.poll the state updates are the last effect (every may-raise "
        "step - stub, request, stub.poll, response conversion - is evaluated before them); hash and configuration "
        "are written together, only by update_new_config, with the listener notification after both stores; "
        "no-change writes only the timestamp; the reported hash is that stored hash; the timer loop guards the "
        "polled function inside the loop and lets nothing escape, the initial poll is guarded; ordering rule: since "
        "listener updates run on a multi-worker pool, `last submitted wins` requires a serial executor, or applying "
        "the configuration read at run time under a lock, or a version check; listeners get polled + registered "
        "tracepoints; the handler installs exactly the list it is given.")
    res.trusted = [TRUSTED_LOGGING, "a lock serialises its critical sections"]
    res.not_decided = ["actual interleavings and quiescence", "the service's behaviour"]
    for rid, text in (("C12.FAIL", "a failed or unintelligible poll leaves the stored configuration untouched"),
                      ("C12.STATE", "hash and configuration stored together; no-change writes only the timestamp; reported hash is the stored one"),
                      ("C12.LOOP", "polling continues after failures"),
                      ("C12.ORDER", "updates applied in an order in which the latest configuration wins"),
                      ("C12.APPLY", "listeners get polled + registered tracepoints; the handler installs what it is given")):
        res.rule(rid, text)
    p, t, g = ctx.prog, ctx.types, ctx.guards
    svc = p.cls(SVC)

    # ---------------- FAIL
    poll = p.func(POLL + ".poll")
    ups = [c for c in t.calls_in(poll) if any(x.qname in (SVC + ".update_no_change", SVC + ".update_new_config") for x in t.resolve_call(c, poll).repo)]
    res.floor("state update calls in poll", len(ups), 2)
    for u in ups:
        st = paths.stmt_of(p, u)
        pos = paths.block_position(p, st)
        later = getattr(pos[0], pos[1])[pos[2] + 1:]
        later_sites = [s for s in g.sites(poll) if any(paths.within(p, s.node, x) for x in later) and g.site_escapes(s, poll)]
        # nothing may follow the update in its branch, and the branch must be the end of the function
        outer = paths.block_position(p, pos[0]) if isinstance(pos[0], ast.If) else None
        after_if = getattr(outer[0], outer[1])[outer[2] + 1:] if outer else []
        if paths.always_exits(getattr(pos[0], pos[1])):
            after_if = []       # the branch ends in return/raise: what follows the `if` is not executed after this update
        tail_sites = [s for s in g.sites(poll) if any(paths.within(p, s.node, x) for x in after_if) and g.site_escapes(s, poll)]
        if not later_sites and not tail_sites:
            res.ok("C12.FAIL", {"update is the last effect": norm(u)[:80]})
        else:
            bad = (later_sites + tail_sites)[0]
            res.fail(Finding("C12.FAIL", poll.qname, bad.node, poll.loc(bad.node), "a step that may fail follows the state update `%s`: a failing poll leaves a half-applied configuration" % norm(u)[:60]))
        if paths.enclosing_loops(p, u, poll) or g.catching_try(u, poll, "Exception") is not None and False:
            res.fail(Finding("C12.FAIL", poll.qname, u, poll.loc(u), "state update inside a loop"))
    conv = [c for c in t.calls_in(poll) if any(x.qname == "deep.grpc.convert_response" for x in t.resolve_call(c, poll).repo)]
    if conv and all(any(paths.within(p, c, u) for u in ups) or any(paths.dominates(p, c, u, poll) for u in ups) for c in conv):
        res.ok("C12.FAIL", {"response converted before the state update": norm(conv[0])})
    else:
        res.fail(Finding("C12.FAIL", poll.qname, conv[0] if conv else "<convert_response>", poll.loc(), "the response is not fully converted before the configuration is replaced"))
    nc = [u for u in ups if any(x.qname.endswith("update_no_change") for x in t.resolve_call(u, poll).repo)]
    if nc and any(pol and "NO_CHANGE" in norm(c) for c, pol in paths.conditions(p, nc[0], poll)):
        res.ok("C12.FAIL", {"no-change answer handled separately": True})
    else:
        res.fail(Finding("C12.FAIL", poll.qname, nc[0] if nc else "<update_no_change>", poll.loc(), "a NO_CHANGE response is not routed to update_no_change"))

    # ---------------- STATE
    unc = p.func(SVC + ".update_no_change")
    writes = [norm(n.targets[0]) for n in t.nodes_in(unc, ast.Assign)] + [norm(n.target) for n in t.nodes_in(unc, ast.AugAssign)]
    calls = [c for c in t.calls_in(unc) if t.resolve_call(c, unc).repo]
    if writes == ["self._last_update"] and not calls:
        res.ok("C12.STATE", {"update_no_change writes": writes})
    else:
        res.fail(Finding("C12.STATE", unc.qname, "<self._last_update = ts>", unc.loc(), "a `no change` answer alters more than the timestamp: writes %s, calls %s" % (writes, [norm(c) for c in calls])))
    und = p.func(SVC + ".update_new_config")
    hs = [n for n in t.nodes_in(und, ast.Assign) if norm(n.targets[0]) == "self._current_hash"]
    cs = [n for n in t.nodes_in(und, ast.Assign) if norm(n.targets[0]) == "self._tracepoint_config"]
    tu = [c for c in t.calls_in(und) if any(x.name.endswith("trigger_update") for x in t.resolve_call(c, und).repo)]
    okst = len(hs) == 1 and len(cs) == 1 and norm(hs[0].value) == und.params[2] and norm(cs[0].value) == und.params[3] and len(tu) == 1 \
        and paths.dominates(p, hs[0], tu[0], und) and paths.dominates(p, cs[0], tu[0], und) and not paths.conditions(p, hs[0], und) and not paths.conditions(p, cs[0], und)
    lo, hi = (min(hs[0].lineno, cs[0].lineno), max(hs[0].lineno, cs[0].lineno)) if hs and cs else (0, 0)
    between = [s for s in g.sites(und) if lo < getattr(s.node, "lineno", 0) < hi and g.site_escapes(s, und)]
    if okst and not between:
        res.ok("C12.STATE", {"hash and config stored together, then listeners notified": und.loc(tu[0])})
    else:
        res.fail(Finding("C12.STATE", und.qname, "<hash; config; notify>", und.loc(), "update_new_config does not store the new hash and the new configuration together (unconditionally) before notifying the listeners"))
    for fld in ("_current_hash", "_tracepoint_config"):
        others = [(sf, v) for sf, v, _ in t.field_stores(svc, fld) if sf.name not in ("__init__", "update_new_config")]
        if others:
            res.fail(Finding("C12.STATE", others[0][0].qname, paths.stmt_of(p, others[0][1]), others[0][0].loc(others[0][1]), "%s is also written outside update_new_config" % fld))
        else:
            res.ok("C12.STATE", {fld: "written only by update_new_config"})
    pcls = p.cls(POLL)
    pr, prf = [], poll
    for f_ in [poll] + [x for lst in pcls.methods.values() for x in lst if x is not poll]:
        found_ = [c for c in t.calls_in(f_) if any(e.endswith("PollRequest") for e in t.resolve_call(c, f_).ext)]
        if found_:
            pr, prf = found_, f_
            break
    need(len(pr) == 1, "poll: PollRequest construction not found")
    kw = {k.arg: k.value for k in pr[0].keywords}
    ch = ctx.expand.expand(kw["current_hash"], prf) if "current_hash" in kw else []
    if ch and ch[0].endswith("._current_hash"):
        res.ok("C12.STATE", {"reported hash": ch[0]})
    else:
        res.fail(Finding("C12.STATE", poll.qname, pr[0], poll.loc(pr[0]), "the poll request does not report the stored configuration hash: %s" % ch))
    una = t.bind_args(und, [u for u in ups if u not in nc][0]) if [u for u in ups if u not in nc] else {}
    hash_arg = norm(una.get(und.params[2])) if und.params[2] in una else ""
    if hash_arg.endswith(".current_hash"):
        res.ok("C12.STATE", {"stored hash is the response's": hash_arg})
    else:
        res.fail(Finding("C12.STATE", poll.qname, "<update_new_config(..., response.current_hash, ...)>", poll.loc(), "the hash stored with a new configuration is not the hash of that response: %s" % hash_arg))

    # ---------------- LOOP
    tg = p.func(TIMER + "._target")
    loops = [l for l in t.nodes_in(tg, ast.While)]
    need(len(loops) == 1, "RepeatedTimer._target: loop not found")
    fcall = [c for c in t.calls_in(tg) if isinstance(c.func, ast.Attribute) and norm(c.func) == "self.function"]
    need(len(fcall) == 1, "RepeatedTimer._target: call of the repeated function not found")
    ct = g.catching_try(fcall[0], tg, "Exception")
    if ct is not None and paths.within(p, ct[0], loops[0]) and not [n for n in ast.walk(ct[1]) if isinstance(n, (ast.Break, ast.Return, ast.Raise))]:
        res.ok("C12.LOOP", {"poll guarded inside the timer loop": tg.loc(ct[0])})
    else:
        res.fail(Finding("C12.LOOP", tg.qname, fcall[0], tg.loc(fcall[0]), "a failing poll ends the timer loop (no guard for Exception inside the loop that keeps looping)"))
    esc = g.escape_tokens(tg)
    if not esc:
        res.ok("C12.LOOP", {"nothing escapes the timer thread": True})
    for tok, ch_ in esc.items():
        res.fail(Finding("C12.LOOP", tg.qname, "<escape %s>" % tok, tg.loc(), "%s can end the poll timer thread" % tok, path=g.fmt_chain(ch_)))
    # the timer runs with the interval it was given (a sub-second interval cut to 0 makes the timer thread die in its first
    # wait computation, outside the guard of the loop)
    rt = p.cls(TIMER)
    rinit = rt.lookup("__init__")
    ist = [(sf, v) for sf, v, _ in t.field_stores(rt, "interval")]
    def keeps(e, f, pn, depth=0):
        """e is the value of parameter pn of f as given, at most made a float"""
        if depth > 4 or e is None:
            return False
        if isinstance(e, ast.Name):
            if e.id == pn:
                return True
            bs_ = [b for k_, b in t.local_bindings(f, e.id)]
            return bool(bs_) and all(isinstance(b, tuple) and b[2] is None and keeps(b[1], f, pn, depth + 1) for b in bs_)
        if isinstance(e, ast.Call) and norm(e.func) == "float" and len(e.args) == 1:
            return keeps(e.args[0], f, pn, depth + 1)
        if isinstance(e, ast.Call):
            tg_ = t.resolve_call(e, f)
            if len(tg_.repo) == 1 and not tg_.ext:
                h_ = tg_.repo[0]
                q = [qn for qn, a_ in t.bind_args(h_, e).items() if keeps(a_, f, pn, depth + 1)]
                rets_ = [r for r in t.nodes_in(h_, ast.Return)]
                return len(q) >= 1 and bool(rets_) and all(r.value is not None and any(keeps(r.value, h_, qn, depth + 1) for qn in q) for r in rets_)
        return False
    ipar = [pn for pn in rinit.params if pn == "interval"] or rinit.params[2:3]
    if ist and ipar and all(sf is rinit and keeps(v, rinit, ipar[0]) for sf, v in ist):
        res.ok("C12.LOOP", {"timer interval stored as given": norm(ist[0][1])})
    else:
        bad_ = next(((sf, v) for sf, v in ist if not (sf is rinit and ipar and keeps(v, rinit, ipar[0]))), None)
        res.fail(Finding("C12.LOOP", (bad_[0] if bad_ else rinit).qname, bad_[1] if bad_ else "<self.interval = interval>", (bad_[0] if bad_ else rinit).loc(bad_[1]) if bad_ else rinit.loc(),
                         "the timer does not keep the interval it was given (`%s`): a fractional interval is cut (0.25 -> 0: the wait computation divides by it and the poll "
                         "thread ends before its first poll), or the interval changes while the timer runs" % (norm(bad_[1])[:50] if bad_ else "no store")))
    # ... and a poll that failed does not keep a later one from running: a lock taken on the poll path is given back on
    # every way out
    from .common import lock_leaks
    pollpath = [f for f in p.functions.values() if f.module.name.startswith(("deep.poll", "deep.grpc", "deep.config.tracepoint_config", "deep.utils"))]
    leaks = lock_leaks(ctx, pollpath)
    for f_, c_, why in leaks:
        res.fail(Finding("C12.LOOP", f_.qname, c_, f_.loc(c_), "`%s` is %s: after one failed poll every later poll stops at the lock, the agent keeps the "
                         "old configuration for good" % (norm(c_), why)))
    if not leaks:
        res.ok("C12.LOOP", {"no explicit lock acquisition without a guaranteed release on the poll path": len(pollpath)})
    ip = [f for f in p.functions.values() if f.cls is p.cls(POLL) and f.name.endswith("initial_poll")]
    st = p.func(POLL + ".start")
    started = [c for c in t.calls_in(st) if any(x.qname == TIMER + ".start" for x in t.resolve_call(c, st).repo)]
    ok_init = False
    if ip:
        pc = [c for c in t.calls_in(ip[0]) if poll in t.resolve_call(c, ip[0]).repo]
        ok_init = bool(pc) and g.catching_try(pc[0], ip[0], "Exception") is not None
    else:
        pc = [c for c in t.calls_in(st) if poll in t.resolve_call(c, st).repo]
        ok_init = not pc or g.catching_try(pc[0], st, "Exception") is not None
    if ok_init and started:
        res.ok("C12.LOOP", {"initial poll guarded; timer started": True})
    else:
        res.fail(Finding("C12.LOOP", st.qname, "<guarded initial poll; timer.start()>", st.loc(), "a failing initial poll prevents the poll timer from being started"))
    tm = [c for c in t.calls_in(st) if any(k.qname == TIMER for k in t.resolve_call(c, st).ctor)]
    if tm and len(tm[0].args) >= 3 and any(tt[0] in ("bound", "func") and tt[1] == t.fkey(poll) for tt in t.type_of(tm[0].args[2], st)):
        res.ok("C12.LOOP", {"timer repeats": "LongPoll.poll"})
    else:
        res.fail(Finding("C12.LOOP", st.qname, tm[0] if tm else "<RepeatedTimer(..., self.poll)>", st.loc(), "the timer does not repeat LongPoll.poll"))

    # ---------------- ORDER
    ul = p.func(SVC + ".update_listeners")
    th = p.func("deep.task.TaskHandler.__init__")
    pools = [c for c in t.calls_in(th) if any(e.endswith("ThreadPoolExecutor") for e in t.resolve_call(c, th).ext)]
    serial = bool(pools) and any(k.arg == "max_workers" and isinstance(k.value, ast.Constant) and k.value.value == 1 for k in pools[0].keywords)
    cc = [c for c in t.calls_in(ul) if isinstance(c.func, ast.Attribute) and c.func.attr == "config_change"]
    need(len(cc) == 1, "update_listeners: config_change call not found")
    locked_reread = False
    withs = [a for a in p.ancestors(cc[0], stop=ul.node) if isinstance(a, ast.With) and any("lock" in norm(i.context_expr).lower() for i in a.items)]
    if withs:
        w = withs[0]
        lock_txt = norm(w.items[0].context_expr)
        lock_fld = lock_txt.split(".", 1)[1] if lock_txt.startswith("self.") else None
        lock_ok = lock_fld is not None and all(sf.name == "__init__" and isinstance(v, ast.Call) and "Lock" in norm(v.func) for sf, v, _ in t.field_stores(svc, lock_fld)) \
            and bool(t.field_stores(svc, lock_fld))
        # the configuration handed to the listeners is (re-)read from the service state inside the critical section
        names_in_arg = {n.id for n in ast.walk(cc[0].args[-1]) if isinstance(n, ast.Name)}
        direct = "self._tracepoint_config" in norm(cc[0].args[-1])
        rr_stmt = [n for n in ast.walk(w) if isinstance(n, ast.Assign) and norm(n.value) == "self._tracepoint_config"
                   and isinstance(n.targets[0], ast.Name) and n.targets[0].id in names_in_arg and paths.dominates(p, n, cc[0], ul)]
        captured = ul.params[5] in names_in_arg and not rr_stmt
        locked_reread = lock_ok and (direct or bool(rr_stmt)) and not captured
    versioned = any(isinstance(n, ast.Compare) and ("version" in norm(n) or "_last_update" in norm(n)) for n in t.nodes_in(ul, ast.Compare))
    if serial or locked_reread or versioned:
        res.ok("C12.ORDER", {"latest wins because": "serial executor" if serial else ("configuration re-read under a lock when the update runs" if locked_reread else "version check")})
    else:
        res.fail(Finding("C12.ORDER", ul.qname, cc[0], ul.loc(cc[0]),
                         "listener updates run on a pool of several workers with the configuration captured when they were submitted and nothing "
                         "orders them: two in-flight updates can be applied in either order, leaving an older configuration installed while "
                         "the newer hash is reported"))

    # a requested update is never dropped: publication is unconditional, or skipped only behind a `dirty` flag that is
    # cleared *before* the state is read (a request arriving while the listeners run must find the flag set again)
    early = [n for n in t.nodes_in(ul, (ast.Return, ast.Raise)) if n.lineno < cc[0].lineno]
    early_tests = {id(c) for n in early for c, _ in paths.conditions(p, n, ul)}
    extra_c = [c for c, pol in paths.conditions(p, cc[0], ul) if id(c) not in early_tests]
    for n in early:
        cs = paths.conditions(p, n, ul)
        flag = None
        if len(cs) == 1:
            c0, pol0 = cs[0]
            if isinstance(c0, ast.UnaryOp) and isinstance(c0.op, ast.Not) and pol0 and norm(c0.operand).startswith("self."):
                flag = norm(c0.operand)
            elif not pol0 and norm(c0).startswith("self.") and isinstance(c0, ast.Attribute):
                flag = norm(c0)
        reads = [x for x in t.nodes_in(ul, ast.Attribute) if norm(x) in ("self._tracepoint_config", "self._custom", "self._current_hash") and x.lineno > n.lineno]
        clears = [a for a in t.nodes_in(ul, ast.Assign) if flag and norm(a.targets[0]) == flag and isinstance(a.value, ast.Constant) and a.value.value is False] if flag else []
        okf = bool(flag) and bool(reads) and any(a.lineno > n.lineno and a.lineno < min(r.lineno for r in reads) and paths.dominates(p, a, cc[0], ul) for a in clears) \
            and not any(a.lineno >= min(r.lineno for r in reads) for a in clears)
        if okf:
            res.ok("C12.ORDER", {"publication skipped only behind a flag cleared before the state is read": flag})
        else:
            res.fail(Finding("C12.ORDER", ul.qname, n, ul.loc(n), "a submitted listener update can return without publishing (`%s`)%s: a change made while another update is "
                             "publishing is lost - the handler keeps the older set while the newer hash is reported" % (
                                 " and ".join(norm(c)[:40] for c, _ in cs) or "unconditional", ", and the flag is cleared after the state was read" if flag else "")))
    for c in extra_c:
        res.fail(Finding("C12.ORDER", ul.qname, c, ul.loc(c), "the listeners are only called when `%s`" % norm(c)[:60]))
    if not early and not extra_c:
        res.ok("C12.ORDER", {"every submitted update publishes": True})

    # ---------------- APPLY
    last = ctx.expand.expand(cc[0].args[-1], ul)
    if last and all(x.endswith(" + @self._custom") and ("_tracepoint_config" in x or ("@" + ul.params[5]) in x) for x in last):
        res.ok("C12.APPLY", {"listeners receive": last[0]})
    else:
        res.fail(Finding("C12.APPLY", ul.qname, cc[0], ul.loc(cc[0]), "listeners do not receive polled + registered tracepoints: %s" % last))
    lp = [l for l in paths.enclosing_loops(p, cc[0], ul) if isinstance(l, ast.For)]
    ct = g.catching_try(cc[0], ul, "Exception")
    if lp and ct is not None and paths.within(p, ct[0], lp[0]):
        res.ok("C12.APPLY", {"each listener isolated": True})
    else:
        res.fail(Finding("C12.APPLY", ul.qname, cc[0], ul.loc(cc[0]), "a failing listener prevents the others (the trigger handler) from getting the new configuration"))
    lst = p.func("deep.processor.trigger_handler.TracepointHandlerUpdateListener.config_change")
    nc_ = [c for c in t.calls_in(lst) if any(x.name == "new_config" for x in t.resolve_call(c, lst).repo)]
    hn = p.func("deep.processor.trigger_handler.TriggerHandler.new_config")
    hw = [n for n in t.nodes_in(hn, ast.Assign)]
    skip = [n for n in t.nodes_in(lst, (ast.Return, ast.Raise)) if nc_ and n.lineno < nc_[0].lineno] + \
        [c for c, _ in (paths.conditions(p, nc_[0], lst) if nc_ else [])] + list(paths.enclosing_loops(p, nc_[0], lst) if nc_ else [])
    if skip:
        res.fail(Finding("C12.APPLY", lst.qname, skip[0], lst.loc(skip[0]), "the listener passes an update on to the trigger handler only on some paths (`%s`): the update that "
                         "is skipped (e.g. the last registration being removed while the service has no tracepoints) leaves an older set installed" % norm(skip[0])[:60]))
    if len(nc_) == 1 and ctx.expand.expand(nc_[0].args[0], lst) == [P(lst, 5)] and len(hw) == 1 and norm(hw[0].value) == hn.params[1] and not paths.conditions(p, hw[0], hn):
        res.ok("C12.APPLY", {"handler installs exactly the list it is given": norm(hw[0])})
    else:
        res.fail(Finding("C12.APPLY", hn.qname, hw[0] if hw else "<self._tp_config = new_config>", hn.loc(), "the trigger handler does not install exactly the configuration the listener passes on"))
    from .common import borrow
    borrow(ctx, res, tier, "c03", ("C03.MERGE",), "C12.MERGE", "tracepoints of a response are grouped by a key that tells different locations apart")
    borrow(ctx, res, tier, "c13", ("C13.MATCH",), "C12.REMOVE", "an unregistered tracepoint leaves the registered set, and only it: removal by identity, harmless when the handle is unknown (a failing "
           "removal leaves the tracepoint installed and published again)")
    borrow(ctx, res, tier, "c13", ("C13.ADD",), "C12.NOTIFY", "every change of the configuration is submitted to the listeners")
    borrow(ctx, res, tier, "c11", ("C11.ISOLATE",), "C12.APPLY", "an answer with one tracepoint the agent cannot interpret is still taken over (hash and the other tracepoints): "
           "otherwise the same answer is refused at every poll and the agent stays on the older configuration")
    borrow(ctx, res, tier, "c03", ("C03.LOOP",), "C12.ACT", "the agent acts on every installed tracepoint of a location, the registered ones next to the service's")
    borrow(ctx, res, tier, "c09", ("C09.C",), "C12.NOTIFY", "the task that publishes a configuration is never refused or dropped by the task handler while it is open")
    return res
