"""Per-property checks (c01 .. c20) and the rules they share."""
import importlib


def run_property(ctx, pid: str, tier: str):
    """The check of one property: its own rules, then the rule every property shares for its scope (inert diagnostics)."""
    mod = importlib.import_module("sa.props.%s" % pid.lower())
    res = mod.run(ctx, tier)
    from . import diag_rule
    if pid + ".DIAG" not in res.rules:
        diag_rule.check(ctx, res, pid)
    return res
