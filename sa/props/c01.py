"""C01 host transparency - see DESIGN.md section 4 (C01)."""
import ast

from .common import Ctx, Finding, Result, settrace_entries, need, TRUSTED_LOGGING
from ..index import norm
from .. import paths


def run(ctx: Ctx, tier: str) -> Result:
    res = Result("C01")
    res.explanation = (
        "Exception-containment analysis of the sys.settrace callback: every construct that may raise in the "
        "callback or in any resolved callee (fixed point over the call graph, lexically enclosing handlers "
        "applied) must be contained by a catch-all that does not re-raise (R1); every exit of the callback "
        "returns the callback itself except the empty-configuration early exit (R2); no state-advancing or "
        "mutating operation is applied to a value that originates from the traced frame (R3).")
    res.trusted = [TRUSTED_LOGGING, "builtin container/str methods listed in sa/guards.py SAFE_METHODS/SAFE_EXT",
                   "CPython frame/code attribute reads (f_code, f_lineno, co_name, f_back) do not raise"]
    res.not_decided = ["side effects inside user-supplied expressions and third-party plugin code",
                       "equality of program output with/without the agent (runtime differential notion)"]
    res.rule("C01.R1", "no exception token escapes the trace callback")
    res.rule("C01.R2", "every exit of the trace callback keeps tracing on (returns the callback)")
    res.rule("C01.R3", "no mutation / state advance of host values (taint)")
    res.rule("C01.R4", "a contained failure leaves the per-thread handler state usable and does not skip matching")

    entries = {}
    for f, installer, call in settrace_entries(ctx):
        entries.setdefault(f.qname, (f, []))[1].append((installer, call))
    res.floor("trace entry points", len(entries), 1)
    g = ctx.guards

    total_sites = 0
    for qn, (entry, installs) in sorted(entries.items()):
        # ---- R1
        reach = reachable(ctx, entry)
        nsites = sum(len(g.sites(f)) for f in reach)
        total_sites += nsites
        catch_alls = 0
        for n in ctx.types.nodes_in(entry, ast.ExceptHandler):
            if g.catches(n, "BaseException", entry) and not g.reraises(n):
                catch_alls += 1
        res.analysed["catch-all guards in %s" % entry.name] = catch_alls
        res.analysed["functions reachable from %s" % entry.name] = len(reach)
        for s in g.sites(entry):
            esc = g.site_escapes(s, entry)
            if not esc and s.tokens and g.catching_try(s.node, entry, "BaseException") is None:
                # anything running below the callback - user expressions, __str__ of program values, plugins, or an
                # asynchronous KeyboardInterrupt - can raise a BaseException that is not an Exception
                esc = {"BaseException": ((entry.qname, entry.loc(s.node), "only guarded for Exception: a BaseException raised below (expression, plugin, "
                                          "value rendering) is not contained"),)}
            if not esc:
                res.ok("C01.R1", {"site": norm(s.node)[:100], "at": entry.loc(s.node), "tokens": sorted(s.tokens)})
                continue
            for tok, ch in sorted(esc.items()):
                res.fail(Finding("C01.R1", entry.qname, s.node, entry.loc(s.node),
                                 "%s may be raised into application code (no enclosing catch-all in the trace "
                                 "callback)" % tok, path=g.fmt_chain(ch)))
        # every may-raise site of every function reachable from the callback is an obligation: it is discharged when
        # nothing escapes the callback (the sites of the callback itself were classified above)
        if not g.escape_tokens(entry):
            shown = 0
            for f in sorted(reach, key=lambda x: x.qname):
                if f is entry:
                    continue
                for s_ in g.sites(f):
                    if not s_.tokens:
                        continue
                    local = g.site_escapes(s_, f)
                    sample = None
                    if local and shown < 12:
                        shown += 1
                        sample = {"site": norm(s_.node)[:80], "in": f.qname, "escapes its function as": sorted(local), "contained": "by the callback's catch-all"}
                    res.ok("C01.R1", sample)

        # ---- R2
        check_returns(ctx, res, entry, entry, set())
    res.floor("may-raise sites classified", total_sites, 25)

    # ---- R4: a contained failure leaves the thread's handler state usable (tracing is not silently switched off)
    from .common import trace_worker
    worker, roles = trace_worker(ctx)
    hcls = worker.cls
    need(hcls is not None, "trace worker is not a method")
    tl_fields = set()
    for (cq, attr), lst in ctx.types._attr_store_index().items():
        if cq == hcls.qname:
            for sf, v, _ in lst:
                if v is not None and any(k.name == "ThreadLocal" for k in ctx.types.resolve_call(v, sf).ctor) if isinstance(v, ast.Call) else False:
                    tl_fields.add(attr)
    res.analysed["per-thread handler state"] = sorted(tl_fields)
    n_pop = 0
    for f in [x for lst in hcls.methods.values() for x in lst]:
        for fld in sorted(tl_fields):
            def on_field(e):
                return ("self.%s" % fld) in norm(e)
            pops = [c for c in ctx.types.calls_in(f) if isinstance(c.func, ast.Attribute) and c.func.attr in ("pop", "popleft") and on_field(c.func.value)]
            clears = [c for c in ctx.types.calls_in(f) if isinstance(c.func, ast.Attribute) and c.func.attr == "clear" and norm(c.func.value) == "self.%s" % fld]
            for pc in pops:
                n_pop += 1
                pst = paths.stmt_of(ctx.prog, pc)
                bad = None
                for s_, e_ in g.unguarded_sites(f):
                    if s_.node is pc or paths.within(ctx.prog, s_.node, pst) or not paths.dominates(ctx.prog, pst, s_.node, f):
                        continue
                    if any(isinstance(a, ast.Try) and any(paths.within(ctx.prog, s_.node, fb) for fb in a.finalbody)
                           for a in ctx.prog.ancestors(s_.node, stop=f.node)):
                        continue        # part of the clean-up itself
                    # the failure escapes f after the pop: the emptiness clean-up must still run
                    covered = False
                    for c in clears:
                        for a in ctx.prog.ancestors(c, stop=f.node):
                            if isinstance(a, ast.Try) and any(paths.within(ctx.prog, c, fb) for fb in a.finalbody) \
                                    and any(paths.within(ctx.prog, s_.node, b) for b in a.body + a.orelse):
                                covered = True
                    if clears and not covered:
                        bad = (s_, e_)
                        break
                if bad:
                    s_, e_ = bad
                    res.fail(Finding("C01.R4", f.qname, s_.node, f.loc(s_.node),
                                     "a failure here (after `%s`) skips the clean-up of the per-thread %s: it stays set and empty, every later "
                                     "line/return/exception event of the thread fails before tracepoint matching - tracing is silently switched off "
                                     "for the thread" % (norm(pc)[:50], fld), path=g.fmt_chain(sorted(e_.items())[0][1])))
                else:
                    res.ok("C01.R4", {"pop": norm(pc)[:60], "in": f.qname, "clean-up runs on failure": True})
    res.floor("pops of per-thread handler state", n_pop, 1)
    # the deferred work of earlier events runs before the matching of this event: its failure must not skip the matching
    matchers = [c for c in ctx.types.calls_in(worker) if any(x.cls is hcls and any(
        isinstance(n, ast.Call) and isinstance(n.func, ast.Attribute) and n.func.attr == "at_location" for n in ctx.types.nodes_in(x))
        for x in ctx.types.resolve_call(c, worker).repo)]
    match_call = [c for c in matchers if not any(("self.%s" % fld) in norm(cc) for fld in tl_fields for cc, _ in paths.conditions(ctx.prog, c, worker))]
    need(match_call, "trace worker: the call that matches tracepoints against the event was not found")
    mst = paths.stmt_of(ctx.prog, match_call[0])
    for s_, e_ in g.unguarded_sites(worker):
        st = paths.stmt_of(ctx.prog, s_.node)
        if st.lineno >= mst.lineno or paths.within(ctx.prog, mst, st):
            continue
        if not any(("self.%s" % fld) in norm(cc) for fld in tl_fields for cc, _ in paths.conditions(ctx.prog, s_.node, worker)):
            continue        # not the deferred work of an earlier event
        res.fail(Finding("C01.R4", worker.qname, s_.node, worker.loc(s_.node),
                         "a failure of `%s` (work left over from an earlier event) is only caught by the outer catch-all: the tracepoints of the "
                         "current event are not matched" % norm(s_.node)[:60], path=g.fmt_chain(sorted(e_.items())[0][1])))
    res.ok("C01.R4", {"matching not skipped by earlier steps": worker.loc(mst)})

    # ---- R3
    from . import c01_taint
    c01_taint.check(ctx, res, [e for e, _ in entries.values()])
    from .common import borrow
    borrow(ctx, res, tier, "c17", ("C17.VALUE",), "C01.R3", "what leaves the agent for a plugin is text and numbers of the agent's making, not the program's objects (a label value is "
           "str(..) of the evaluated expression: a plugin rendering the object later would run the program's code under the plugin's locks)")
    borrow(ctx, res, tier, "c15", ("C15.THREAD",), "C01.R4", "the handler's per-thread state lives in a threading.local of its own (no thread registry, context or identity table the "
           "program can see or inherit)")
    borrow(ctx, res, tier, "c13", ("C13.ARGS",), "C01.R3", "a mapping / list the program hands to register_tracepoint stays the program's: the agent reads it, it never "
           "writes into it (the program's data changes, a read-only mapping raises into the program)")
    borrow(ctx, res, tier, "c14", ("C14.B", "C14.C"), "C01.HOOKS", "the trace hooks the program (a debugger, coverage) had installed are the ones put back when the agent stops, "
           "and are left alone when tracing is switched off: afterwards the program runs as it did before the agent")
    borrow(ctx, res, tier, "c12", ("C12.APPLY",), "C01.R2", "a new configuration replaces the installed one in one step: while it is emptied and refilled in place, a function entered "
           "at that moment finds `no tracepoints`, is not traced for the whole of its frame, and the tracepoints in it never act")
    borrow(ctx, res, tier, "c04", ("C04.INT",), "C01.R1", "a limit that cannot be read as an integer falls back to its default where it is parsed: the parse error is never raised into "
           "the code that registers the tracepoint")
    return res


def reachable(ctx: Ctx, entry):
    seen, stack = {}, [entry]
    while stack:
        f = stack.pop()
        k = ctx.types.fkey(f)
        if k in seen:
            continue
        seen[k] = f
        for c in ctx.types.calls_in(f):
            for t in ctx.types.resolve_call(c, f).repo:
                stack.append(t)
        for n in ctx.types.nodes_in(f, ast.Attribute):
            for t in ctx.types.property_targets(n, f):
                stack.append(t)
    return list(seen.values())


def check_returns(ctx: Ctx, res: Result, func, entry, seen):
    """Every normal exit of `func` yields the trace callback `entry` (delegating returns are followed)."""
    k = ctx.types.fkey(func)
    if k in seen:
        return
    seen.add(k)
    need(func.node.body, "empty function %s" % func.qname)
    if paths.always_returns(func.node.body):
        res.ok("C01.R2", {"no fall-off end in": func.qname})
    else:
        res.fail(Finding("C01.R2", func.qname, "<fall-off end>", func.loc(),
                         "a path through the trace callback ends without `return <callback>` "
                         "(implicit None switches line tracing off for the frame)"))
    for r in ctx.types.nodes_in(func, ast.Return):
        if returns_entry(ctx, r, func, entry):
            res.ok("C01.R2", {"return": norm(r), "at": func.loc(r)})
        elif is_empty_config_exit(ctx, r, func):
            res.ok("C01.R2", {"return": norm(r), "at": func.loc(r), "why": "empty-configuration early exit"})
        elif isinstance(r.value, ast.Call) and ctx.types.resolve_call(r.value, func).repo and \
                not ctx.types.resolve_call(r.value, func).ext:
            for g in ctx.types.resolve_call(r.value, func).repo:
                check_returns(ctx, res, g, entry, seen)
            res.ok("C01.R2", {"return": norm(r), "at": func.loc(r), "why": "delegates; callee exits checked"})
        else:
            res.fail(Finding("C01.R2", func.qname, r, func.loc(r),
                             "trace callback returns something other than itself outside the "
                             "empty-configuration early exit: tracing is switched off for this frame"))


def returns_entry(ctx: Ctx, r: ast.Return, func, entry) -> bool:
    if r.value is None:
        return False
    ts = ctx.types.type_of(r.value, func)
    return bool(ts) and all(t[0] in ("bound", "func") and t[1] == ctx.types.fkey(entry) for t in ts)


def is_empty_config_exit(ctx: Ctx, r: ast.Return, entry) -> bool:
    """`return None` control-dependent on an emptiness test of the installed trigger list."""
    if r.value is not None and not (isinstance(r.value, ast.Constant) and r.value.value is None):
        return False
    for test, pol in paths.conditions(ctx.prog, r, entry):
        x = emptiness_subject(test, pol)
        if x is None:
            continue
        ts = ctx.types.type_of(x, entry)
        for t in ts:
            if t[0] == "seq" and any(e[0] == "inst" and e[1].endswith(".Trigger") for e in t[1]):
                return True
    return False


def emptiness_subject(test: ast.expr, pol: bool):
    """X if (test, pol) states that X is empty: `len(X) == 0`, `not X`, `len(X) < 1`, `not len(X)`."""
    if pol and isinstance(test, ast.Compare) and len(test.ops) == 1:
        l, op, r = test.left, test.ops[0], test.comparators[0]
        if isinstance(l, ast.Call) and norm(l.func) == "len" and isinstance(r, ast.Constant):
            if (isinstance(op, ast.Eq) and r.value == 0) or (isinstance(op, ast.Lt) and r.value == 1) or \
                    (isinstance(op, ast.LtE) and r.value == 0):
                return l.args[0]
    if pol and isinstance(test, ast.UnaryOp) and isinstance(test.op, ast.Not):
        v = test.operand
        if isinstance(v, ast.Call) and norm(v.func) == "len":
            return v.args[0]
        return v
    if not pol and isinstance(test, ast.Call) and norm(test.func) == "len":
        return test.args[0]
    if not pol and isinstance(test, (ast.Name, ast.Attribute)):
        return test
    return None
