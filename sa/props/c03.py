"""C03 trigger placement - see DESIGN.md section 4 (C03)."""
import ast

from .common import Ctx, Finding, Result, need, term, P, trace_worker, TRUSTED_LOGGING
from ..index import norm
from ..dtable import Table, Vars, compare
from .. import paths

TRIG = "deep.api.tracepoint.trigger"


def table_rule(res, rid, table, refvars, ref, what):
    n, bad = compare(table, refvars, ref)
    res.analysed["%s worlds" % what] = n
    if not bad:
        res.ok(rid, {"table": what, "abstract worlds": n, "rows": len(table.rows)})
    for w, got, want, row in bad:
        res.fail(Finding(rid, table.fi.qname, row.node if row.node is not table.fi.node else "<fall-off>",
                         table.fi.loc(row.node), "%s: in the abstract world %s the function yields %s, the property "
                         "requires %s" % (what, w, got, want)))
    return n


def run(ctx: Ctx, tier: str) -> Result:
    res = Result("C03")
    res.explanation = (
        "Decision tables of LineLocation.at_location and the named branch of FunctionLocation.at_location are "
        "extracted from the AST and compared, over every abstract world of their comparison atoms, with the "
        "reference (line: event=line and file and line equal; method: file equal and event=call and name equal). "
        "Origin expansion checks that the matcher receives (event, basename(frame.f_code.co_filename), "
        "frame.f_lineno, frame.f_code.co_name, frame) of the callback's own frame. Loop-shape rules: the "
        "matcher visits every installed trigger and adds all actions of exactly the matching ones; actions are "
        "processed only from that list, each inside its own catch-all, process() only under can_trigger(); "
        "convert_response merges same-location tracepoints instead of overwriting.")
    res.trusted = [TRUSTED_LOGGING]
    res.not_decided = ["that CPython delivers a line event for a given source line",
                       "basename collisions between equally named files (the statement says 'a source file with that name')"]
    for rid, text in (("C03.LINE", "LineLocation.at_location decision table"),
                      ("C03.FUNC", "FunctionLocation.at_location (named) decision table"),
                      ("C03.ORIG", "location tuple originates from the callback's own frame"),
                      ("C03.LOOP", "matcher visits all triggers, adds all actions of matching ones only"),
                      ("C03.ACT", "only matched actions are processed, each isolated, process() under can_trigger()"),
                      ("C03.MERGE", "same-location tracepoints merged, not overwritten")):
        res.rule(rid, text)
    p, t, g = ctx.prog, ctx.types, ctx.guards

    # ---------------- LINE
    fi = p.func(TRIG + ".LineLocation.at_location")
    tb = Table(ctx, fi)
    ev, fl, ln = P(fi, 1), P(fi, 2), P(fi, 3)
    path, line = term(ctx, fi, "self.path"), term(ctx, fi, "self.line")
    rv = Vars()
    rv.enum(ev, "line"); rv.enum(ev, "call"); rv.enum(ev, "return"); rv.enum(ev, "exception")
    rv.rel(fl, path, False); rv.rel(ln, line, False)
    table_rule(res, "C03.LINE", tb, rv,
               lambda w: w.enum[ev] == "line" and w.relation(fl, path) == "EQ" and w.relation(ln, line) == "EQ",
               "line tracepoint fires iff event=line, file=path, line=line")
    # the stored path/line are the constructor's arguments
    check_ctor_field(ctx, res, TRIG + ".LineLocation", "path", 1)
    check_ctor_field(ctx, res, TRIG + ".LineLocation", "line", 2)

    # ---------------- FUNC
    fi = p.func(TRIG + ".FunctionLocation.at_location")
    tb = Table(ctx, fi)
    ev, fl, fn = P(fi, 1), P(fi, 2), P(fi, 4)
    path, name = term(ctx, fi, "self.path"), term(ctx, fi, "self.name")
    rv = Vars()
    for e in ("line", "call", "return", "exception"):
        rv.enum(ev, e)
    rv.rel(fl, path, False); rv.rel(fn, name, False); rv.enum(name, None)

    def ref_func(w):
        if w.enum[name] is None:
            return lambda got: True      # unnamed method location: outside this property's statement (see C11)
        return w.enum[ev] == "call" and w.relation(fl, path) == "EQ" and w.relation(fn, name) == "EQ"
    table_rule(res, "C03.FUNC", tb, rv, ref_func, "method tracepoint fires iff file=path, event=call, function=name")
    check_ctor_field(ctx, res, TRIG + ".FunctionLocation", "path", 1)

    # Trigger.at_location forwards its five arguments unchanged to its location
    tr = p.func(TRIG + ".Trigger.at_location")
    fwd = [c for c in t.calls_in(tr) if isinstance(c.func, ast.Attribute) and c.func.attr == "at_location"]
    need(len(fwd) == 1, "Trigger.at_location: forwarding call not found")
    want = ["@" + x for x in tr.params[1:6]]
    got = [ctx.expand.expand(a, tr) for a in fwd[0].args]
    rets = [n for n in t.nodes_in(tr, ast.Return)]
    if [x[0] for x in got] == want and len(rets) == 1 and rets[0].value is fwd[0]:
        res.ok("C03.ORIG", {"Trigger.at_location forwards": want})
    else:
        res.fail(Finding("C03.ORIG", tr.qname, fwd[0], tr.loc(fwd[0]), "Trigger.at_location does not forward its arguments unchanged: %s" % got))

    # ---------------- ORIG
    worker, roles = trace_worker(ctx)
    res.analysed["trace worker"] = worker.qname
    matchers = [f for f in p.functions.values() if f.cls is worker.cls and any(
        any(x.qname == TRIG + ".Trigger.at_location" for x in t.resolve_call(c, f).repo) for c in t.calls_in(f))]
    need(len(matchers) == 1, "expected one matcher function calling Trigger.at_location, found %s" % [m.qname for m in matchers])
    matcher = matchers[0]
    mcalls = [c for c in t.calls_in(worker) if matcher in t.resolve_call(c, worker).repo]
    need(len(mcalls) == 1, "matcher %s is called %d times from %s" % (matcher.qname, len(mcalls), worker.qname))
    mcall = mcalls[0]
    at = [c for c in t.calls_in(matcher) if any(x.qname == TRIG + ".Trigger.at_location" for x in t.resolve_call(c, matcher).repo)][0]
    F, E = "@" + roles["frame"], "@" + roles["event"]
    expected = {"event": [E], "file": ["os.path.basename(%s.f_code.co_filename)" % F],
                "line": ["%s.f_lineno" % F], "function_name": ["%s.f_code.co_name" % F], "frame": [F]}
    absf = p.func(TRIG + ".Location.at_location")
    bound_at = t.bind_args(absf, at)
    bound_m = t.bind_args(matcher, mcall)
    for role, want in expected.items():
        a = bound_at.get(role)
        need(a is not None, "at_location call does not pass `%s`" % role)
        e1 = ctx.expand.expand(a, matcher)
        ok = False
        got = e1
        if len(e1) == 1 and e1[0].startswith("@") and e1[0][1:] in bound_m:
            got = [x for x in ctx.expand.expand(bound_m[e1[0][1:]], worker) if not x.startswith("<loop:")]
            ok = got == want
        if ok:
            res.ok("C03.ORIG", {"role": role, "origin": got[0]})
        else:
            res.fail(Finding("C03.ORIG", worker.qname, a, matcher.loc(a),
                             "matching receives `%s` for %s, expected %s of the callback's own frame" % (got, role, want[0])))

    # ---------------- LOOP
    loops = [n for n in t.nodes_in(matcher, ast.For)]
    comps = [n for n in t.nodes_in(matcher, ast.ListComp)]
    if len(loops) == 1:
        lp = loops[0]
        it_expr, tv = lp.iter, norm(lp.target)
        exits = [n for n in ast.walk(lp) if isinstance(n, (ast.Break, ast.Return, ast.Continue))]
        # `if not trigger.at_location(..): continue` skips the trigger that does not match - the guard form of the test
        for g_ in [n for n in lp.body if isinstance(n, ast.If) and not n.orelse and len(n.body) == 1 and isinstance(n.body[0], ast.Continue)]:
            if isinstance(g_.test, ast.UnaryOp) and isinstance(g_.test.op, ast.Not) and g_.test.operand is at:
                exits = [x for x in exits if x is not g_.body[0]]
        adds = [n for n in ast.walk(lp) if (isinstance(n, ast.AugAssign) and isinstance(n.op, ast.Add)) or
                (isinstance(n, ast.Call) and isinstance(n.func, ast.Attribute) and n.func.attr in ("extend", "append"))]
        adds_ok = bool(adds)
        for a in adds:
            val = a.value if isinstance(a, ast.AugAssign) else (a.args[0] if a.args else None)
            conds = paths.conditions(p, a, matcher)
            whole = val is not None and norm(val) == tv + ".actions" and not (isinstance(a, ast.Call) and a.func.attr == "append")
            under_match = any(pol and any(n is at for n in ast.walk(c)) and not isinstance(c, ast.UnaryOp) and
                              not (isinstance(c, ast.BoolOp) and isinstance(c.op, ast.Or)) for c, pol in conds)
            only_match = len(conds) == sum(1 for c, pol in conds if any(n is at for n in ast.walk(c)))
            if not (whole and under_match and only_match):
                adds_ok = False
                res.fail(Finding("C03.LOOP", matcher.qname, a, matcher.loc(a),
                                 "actions are not added as `all actions of the trigger iff it matches` (value %s, conditions %s)" % (
                                     norm(val) if val is not None else None, [(norm(c), pol) for c, pol in conds])))
        racc = [n for n in t.nodes_in(matcher, ast.Return)]
        acc_name = (norm(adds[0].target) if isinstance(adds[0], ast.AugAssign) else norm(adds[0].func.value)) if adds else None
        ret_ok = len(racc) == 1 and racc[0].value is not None and norm(racc[0].value) == acc_name
        anchor = lp
    elif not loops and len(comps) == 1 and len(comps[0].generators) == 2:
        # [action for trigger in installed if trigger.at_location(...) for action in trigger.actions]
        cp = comps[0]
        g0, g1 = cp.generators
        it_expr, tv = g0.iter, norm(g0.target)
        exits = []
        adds_ok = len(g0.ifs) == 1 and g0.ifs[0] is at and not g1.ifs and norm(g1.iter) == tv + ".actions" and norm(cp.elt) == norm(g1.target)
        if not adds_ok:
            res.fail(Finding("C03.LOOP", matcher.qname, cp, matcher.loc(cp), "the comprehension does not yield `all actions of every trigger that matches`"))
        racc = [n for n in t.nodes_in(matcher, ast.Return)]
        ret_ok = len(racc) == 1 and (racc[0].value is cp or (isinstance(racc[0].value, ast.Name) and any(
            k == "assign" and b_[1] is cp for k, b_ in t.local_bindings(matcher, racc[0].value.id))))
        anchor = cp
    elif not loops and not comps and [c for c in t.calls_in(matcher) if norm(c.func).endswith("chain.from_iterable") and len(c.args) == 1
                                        and isinstance(c.args[0], ast.GeneratorExp)]:
        # list(chain.from_iterable(trigger.actions for trigger in <all matching triggers>)): every match contributes all its actions
        ch = [c for c in t.calls_in(matcher) if norm(c.func).endswith("chain.from_iterable")][0]
        ge = ch.args[0]
        g0 = ge.generators[0]
        tv = norm(g0.target)
        src_ = g0.iter
        cond_ok = False
        if len(ge.generators) == 1 and norm(ge.elt) == tv + ".actions":
            if len(g0.ifs) == 1 and g0.ifs[0] is at:
                it_expr, cond_ok = src_, True                                  # ... for trigger in installed if trigger.at_location(..)
            elif not g0.ifs and isinstance(src_, ast.GeneratorExp) and len(src_.generators) == 1 and len(src_.generators[0].ifs) == 1 \
                    and src_.generators[0].ifs[0] is at and norm(src_.elt) == norm(src_.generators[0].target):
                it_expr, cond_ok = src_.generators[0].iter, True                # ... for trigger in (t for t in installed if t.at_location(..))
        exits = []
        adds_ok = cond_ok
        if not cond_ok:
            it_expr = src_
            res.fail(Finding("C03.LOOP", matcher.qname, ch, matcher.loc(ch), "the chained generator does not yield `all actions of every trigger that matches`"))
        racc = [n for n in t.nodes_in(matcher, ast.Return)]
        wrap = racc[0].value if len(racc) == 1 else None
        ret_ok = wrap is ch or (isinstance(wrap, ast.Call) and norm(wrap.func) in ("list", "tuple") and len(wrap.args) == 1 and wrap.args[0] is ch)
        anchor = ch
    else:
        # neither a loop over the installed triggers nor the equivalent comprehension: whatever is there (first match only,
        # a lookup by key) does not visit every trigger and add all actions of each matching one
        first_ = [n for n in t.nodes_in(matcher, ast.Call) if isinstance(n.func, ast.Name) and n.func.id in ("next", "any", "filter")]
        res.fail(Finding("C03.LOOP", matcher.qname, first_[0] if first_ else "<for trigger in installed: if trigger.at_location(..): actions += trigger.actions>",
                         matcher.loc(first_[0]) if first_ else matcher.loc(),
                         "the matcher does not visit every installed trigger and add all actions of each one that matches%s: of several tracepoints on one location "
                         "(registered ones are kept as triggers of their own) only one acts" % (" (`%s` stops at the first)" % norm(first_[0])[:50] if first_ else "")))
        return res
    it_t = t.type_of(it_expr, matcher)
    cfg_ok = any(x[0] == "seq" and any(e[0] == "inst" and e[1] == TRIG + ".Trigger" for e in x[1]) for x in it_t)
    stores = t.field_stores(matcher.cls, it_expr.attr) if isinstance(it_expr, ast.Attribute) else []
    from_listener = any(sf.name == "new_config" for sf, v, _ in stores)
    if cfg_ok and from_listener and isinstance(it_expr, ast.Attribute):
        res.ok("C03.LOOP", {"iterates installed list": norm(it_expr)})
    else:
        res.fail(Finding("C03.LOOP", matcher.qname, it_expr, matcher.loc(anchor), "matcher does not iterate the installed trigger list (the one new_config assigns)"))
    if exits:
        res.fail(Finding("C03.LOOP", matcher.qname, exits[0], matcher.loc(exits[0]), "early exit from the matching loop: later triggers on the same location are ignored"))
    else:
        res.ok("C03.LOOP", {"no early exit from matching loop": True})
    if adds_ok:
        res.ok("C03.LOOP", {"adds": "all actions of every matching trigger"})
    if ret_ok:
        res.ok("C03.LOOP", {"returns accumulated list": True})
    else:
        res.fail(Finding("C03.LOOP", matcher.qname, racc[0] if racc else "<return>", matcher.loc(), "matcher does not return the accumulated action list"))

    # ---------------- ACT
    ac_calls = [c for c in t.calls_in(worker) if any(x.name == "action_context" for x in t.resolve_call(c, worker).repo)]
    if not ac_calls:
        # the action loop was moved into a helper that could not be read back in place (it leaves the loop on some path): a way
        # out of the loop other than its end skips the actions of the tracepoints listed after the current one
        for c0 in t.calls_in(worker):
            for h_ in t.resolve_call(c0, worker).repo:
                if h_.cls is not worker.cls:
                    continue
                hac = [c for c in t.calls_in(h_) if any(x.name == "action_context" for x in t.resolve_call(c, h_).repo)]
                for c in hac:
                    for lp_ in [l for l in paths.enclosing_loops(p, c, h_) if isinstance(l, ast.For)][:1]:
                        outs = [n for n in ast.walk(lp_) if isinstance(n, (ast.Return, ast.Break)) and not any(isinstance(a_, ast.ExceptHandler) for a_ in p.ancestors(n, stop=lp_))]
                        for n in outs[:1]:
                            res.fail(Finding("C03.ACT", h_.qname, n, h_.loc(n), "`%s` leaves the loop over the matched actions: when it is taken for one tracepoint (not allowed to fire just now) the "
                                             "tracepoints listed after it on the same location do not act although they are due" % norm(n)[:40]))
    need(ac_calls or res.findings, "worker: no action_context() call")
    if not ac_calls:
        return res
    macc = None
    for n in t.nodes_in(worker, ast.Assign):
        if n.value is mcall and isinstance(n.targets[0], ast.Name):
            macc = n.targets[0].id
    need(macc, "worker: matcher result is not bound to a local")
    for c in ac_calls:
        lps = [l for l in paths.enclosing_loops(p, c, worker) if isinstance(l, ast.For)]
        ok = bool(lps) and norm(lps[0].iter) == macc and c.args and norm(c.args[0]) == norm(lps[0].target)
        if ok:
            res.ok("C03.ACT", {"action context from matched list": norm(c)})
        else:
            res.fail(Finding("C03.ACT", worker.qname, c, worker.loc(c), "an action context is created for something other than an element of the matched action list"))
        # every matched action is considered on its own: inside the loop nothing decides beforehand that an action is skipped
        # (what another action of the same tracepoint was refused for - no processor of its kind - need not hold for this one)
        if lps:
            skip_c = [(norm(x), pol) for x, pol in paths.conditions(p, c, worker) if paths.within(p, x, lps[0])]
            if skip_c:
                res.fail(Finding("C03.ACT", worker.qname, c, worker.loc(c), "a matched action is only considered when `%s%s`: an action skipped for what happened to another one (a metric action refused "
                                 "for want of a processor) never acts although it is due" % ("" if skip_c[0][1] else "not ", skip_c[0][0][:60])))
            else:
                res.ok("C03.ACT", {"every matched action gets its context": worker.loc(c)})
        # isolation: catch-all inside the loop
        ct = g.catching_try(c, worker, "BaseException")
        if ct is not None and lps and paths.within(p, ct[0], lps[0]):
            res.ok("C03.ACT", {"per-action catch-all inside the loop": worker.loc(ct[0])})
        else:
            res.fail(Finding("C03.ACT", worker.qname, c, worker.loc(c), "processing of one action is not isolated by a catch-all inside the action loop: one failing tracepoint stops the others on the same location"))
    procs = [c for c in t.calls_in(worker) if any(x.qname.endswith("ActionContext.process") for x in t.resolve_call(c, worker).repo)]
    need(procs, "worker: no process() call")
    for c in procs:
        conds = paths.conditions(p, c, worker)
        gate = [cc for cc, pol in conds if pol and isinstance(cc, ast.Call) and
                any(x.name == "can_trigger" for x in t.resolve_call(cc, worker).repo)
                and norm(cc.func.value) == norm(c.func.value)]
        if gate:
            res.ok("C03.ACT", {"process() under": norm(gate[0])})
        else:
            res.fail(Finding("C03.ACT", worker.qname, c, worker.loc(c), "process() is not control-dependent on can_trigger() of the same context"))
    # nothing is processed when the matched list is empty: the action loop is the only place creating contexts (checked above)

    # processing of the matched actions depends on nothing but the installed / matched lists being non-empty
    import re
    for c in ac_calls:
        lps = [l for l in paths.enclosing_loops(p, c, worker) if isinstance(l, ast.For)]
        if not lps:
            continue
        for test, pol in paths.conditions(p, lps[0], worker):
            subjects = set()
            for n in ast.walk(test):
                if isinstance(n, (ast.Name, ast.Attribute)) and not isinstance(p.parent_of(n), ast.Attribute) and norm(n) != "len":
                    subjects.add(norm(n))
            ok_sub = True
            for sname in subjects:
                e = ast.parse(sname, mode="eval").body
                for x in ast.walk(e):
                    ctx.prog.owner[id(x)] = worker
                ctx._extra.setdefault("keepalive", []).append(e)
                ts = t.type_of(e, worker)
                is_list = any(tt[0] == "seq" and any(el[0] == "inst" and (el[1].endswith(".Trigger") or el[1].endswith(".LocationAction")) for el in tt[1]) for tt in ts)
                if not (is_list or sname == macc):
                    ok_sub = False
            if ok_sub:
                res.ok("C03.ACT", {"action loop reached whenever": "%s is %s" % (norm(test), pol)})
            else:
                res.fail(Finding("C03.ACT", worker.qname, test, worker.loc(test),
                                 "whether the matched actions are processed also depends on `%s` (handler state, not the match): a tracepoint "
                                 "whose location was reached is silently skipped" % norm(test)))

    # ---------------- MERGE
    # the merge key (location id) must determine everything at_location compares, else different locations are merged
    for cname in ("LineLocation", "FunctionLocation"):
        c_ = p.cls(TRIG + "." + cname)
        atl, idg = c_.lookup("at_location"), c_.lookup("id")
        need(atl is not None and idg is not None and not atl.is_abstract and not idg.is_abstract, "%s: at_location / id not found" % cname)
        # the id getter may be inherited: read it with `self` being an instance of this class
        rets_ = [r for r in t.nodes_in(idg, ast.Return) if r.value is not None]
        need(rets_, "%s.id returns nothing" % cname)
        idts = []
        for r in rets_:
            idts += ctx.expand.expand(r.value, idg)
        if idg.cls is not c_:
            # keep only what this class contributes: fields of c_ and of its bases
            own = {"_" + k.name.lstrip("_") for k in c_.mro}

            def mine(f):
                m = re.match(r"(_[A-Za-z0-9]+?)__\w", f)
                return m is None or m.group(1) in own
            idts = [x for x in idts if all(mine(f) for f in re.findall(r"@self\.(_\w+)", x))]
        idt = " | ".join(idts)
        fields_id = set(re.findall(r"@self\.(_\w+)", idt))
        tb_ = Table(ctx, atl)
        fields_at = set()
        for r_ in tb_.rows:
            for cnd, _ in r_.conds:
                fields_at |= set(re.findall(r"@self\.(_\w+)", norm(cnd)))
            if r_.result is not None:
                fields_at |= set(re.findall(r"@self\.(_\w+)", norm(r_.result)))
        missing = sorted(fields_at - fields_id)
        if not missing and fields_id:
            res.ok("C03.MERGE", {"%s.id covers the matched fields" % cname: sorted(fields_at)})
        else:
            res.fail(Finding("C03.MERGE", idg.qname, idt, idg.loc(),
                             "%s.id (the key tracepoints are merged by) does not include %s which at_location compares: tracepoints on "
                             "different locations are merged into one and act at the wrong place" % (cname, missing or "any field")))
    # a trigger's id is its location's id (the merge key is read from the trigger)
    tid = p.cls(TRIG + ".Trigger").lookup("id")
    need(tid is not None, "Trigger.id not found")
    trets = [r for r in t.nodes_in(tid, ast.Return)]
    tloc = p.cls(TRIG + ".Trigger").lookup("location")
    okt = len(trets) == 1 and trets[0].value is not None and isinstance(trets[0].value, ast.Attribute) and trets[0].value.attr == "id"
    if okt:
        base = ctx.expand.expand(trets[0].value.value, tid)
        st_ = [(sf, v) for sf, v, _ in t.field_stores(p.cls(TRIG + ".Trigger"), "__location")]
        okt = len(base) == 1 and base[0].endswith("__location") and bool(st_) and all(sf.name == "__init__" and isinstance(v, ast.Name) and v.id == sf.params[1] for sf, v in st_)
    if okt:
        res.ok("C03.MERGE", {"Trigger.id": "the id of the location it was built with"})
    else:
        res.fail(Finding("C03.MERGE", tid.qname, trets[0] if trets else "<return self.location.id>", tid.loc(), "Trigger.id is not the id of the trigger's own location: "
                         "tracepoints of different locations share a merge key and are merged into one"))
    cr = p.func("deep.grpc.convert_response")
    stores = [n for n in t.nodes_in(cr, ast.Assign) if isinstance(n.targets[0], ast.Subscript)]
    merges = [c for c in t.calls_in(cr) if any(x.name == "merge_actions" for x in t.resolve_call(c, cr).repo)]
    need(stores, "convert_response: no dictionary store found")
    for s in stores:
        is_id = key_is_location_id(ctx, cr, s.targets[0].slice, s.value)
        if is_id:
            res.ok("C03.MERGE", {"merge key": "the id of the stored trigger's location"})
        else:
            res.fail(Finding("C03.MERGE", cr.qname, s, cr.loc(s), "tracepoints are grouped by `%s`, not by the location id of the trigger that is stored: "
                             "tracepoints on different locations can be merged into one" % norm(s.targets[0].slice)))
        key, cont = norm(s.targets[0].slice), norm(s.targets[0].value)
        conds = paths.conditions(p, s, cr)
        absent = any(isinstance(c, ast.Compare) and len(c.ops) == 1 and norm(c.left) == key and norm(c.comparators[0]) == cont
                     and ((isinstance(c.ops[0], ast.In) and not pol) or (isinstance(c.ops[0], ast.NotIn) and pol)) for c, pol in conds)
        if absent and merges:
            res.ok("C03.MERGE", {"store only when location is new": norm(s)})
        else:
            res.fail(Finding("C03.MERGE", cr.qname, s, cr.loc(s), "a trigger is stored under its location id without the `not already present` test: "
                             "an earlier tracepoint on the same location is overwritten"))
    ma = p.func(TRIG + ".Trigger.merge_actions")
    ext = [n for n in t.nodes_in(ma) if (isinstance(n, ast.AugAssign) and isinstance(n.op, ast.Add)) or
           (isinstance(n, ast.Call) and isinstance(n.func, ast.Attribute) and n.func.attr == "extend")]
    if ext and not [n for n in t.nodes_in(ma, ast.Assign)]:
        res.ok("C03.MERGE", {"merge_actions extends": norm(ext[0])})
    else:
        res.fail(Finding("C03.MERGE", ma.qname, "<extend actions>", ma.loc(), "merge_actions replaces instead of extending the action list"))
    for m in merges:
        if m.args and norm(m.args[0]).endswith(".actions"):
            res.ok("C03.MERGE", {"merges all actions": norm(m)})
        else:
            res.fail(Finding("C03.MERGE", cr.qname, m, cr.loc(m), "merge does not pass all actions of the new trigger"))
    from .common import borrow
    borrow(ctx, res, tier, "c13", ("C13.ADD", "C13.ARGS"), "C03.PUBLISH", "what is installed is the service's tracepoints plus the registered ones, each once (a removed tracepoint stops acting)")
    borrow(ctx, res, tier, "c11", ("C11.ISOLATE",), "C03.ISOLATE", "a tracepoint that cannot be interpreted does not keep the others of the response from acting")
    borrow(ctx, res, tier, "c15", ("C15.ONCE", "C15.THREAD"), "C03.DEFER", "the deferred part of an action is carried out by the event that ends the invocation that was hit, in its thread - "
           "a context that is put back after it was processed, or a queue shared between threads, lets another event (a later call, another thread's return) cause the action")
    borrow(ctx, res, tier, "c12", ("C12.ORDER",), "C03.PUBLISH", "the configuration published last is the latest one (read and publication are one critical section)")
    borrow(ctx, res, tier, "c12", ("C12.APPLY",), "C03.PUBLISH", "every published configuration is installed, the empty one included (tracepoints that were removed stop acting)")
    return res


def key_is_location_id(ctx: Ctx, f, key: ast.expr, stored: ast.expr) -> bool:
    """`key` denotes <stored>.id (directly, or through a local bound once to it)."""
    want = norm(stored) + ".id"
    if norm(key) == want:
        return True
    if isinstance(key, ast.Name):
        binds = [b for k, b in ctx.types.local_bindings(f, key.id) if k == "assign"]
        return len(binds) == 1 and binds[0][1] is not None and norm(binds[0][1]) == want
    return False


def check_ctor_field(ctx: Ctx, res: Result, cls_qn: str, prop: str, ctor_index: int):
    """property `prop` of cls returns the field that __init__ assigns from positional parameter ctor_index."""
    c = ctx.prog.cls(cls_qn)
    getter = c.lookup(prop)
    init = c.lookup("__init__")
    need(getter is not None and init is not None, "%s.%s / __init__ not found" % (cls_qn, prop))
    field = term(ctx, getter, "self." + prop) if False else None
    rets = [n for n in ctx.types.nodes_in(getter, ast.Return)]
    need(len(rets) == 1, "%s.%s: expected a single return" % (cls_qn, prop))
    txt = ctx.expand.expand(rets[0].value, getter)
    stores = [(sf, v) for sf, v, _ in ctx.types.field_stores(c, rets[0].value.attr)] if isinstance(rets[0].value, ast.Attribute) else []
    ok = len(txt) == 1 and stores and all(sf is init and isinstance(v, ast.Name) and v.id == init.params[ctor_index] for sf, v in stores)
    if ok:
        res.ok("C03.ORIG", {"%s.%s" % (c.name, prop): "constructor parameter %d (%s)" % (ctor_index, init.params[ctor_index])})
    else:
        res.fail(Finding("C03.ORIG", getter.qname, rets[0], getter.loc(rets[0]),
                         "%s.%s is not the value given to the constructor as parameter %d" % (c.name, prop, ctor_index)))
