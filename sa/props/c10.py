"""C10 conditions and expressions - see DESIGN.md section 4 (C10)."""
import ast

from .common import Ctx, Finding, Result, need, term, P, TRUSTED_LOGGING, trace_worker
from .c03 import table_rule
from .c04 import state_rule, AC
from ..index import norm
from ..dtable import Table, Vars
from .. import paths

TC = "deep.processor.context.trigger_context.TriggerContext"
TRUE_WORDS = ("yes", "true", "t", "1", "y")


def eval_sites(ctx: Ctx):
    out = []
    for fi in ctx.prog.functions.values():
        for c in ctx.types.calls_in(fi):
            if any(e in ("builtins.eval", "builtins.exec", "builtins.compile") for e in ctx.types.resolve_call(c, fi).ext):
                out.append((fi, c))
    return out


def run(ctx: Ctx, tier: str) -> Result:
    res = Result("C10")
    res.explanation = (
        "Decision table of ActionContext.can_trigger (limits first; no/blank condition = always; otherwise the "
        "truth of the evaluated condition text) and of the Metric/Span overrides (delegate to it only when a "
        "processor exists); typestate rule `no fire budget unless processed`; scope of evaluation by origin "
        "expansion of the single eval site (expression text unchanged, globals and locals are f_globals/f_locals "
        "of the frame the trace callback received, every expression consumer reaches that site); containment of "
        "the eval call by a catch-all that converts the failure into a value; discrimination rule: the value "
        "returned by evaluate_expression must be tested for being an exception before it is used as a good result.")
    res.trusted = [TRUSTED_LOGGING]
    res.not_decided = ["truth of concrete conditions", "which names a concrete program has at a given line"]
    for rid, text in (("C10.TABLE", "can_trigger decision tables (base + overrides)"),
                      ("C10.BUDGET", "rejected hit uses no fire budget"),
                      ("C10.SCOPE", "single eval site in the paused frame's scope, reached by all consumers"),
                      ("C10.CONTAIN", "evaluation failure contained and turned into a value"),
                      ("C10.DISCRIM", "exception-as-value discriminated before use as a good result")):
        res.rule(rid, text)
    p, t, g = ctx.prog, ctx.types, ctx.guards

    # ---------------- TABLE
    fi = p.func(AC + ".can_trigger")
    tb = Table(ctx, fi)
    LIM = term(ctx, fi, "self.location_action.can_trigger(self.trigger_context.ts)")
    COND = term(ctx, fi, "self.location_action.condition")
    sites0 = [f for f, c in eval_sites(ctx) if f.cls is not None and f.cls.qname == TC]
    need(len(sites0) >= 1, "no eval site in TriggerContext")
    ev = sites0[0]
    api = evaluation_api(ctx, ev)
    res.analysed["evaluation API"] = sorted(f.qname for f in api)
    # the term whose membership in the accepted spellings decides the result
    words = [k for k, consts in tb.vars.enums.items() if set(TRUE_WORDS) & set(c for c in consts if isinstance(c, str))]
    need(len(words) <= 1, "can_trigger: several truth-word terms %s" % words)
    X = words[0] if words else "<truth text of the evaluated condition>"
    blanks = [k for k in tb.vars.enums if k.startswith("len(") and COND in k and 0 in tb.vars.enums[k]]
    BL = blanks[0] if blanks else "len(%s.strip())" % COND
    rv = Vars()
    rv.truth(LIM); rv.enum(COND, None); rv.enum(BL, 0)
    for wd in ("true", "false", "none"):
        rv.enum(X, wd)
    tags = [k for k in tb.vars.truths if "evaluate_expression(" in k and k.endswith("[0]") and COND in k]

    def ref(w):
        if not w.truth[LIM]:
            return False
        if w.enum[COND] is None:
            return True
        if w.enum[BL] == 0:
            return True
        if tags and not w.truth[tags[0]]:
            return False                  # the condition failed to evaluate (tagged result)
        x = w.enum[X]
        if x == "true":
            return True
        if x in TRUE_WORDS:
            return lambda got: True       # alternative spellings of true: not fixed by the property
        return False
    table_rule(res, "C10.TABLE", tb, rv, ref, "can_trigger: limits, then blank/None condition = always, else truth of the condition")
    if words and "evaluate_expression(" in X and COND in X and X.startswith("str(") and X.endswith(".lower()"):
        res.ok("C10.TABLE", {"truth text": X})
    else:
        res.fail(Finding("C10.TABLE", fi.qname, X, fi.loc(), "the condition's truth is not derived from str(evaluate_expression(condition)).lower(): %s" % X))
    for sub, has in (("deep.processor.context.metric_action.MetricActionContext", "has_metric_processor"),
                     ("deep.processor.context.span_action.SpanActionContext", "has_span_processor")):
        sf = p.functions.get(sub + ".can_trigger")
        if sf is None:
            # the override is gone: the action goes through the base decision, triggers with no processor to report to,
            # and the hit is counted against the tracepoint's fire budget
            res.fail(Finding("C10.TABLE", sub, "<def can_trigger: no %s -> False>" % has, p.cls(sub).module.relpath,
                             "%s has no can_trigger of its own any more: with no processor active the action still triggers, nothing is reported but the hit uses up "
                             "the tracepoint's fire count / period" % sub.rsplit(".", 1)[-1]))
            continue
        st = Table(ctx, sf)
        marker = has.split("_")[1].capitalize()          # Metric / Span
        hs_t = [k for k in st.vars.truths if has in k or (marker + "Processor") in k]
        hs_e = [k for k in st.vars.enums if (has in k or (marker + "Processor") in k) and None in st.vars.enums[k]]
        if len(hs_t) + len(hs_e) != 1:
            res.fail(Finding("C10.TABLE", sf.qname, "<%s>" % has, sf.loc(), "override does not test %s (tests %s %s)" % (has, st.vars.truths, list(st.vars.enums))))
            continue
        H = (hs_t + hs_e)[0]
        rv = Vars()
        if hs_t:
            rv.truth(H)
        else:
            rv.enum(H, None)

        def refo(w, H=H, is_truth=bool(hs_t)):
            present = w.truth[H] if is_truth else (w.enum[H] is not None)
            if not present:
                return False
            return lambda got: got[0] == "return" and isinstance(got[1], str) and "super().can_trigger()" in got[1]
        table_rule(res, "C10.TABLE", st, rv, refo, "%s: no processor -> False, else the base decision" % sf.cls.name)

    # ---------------- BUDGET
    state_rule(ctx, res, "C10.BUDGET")

    # ---------------- SCOPE
    sites = eval_sites(ctx)
    res.analysed["eval/exec/compile sites"] = len(sites)
    good_sites = [(f, c) for f, c in sites if f is ev]
    for f, c in sites:
        if f is not ev:
            res.fail(Finding("C10.SCOPE", f.qname, c, f.loc(c), "a second dynamic evaluation site outside evaluate_expression"))
    if not good_sites:
        res.fail(Finding("C10.SCOPE", ev.qname, "<eval(expression, frame globals, frame locals)>", ev.loc(), "the evaluation API does not evaluate the expression any more"))
        return res
    frame_field = None
    for _, ecall in good_sites:
        args = list(ecall.args) + [None] * (3 - len(ecall.args))
        for kw in ecall.keywords:
            if kw.arg == "globals":
                args[1] = kw.value
            if kw.arg == "locals":
                args[2] = kw.value
        e0 = ctx.expand.expand(args[0], ev)
        if e0 == [P(ev, 1)]:
            res.ok("C10.SCOPE", {"expression text unchanged": e0[0]})
        else:
            res.fail(Finding("C10.SCOPE", ev.qname, ecall, ev.loc(ecall), "the evaluated text is not the configured expression unchanged: %s" % e0))
        for idx, attr in ((2, "f_locals"), (1, "f_globals")):
            a = args[idx]
            txt = ctx.expand.expand(a, ev) if a is not None else ["None"]
            ok = False
            for x in txt:
                base = None
                if x.endswith("." + attr):
                    base = x[: -len(attr) - 1]
                elif x.startswith("getattr(") and (", '%s'" % attr) in x:
                    base = x[len("getattr("):x.index(", '%s'" % attr)]
                if base and base.startswith("@self.") and (frame_field is None or frame_field == base):
                    frame_field = base
                    ok = True
            if ok:
                res.ok("C10.SCOPE", {attr: txt[0]})
            else:
                res.fail(Finding("C10.SCOPE", ev.qname, ecall, ev.loc(ecall),
                                 "the expression is not evaluated against the paused frame's %s (got %s): names visible at the paused "
                                 "line are missing, shadowed and/or the agent's own names are visible" % (attr, txt)))
    if frame_field:
        fld = frame_field.split(".", 1)[1]
        tcc = p.cls(TC)
        init = tcc.lookup("__init__")
        st = t.field_stores(tcc, fld)
        if st and all(sf is init and isinstance(v, ast.Name) for sf, v, _ in st):
            pname = st[0][1].id
            worker, roles = trace_worker(ctx)
            ctor = [c for c in t.calls_in(worker) if tcc in t.resolve_call(c, worker).ctor]
            okf = False
            if len(ctor) == 1:
                a = t.bind_args(init, ctor[0]).get(pname)
                okf = a is not None and ctx.expand.expand(a, worker) == ["@" + roles["frame"]]
            if okf:
                res.ok("C10.SCOPE", {"frame": "the trace callback's frame"})
            else:
                res.fail(Finding("C10.SCOPE", worker.qname, ctor[0] if ctor else "<TriggerContext(...)>", worker.loc(), "the trigger context is not built on the frame the trace callback received"))
        else:
            res.fail(Finding("C10.SCOPE", tcc.qname, fld, tcc.module.relpath, "the frame field of the trigger context is reassigned outside the constructor"))
    # consumers
    watchf = p.func(AC + ".eval_watch")
    consumers = [(f, c) for f in p.functions.values() if f not in api for c in t.calls_in(f)
                 if any(x in api for x in t.resolve_call(c, f).repo)]
    res.floor("evaluate_expression call sites", len(consumers), 4)
    expected = {
        AC + ".can_trigger": ["@self.location_action._LocationAction__condition"],
        AC + ".eval_watch": [P(watchf, 1)],
    }
    # the condition may be evaluated in a helper of the same class that can_trigger delegates to
    acf = p.func(AC + ".can_trigger")
    for c0 in t.calls_in(acf):
        for g_ in t.resolve_call(c0, acf).repo:
            if g_.cls is acf.cls and g_.qname not in expected and isinstance(c0.func, ast.Attribute) and norm(c0.func.value) == "self":
                expected[g_.qname] = expected[AC + ".can_trigger"]
    for f, c in consumers:
        txt = ctx.expand.expand(c.args[0], f) if c.args else []
        want = expected.get(f.qname)
        if want is not None:
            if txt == want:
                res.ok("C10.SCOPE", {"consumer": f.qname, "expression": txt[0]})
            else:
                res.fail(Finding("C10.SCOPE", f.qname, c, f.loc(c), "evaluates `%s` instead of the configured expression %s" % (txt, want)))
        else:
            if len(txt) == 1 and txt[0].endswith("expression") and "." in txt[0]:
                res.ok("C10.SCOPE", {"consumer": f.qname, "expression": txt[0]})
            else:
                res.fail(Finding("C10.SCOPE", f.qname, c, f.loc(c), "evaluates `%s`, not a configured expression" % txt))
    # the condition of every action is the tracepoint's condition argument, read without disturbing the arguments
    # (all builders of one tracepoint receive the same mapping)
    from .common import action_config_writers, param_mutations, LA, literal_key
    la_init = p.cls(LA).lookup("__init__")
    nb = 0
    for qn, lst in sorted(action_config_writers(ctx).items()):
        for bf, call, _keys in lst:
            nb += 1
            cexp = t.bind_args(la_init, call).get("condition")
            alts = ctx.expand.expand(cexp, bf) if cexp is not None else []
            argp = [a for a in bf.params if any(x.startswith("@%s[" % a) or x.startswith("@%s.get(" % a) for x in alts)]
            okc = bool(alts) and all(x == "None" for x in alts) or bool(argp) and all(x == "None" or x.startswith("@%s['condition']" % argp[0]) or x.startswith("@%s.get('condition'" % argp[0]) for x in alts)
            if okc:
                res.ok("C10.SCOPE", {"builder": bf.name, "condition": alts})
            else:
                res.fail(Finding("C10.SCOPE", bf.qname, cexp if cexp is not None else call, bf.loc(call),
                                 "the action's condition is not the tracepoint's 'condition' argument (or None): %s" % alts))
            for a in bf.params:
                if not any(x[0] == "map" for x in t.type_of(ast.Name(id=a, ctx=ast.Load()), bf)) and a != "args":
                    continue
                for mf, mn in param_mutations(ctx, bf, a):
                    res.fail(Finding("C10.SCOPE", mf.qname, mn, mf.loc(mn), "`%s` modifies the tracepoint arguments, which every action builder of the same tracepoint "
                                     "receives: the actions built afterwards see no condition and fire unconditionally" % norm(mn)[:60]))
    res.floor("action builders", nb, 4)
    # ... and the action keeps that text as it is: what is evaluated on a hit is the configured condition, character for
    # character (white space inside a text literal is part of the expression)
    cst = [(sf, v) for sf, v, _ in t.field_stores(p.cls(LA), "_LocationAction__condition")] or [(sf, v) for sf, v, _ in t.field_stores(p.cls(LA), "__condition")]
    if cst and all(sf is la_init and isinstance(v, ast.Name) and v.id == "condition" for sf, v in cst):
        res.ok("C10.SCOPE", {"the action stores the condition text unchanged": la_init.loc(cst[0][1])})
    else:
        bad_ = next(((sf, v) for sf, v in cst if not (sf is la_init and isinstance(v, ast.Name) and v.id == "condition")), None)
        res.fail(Finding("C10.SCOPE", (bad_[0] if bad_ else la_init).qname, bad_[1] if bad_ else "<self.__condition = condition>", (bad_[0] if bad_ else la_init).loc(bad_[1]) if bad_ else la_init.loc(),
                         "the action does not keep the condition text as configured (`%s`): the gate evaluates another expression than the one the tracepoint carries" % (
                             norm(bad_[1])[:60] if bad_ else "no store")))
    gf = [f for f in p.functions.values() if f.name == "get_field" and "log_action" in f.module.name]
    need(len(gf) == 1, "log field evaluator get_field not found")
    gcalls = [c for c in t.calls_in(gf[0]) if watchf in t.resolve_call(c, gf[0]).repo]
    if len(gcalls) == 1 and ctx.expand.expand(gcalls[0].args[0], gf[0]) == [P(gf[0], 1)]:
        res.ok("C10.SCOPE", {"log fields evaluated through eval_watch": True})
    else:
        res.fail(Finding("C10.SCOPE", gf[0].qname, "<eval_watch(field_name)>", gf[0].loc(), "log fields are not evaluated through eval_watch with the field text"))

    # every request is a fresh evaluation in the frame: the eval call is unconditional (no remembered answer for the same text)
    econds = paths.enclosing_conditions(p, ecall, ev) if len(good_sites) == 1 else []
    eearly = [n for n in t.nodes_in(ev, ast.Return) if n.lineno < ecall.lineno and not paths.within(p, ecall, n)] if len(good_sites) == 1 else []
    if econds or eearly:
        what_ = econds[0][0] if econds else eearly[0]
        res.fail(Finding("C10.SCOPE", ev.qname, what_, ev.loc(what_), "the expression is only evaluated when `%s`: a repeated expression (two log fields, a watch and the condition) gets a "
                         "remembered answer instead of being evaluated where it stands" % norm(what_)[:60]))
    else:
        res.ok("C10.SCOPE", {"every call evaluates": ev.loc(ecall)})
    # the failure of an expression is turned into its error text inside the guard of the watch: str() of the program's
    # exception runs program code and may fail in turn
    ewf_ = p.func(AC + ".eval_watch")
    tryc = [c for c in t.calls_in(ewf_) if any(x in api for x in t.resolve_call(c, ewf_).repo)]
    for c in tryc:
        st_ = paths.stmt_of(p, c)
        names_ = set()
        if isinstance(st_, ast.Assign):
            for tg_ in st_.targets:
                for n in ast.walk(tg_):
                    if isinstance(n, ast.Name):
                        names_.add(n.id)
        for n in t.nodes_in(ewf_, ast.Call):
            if norm(n.func) in ("str", "repr", "format") and n.args and isinstance(n.args[0], ast.Name) and n.args[0].id in names_:
                if g.catching_try(n, ewf_, "BaseException") is not None:
                    res.ok("C10.CONTAIN", {"error text made inside the guard": ewf_.loc(n)})
                else:
                    res.fail(Finding("C10.CONTAIN", ewf_.qname, n, ewf_.loc(n), "`%s` renders the outcome of the evaluation (the program's exception object when it failed) outside the "
                                     "guard of the watch: an exception whose __str__ fails loses the whole snapshot / log line instead of this one result" % norm(n)))
    # evaluate_expression hands out the value (not the success flag) of the tagged evaluation
    evx = [f for f in api if f.name == "evaluate_expression"]
    tryx = [f for f in api if f.name == "try_evaluate_expression"]
    if evx and tryx:
        rr_ = [r for r in t.nodes_in(evx[0], ast.Return) if r.value is not None]
        okv = False
        if len(rr_) == 1:
            v_ = rr_[0].value
            call_, idx_ = None, None
            if isinstance(v_, ast.Subscript) and isinstance(v_.value, ast.Call):
                call_, idx_ = v_.value, norm(v_.slice)
            elif isinstance(v_, ast.Attribute) and isinstance(v_.value, ast.Call):
                # a named position of a NamedTuple result
                from .. import normalise as _nz
                if v_.attr in _nz.NT_FIELDS:
                    call_, idx_ = v_.value, str(_nz.NT_FIELDS[v_.attr])
            elif isinstance(v_, ast.Name):
                bs_ = [b for k, b in t.local_bindings(evx[0], v_.id) if k == "assign"]
                if len(bs_) == 1 and isinstance(bs_[0][1], ast.Call):
                    call_, idx_ = bs_[0][1], str(bs_[0][2])
            okv = call_ is not None and idx_ == "1" and tryx[0] in t.resolve_call(call_, evx[0]).repo and [norm(a_) for a_ in call_.args] == [evx[0].params[1]]
        if okv:
            res.ok("C10.SCOPE", {"evaluate_expression": "value part of try_evaluate_expression(expression)"})
        else:
            res.fail(Finding("C10.SCOPE", evx[0].qname, rr_[0] if rr_ else "<return try_evaluate_expression(expression)[1]>", evx[0].loc(),
                             "evaluate_expression does not return the value of evaluating its own expression (metric values and labels are taken from it)"))
    # every way out of eval_watch is (watch result, variables, text): a failing watch is an error *result*, never a failing snapshot
    ewf = p.func(AC + ".eval_watch")
    for r in [r for r in t.nodes_in(ewf, ast.Return)]:
        v = r.value
        okr = isinstance(v, ast.Tuple) and len(v.elts) == 3 and isinstance(v.elts[0], ast.Call) and any(k.name == "WatchResult" for k in t.resolve_call(v.elts[0], ewf).ctor)
        if okr:
            res.ok("C10.CONTAIN", {"eval_watch returns a result triple": ewf.loc(r)})
        else:
            res.fail(Finding("C10.CONTAIN", ewf.qname, r, ewf.loc(r), "eval_watch does not return (WatchResult, variables, text) on this path: the caller fails and the whole snapshot / log line is lost"))

    # what a hit evaluates and renders is kept in objects of that hit: nothing below the trace callback writes into an
    # object that is shared by the whole process (two threads pausing at the same time would read one another's frame)
    from .common import process_wide_writes
    from .c01 import reachable
    wk_, _roles = trace_worker(ctx)
    scope_ = reachable(ctx, wk_)
    pw = process_wide_writes(ctx, scope_)
    for f_, n_, what_ in pw[:3]:
        res.fail(Finding("C10.SCOPE", f_.qname, n_, f_.loc(n_), "`%s` writes per-hit state into %s, which every thread and every hit shares: a hit that is processed "
                         "while another one is in progress evaluates / renders with the other's frame and results" % (norm(n_)[:70], what_)))
    if not pw:
        res.ok("C10.SCOPE", {"no process-wide object written below the trace callback": len(scope_)})
    res.floor("functions below the trace callback", len(scope_), 60)

    # ---------------- CONTAIN
    # whatever goes wrong while a watch / log field is evaluated or its value recorded stays inside eval_watch: the caller gets
    # the error result of that one expression
    esc_ = g.escape_tokens(p.func(AC + ".eval_watch"))
    if not esc_:
        res.ok("C10.CONTAIN", {"nothing escapes eval_watch": True})
    for tok_, ch_ in sorted(esc_.items())[:2]:
        ewf0 = p.func(AC + ".eval_watch")
        res.fail(Finding("C10.CONTAIN", ewf0.qname, "<escape %s>" % tok_, ewf0.loc(), "%s can leave eval_watch: a value whose collection fails (a __str__ raising a BaseException, an internal error) "
                         "takes the whole snapshot / log line with it instead of yielding an error result for this expression" % tok_, path=g.fmt_chain(ch_)))
    # ... and the same holds where a metric's value / label expressions are worked out: one failing expression, whatever it
    # raises, costs that expression's value only
    pmf = p.functions.get("deep.processor.context.metric_action.MetricActionContext._process_metric")
    if pmf is not None:
        escm = g.escape_tokens(pmf)
        if not escm:
            res.ok("C10.CONTAIN", {"nothing escapes the evaluation of a metric's expressions": True})
        for tok_, ch_ in sorted(escm.items())[:2]:
            res.fail(Finding("C10.CONTAIN", pmf.qname, "<escape %s>" % tok_, pmf.loc(), "%s can leave _process_metric: a failing metric expression takes the other metrics of the hit "
                             "with it instead of falling back for this metric only" % tok_, path=g.fmt_chain(ch_)))
    for _, other in good_sites[:-1]:
        if g.catching_try(other, ev, "BaseException") is None:
            res.fail(Finding("C10.CONTAIN", ev.qname, other, ev.loc(other), "the eval call is not enclosed by a handler for BaseException: a failing expression is raised instead of yielding an error value"))
    ct = g.catching_try(ecall, ev, "BaseException")
    if ct is None:
        res.fail(Finding("C10.CONTAIN", ev.qname, ecall, ev.loc(ecall), "the eval call is not enclosed by a handler for BaseException: a failing expression is raised instead of yielding an error value"))
    else:
        tr, h = ct
        rets = [n for n in ast.walk(h) if isinstance(n, ast.Return)]
        def is_exc_value(v):
            if v is None:
                return False
            if norm(v) == h.name:
                return True
            return isinstance(v, ast.Tuple) and len(v.elts) == 2 and isinstance(v.elts[0], ast.Constant) \
                and v.elts[0].value is False and norm(v.elts[1]) == h.name
        if h.name and rets and all(is_exc_value(r.value) for r in rets) and not g.reraises(h):
            res.ok("C10.CONTAIN", {"handler returns the exception as a value": ev.loc(h)})
        else:
            res.fail(Finding("C10.CONTAIN", ev.qname, h, ev.loc(h), "the handler of the eval call does not return the caught exception as the result"))
    if not g.escape_tokens(ev):
        res.ok("C10.CONTAIN", {"evaluate_expression lets nothing escape": True})
    else:
        for tok, ch in g.escape_tokens(ev).items():
            res.fail(Finding("C10.CONTAIN", ev.qname, "<escape %s>" % tok, ev.loc(), "%s can escape evaluate_expression" % tok, path=g.fmt_chain(ch)))

    # ---------------- DISCRIM
    for f, c in consumers:
        disc = discrimination(ctx, f, c)
        if disc:
            res.ok("C10.DISCRIM", {"site": f.qname, "how": disc})
        else:
            res.fail(Finding("C10.DISCRIM", f.qname, c, f.loc(c),
                             "the value returned by evaluate_expression (which is the exception itself when evaluation failed) is used "
                             "as a good result without an isinstance(..., BaseException) test"))
    from .common import borrow
    borrow(ctx, res, tier, "c08", ("C08.SCHEMA",), "C10.WIRE", "the error result of a failed expression reaches the service as an error result (both members of the result are handed to the message, "
           "whatever their text)")
    return res


def discrimination(ctx: Ctx, f, call) -> str:
    """How the use of evaluate_expression's result at this call site tells failure from success."""
    p, t, g = ctx.prog, ctx.types, ctx.guards
    par = p.parent_of(call)
    # direct conversion float(<call>) / int(<call>) inside a guard: an exception object never converts
    if isinstance(par, ast.Call) and call in par.args and any(e in ("builtins.float", "builtins.int") for e in t.resolve_call(par, f).ext):
        if g.catching_try(par, f, "TypeError") is not None:
            return "numeric conversion inside a guard (an exception object never converts)"
    # str(<call>) used only as display text (label value / log text)
    if isinstance(par, ast.Call) and call in par.args and "builtins.str" in t.resolve_call(par, f).ext:
        gp = p.parent_of(par)
        if isinstance(gp, ast.Assign) and f.module.name.endswith("metric_action"):
            return "text form used as a label value (error text in place)"
    # explicit isinstance test on the bound name
    st = paths.stmt_of(p, call)
    if isinstance(st, ast.Assign) and isinstance(st.targets[0], ast.Name):
        name = st.targets[0].id
        for n in t.nodes_in(f, ast.Call):
            if "builtins.isinstance" in t.resolve_call(n, f).ext and n.args and norm(n.args[0]) == name and \
                    any(x in norm(n.args[1]) for x in ("BaseException", "Exception")):
                return "isinstance test on `%s`" % name
    elif isinstance(st, ast.Assign) and isinstance(st.targets[0], ast.Tuple) and len(st.targets[0].elts) == 2 \
            and all(isinstance(x, ast.Name) for x in st.targets[0].elts):
        # tagged result: ok, value = try_evaluate(...): the tag must be tested before the value is used
        tag, val = st.targets[0].elts[0].id, st.targets[0].elts[1].id
        callee_tagged = any(tagged_result(ctx, x) for x in t.resolve_call(call, f).repo)
        if not callee_tagged:
            return ""
        uses = [n for n in t.nodes_in(f, ast.Name) if n.id == val and isinstance(n.ctx, ast.Load)]
        ok_all = True
        for u in uses:
            conds = paths.conditions(p, u, f)
            tested = any(norm(c) in (tag, "not " + tag) for c, pol in conds)
            if not tested:
                ok_all = False
        if uses and ok_all:
            return "tagged result: every use of `%s` is control-dependent on the tag `%s`" % (val, tag)
    return ""


def tagged_result(ctx: Ctx, f) -> bool:
    """f returns (True, value) on success and (False, exception) on failure."""
    rets = [n for n in ctx.types.nodes_in(f, ast.Return) if n.value is not None]
    tags = set()
    for r in rets:
        if isinstance(r.value, ast.Tuple) and len(r.value.elts) == 2 and isinstance(r.value.elts[0], ast.Constant) \
                and isinstance(r.value.elts[0].value, bool):
            tags.add(r.value.elts[0].value)
        else:
            return False
    return tags == {True, False}


def evaluation_api(ctx: Ctx, ev):
    """The function holding the eval site plus thin wrappers returning (part of) its result."""
    api = [ev]
    changed = True
    while changed:
        changed = False
        for f in ctx.prog.functions.values():
            if f in api or f.cls is not ev.cls:
                continue
            rets = [n for n in ctx.types.nodes_in(f, ast.Return) if n.value is not None]
            stmts = [s_ for s_ in f.node.body if not (isinstance(s_, ast.Expr) and isinstance(s_.value, ast.Constant))]
            calls = list(ctx.types.calls_in(f))
            if len(rets) == 1 and len(stmts) <= 2 and len(calls) == 1 and any(x in api for x in ctx.types.resolve_call(calls[0], f).repo):
                # `return api(expr)[i]`, or `a, b = api(expr); return b`
                api.append(f)
                changed = True
    return api
