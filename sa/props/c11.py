"""C11 tracepoint configuration table - see DESIGN.md section 4 (C11)."""
import ast

from .common import (Ctx, Finding, Result, need, term, P, TRUSTED_LOGGING, LA, action_config_reads,
                     action_config_writers, literal_key)
from .c03 import table_rule
from ..index import norm
from ..dtable import Table, Vars
from .. import paths

TRIG = "deep.api.tracepoint.trigger"
LINE_ST = ["line_capture", "line_start", "line_end"]
METH_ST = ["method_start", "method_capture", "method_end"]


def call_parts(node):
    """(callee text, [arg nodes], {kw: node}) of a Call node, else None."""
    if isinstance(node, ast.Call):
        return norm(node.func), list(node.args), {k.arg: k.value for k in node.keywords}
    return None


def run(ctx: Ctx, tier: str) -> Result:
    res = Result("C11")
    res.explanation = (
        "Exhaustive decision tables (every presence/value class of the argument keys consulted) of build_trigger, "
        "Position.from_stage and the four action builders compared with the documented interpretation; sibling "
        "agreement of the builders (condition, fire_count, fire_period copied from the same keys with the same "
        "defaults, tagged with the tracepoint id, own payload key); reader/writer agreement between the keys each "
        "action context reads and the keys its builder writes; one-bad-tracepoint isolation (Optional trigger tested "
        "before use, per-item guard inside the response loop); metric definition conversion binds the protobuf "
        "fields to the matching constructor parameters.")
    res.trusted = [TRUSTED_LOGGING, "protobuf descriptors of TracePointConfig/Metric/LabelExpression from the deep-proto wheel"]
    res.not_decided = ["run-time behaviour of the installed actions (other properties)"]
    for rid, text in (("C11.TRIG", "build_trigger: stage/method_name/span -> location kind and stage"),
                      ("C11.STAGE", "from_stage table; line/method stage sets partition the six stages"),
                      ("C11.BUILD", "which builders produce an action"),
                      ("C11.SIB", "builders agree on condition / fire_count / fire_period / id / payload"),
                      ("C11.KEYS", "keys read by an action context are written by its builder"),
                      ("C11.ISOLATE", "an uninterpretable tracepoint affects only itself"),
                      ("C11.METRIC", "metric / label definition conversion field binding")):
        res.rule(rid, text)
    p, t, g = ctx.prog, ctx.types, ctx.guards

    # ---------------- TRIG
    bt = p.func(TRIG + ".build_trigger")
    tb = Table(ctx, bt)
    A = P(bt, 3)
    HS, HT, HM = "'span' in %s" % A, "'stage' in %s" % A, "'method_name' in %s" % A
    SV, TV = "%s['span']" % A, "%s['stage']" % A
    rv = Vars()
    for b in (HS, HT, HM):
        rv.boolean(b)
    for v in ("method", "line"):
        rv.enum(SV, v)
    for v in LINE_ST + METH_ST:
        rv.enum(TV, v)
    PATH, LINE = P(bt, 1), P(bt, 2)

    def ref_trig(w):
        if w.boolean[HT]:
            stage = w.enum[TV]
            stage_txt = TV
        elif (w.boolean[HS] and w.enum[SV] == "method") or w.boolean[HM]:
            stage, stage_txt = "method_start", "'method_start'"
        else:
            stage, stage_txt = "line_start", "'line_start'"

        def check(got):
            kind, val, row, node = got
            if stage not in LINE_ST + METH_ST:
                return kind == "return" and val is None          # unknown stage: not interpretable
            cp = call_parts(node)
            if kind != "return" or cp is None or not cp[0].endswith("Trigger.__init__") and not cp[0].endswith(".Trigger"):
                return False
            loc = call_parts(cp[1][0]) if cp[1] else None
            if loc is None or len(loc[1]) != 3:
                return False
            want_cls = "LineLocation" if stage in LINE_ST else "FunctionLocation"
            if want_cls not in loc[0]:
                return False
            a0, a1, a2 = [norm(x) for x in loc[1]]
            if a0 != PATH:
                return False
            if stage in LINE_ST and a1 != LINE:
                return False
            if stage in METH_ST and a1 not in ("%s.get('method_name', None)" % A, "%s.get('method_name')" % A):
                return False
            pos = call_parts(loc[1][2])
            return pos is not None and pos[0].endswith("Position.from_stage") and len(pos[1]) == 1 and norm(pos[1][0]) == stage_txt
        return check
    table_rule(res, "C11.TRIG", tb, rv, ref_trig, "explicit stage wins; else method_name or span=method -> method_start; else line_start; unknown stage -> None")
    # the action list keeps every builder's non-None result
    builders = ["build_snapshot_action", "build_log_action", "build_metric_action", "build_span_action"]
    bargs = {"build_snapshot_action": [P(bt, 0), A, P(bt, 4)], "build_log_action": [P(bt, 0), A],
             "build_metric_action": [P(bt, 0), A, P(bt, 5)], "build_span_action": [P(bt, 0), A]}
    rows = [r for r in tb.rows if r.kind == "return" and isinstance(r.result, ast.Call)]
    need(rows, "build_trigger: no row returning a Trigger")
    for r in rows[:1] + rows[-1:]:
        cp = call_parts(r.result)
        acts = cp[1][1] if len(cp[1]) > 1 else None
        txt = norm(acts) if acts is not None else ""
        ok = True
        for b in builders:
            want = "%s.%s(%s)" % (TRIG, b, ", ".join(bargs[b]))
            if want not in txt:
                ok = False
        filt = isinstance(acts, ast.ListComp) and len(acts.generators) == 1 and len(acts.generators[0].ifs) == 1 and \
            norm(acts.generators[0].ifs[0]) == "%s is not None" % norm(acts.generators[0].target) and norm(acts.elt) == norm(acts.generators[0].target)
        if ok and filt:
            res.ok("C11.TRIG", {"actions": "all four builders' non-None results"})
        else:
            res.fail(Finding("C11.TRIG", bt.qname, r.node, bt.loc(r.node), "the trigger does not keep exactly the non-None results of the four builders called with (tp_id, args[, watches|metrics]): %s" % txt[:300]))

    # ---------------- STAGE
    fs = p.func(TRIG + ".Location.Position.from_stage")
    ft = Table(ctx, fs)
    SP = P(fs, 1)
    rv = Vars()
    for v in LINE_ST + METH_ST:
        rv.enum(SP, v)

    def ref_stage(w):
        v = w.enum[SP]
        if not isinstance(v, str):
            return lambda got: True
        want = "START" if v.endswith("_start") else ("END" if v.endswith("_end") else "CAPTURE")
        return lambda got: got[0] == "return" and isinstance(got[1], str) and got[1].endswith("Position." + want)
    table_rule(res, "C11.STAGE", ft, rv, ref_stage, "stage name -> START / END / CAPTURE")
    m = p.modules["deep.api.tracepoint.constants"]
    ls, ms = p.const_value(m, "LINE_STAGES"), p.const_value(m, "METHOD_STAGES")
    if sorted(ls) == sorted(LINE_ST) and sorted(ms) == sorted(METH_ST):
        res.ok("C11.STAGE", {"LINE_STAGES": ls, "METHOD_STAGES": ms})
    else:
        res.fail(Finding("C11.STAGE", "deep.api.tracepoint.constants", "LINE_STAGES / METHOD_STAGES", m.relpath,
                         "the stage sets are not the three line stages / three method stages: %s %s" % (ls, ms)))

    # ---------------- BUILD
    def is_action(got, atype):
        cp = call_parts(got[3])
        return got[0] == "return" and cp is not None and "LocationAction" in cp[0] and len(cp[1]) == 4 and norm(cp[1][3]).endswith("ActionType." + atype)

    def is_none(got):
        return got[0] == "return" and got[1] is None

    fa = p.func(TRIG + ".build_snapshot_action"); a_ = P(fa, 1)
    rv = Vars(); rv.boolean("'snapshot' in %s" % a_); rv.enum("%s['snapshot']" % a_, "no_collect"); rv.enum("%s['snapshot']" % a_, "collect")
    table_rule(res, "C11.BUILD", Table(ctx, fa), rv,
               lambda w: (is_none if (w.boolean["'snapshot' in %s" % a_] and w.enum["%s['snapshot']" % a_] == "no_collect") else (lambda got: is_action(got, "Snapshot"))),
               "snapshot action unless snapshot=no_collect")
    fl = p.func(TRIG + ".build_log_action"); a_l = P(fl, 1)
    rv = Vars(); rv.boolean("'snapshot' in %s" % a_l); rv.boolean("'log_msg' in %s" % a_l); rv.enum("%s['snapshot']" % a_l, "no_collect"); rv.enum("%s['snapshot']" % a_l, "collect")
    table_rule(res, "C11.BUILD", Table(ctx, fl), rv,
               lambda w: ((lambda got: is_action(got, "Log")) if (w.boolean["'log_msg' in %s" % a_l] and w.boolean["'snapshot' in %s" % a_l] and w.enum["%s['snapshot']" % a_l] == "no_collect") else is_none),
               "log action iff log_msg given and snapshot=no_collect (otherwise the snapshot action carries the log)")
    fm = p.func(TRIG + ".build_metric_action"); mm = P(fm, 2)
    tm = Table(ctx, fm)
    rv = Vars(); rv.enum(mm, None); rv.enum("len(%s)" % mm, 0)

    def ref_metric(w):
        if w.enum[mm] is None:
            return is_none
        if w.enum["len(%s)" % mm] == 0:
            return is_none
        return lambda got: is_action(got, "Metric")
    if "len(%s)" % mm in tm.vars.enums or mm in tm.vars.truths:
        if mm in tm.vars.truths and "len(%s)" % mm not in tm.vars.enums:
            rv = Vars(); rv.truth(mm)
            table_rule(res, "C11.BUILD", tm, rv, lambda w: ((lambda got: is_action(got, "Metric")) if w.truth[mm] else is_none), "metric action iff at least one metric definition")
        else:
            table_rule(res, "C11.BUILD", tm, rv, ref_metric, "metric action iff at least one metric definition")
    else:
        res.fail(Finding("C11.BUILD", fm.qname, "<metrics empty test>", fm.loc(), "build_metric_action does not test for an empty metric list"))
    fsn = p.func(TRIG + ".build_span_action"); a_s = P(fsn, 1)
    rv = Vars(); rv.boolean("'span' in %s" % a_s)
    table_rule(res, "C11.BUILD", Table(ctx, fsn), rv,
               lambda w: ((lambda got: is_action(got, "Span")) if w.boolean["'span' in %s" % a_s] else is_none), "span action iff span requested")

    # ---------------- SIB
    writers = action_config_writers(ctx)
    payload = {"build_snapshot_action": ("watches", lambda f: [P(f, 2)]),
               "build_log_action": ("log_msg", lambda f: ["%s['log_msg']" % P(f, 1)]),
               "build_metric_action": ("metrics", lambda f: [P(f, 2)]),
               "build_span_action": ("span", lambda f: ["%s['span']" % P(f, 1)])}
    init = p.cls(LA).lookup("__init__")
    for b in builders:
        lst = writers.get(TRIG + "." + b, [])
        if len(lst) != 1:
            res.fail(Finding("C11.SIB", TRIG + "." + b, "<LocationAction(...)>", p.func(TRIG + "." + b).loc(), "%s constructs %d actions (expected one)" % (b, len(lst))))
            continue
        f, call, keys = lst[0]
        ar = P(f, 1)
        bound = t.bind_args(init, call)
        idt = ctx.expand.expand(bound.get(init.params[1]), f) if init.params[1] in bound else []
        cond = ctx.expand.expand(bound.get(init.params[2]), f) if init.params[2] in bound else []
        checks = [
            ("tracepoint id", idt == [P(f, 0)], idt),
            ("condition", cond in (["%s['condition'] if 'condition' in %s else None" % (ar, ar)], ["%s.get('condition', None)" % ar], ["%s.get('condition')" % ar]), cond),
            ("fire_count", "fire_count" in keys and ctx.expand.expand(keys["fire_count"], f) == ["%s.get('fire_count', '1')" % ar], None),
            ("fire_period", "fire_period" in keys and ctx.expand.expand(keys["fire_period"], f) == ["%s.get('fire_period', '1000')" % ar], None),
        ]
        pk, pw = payload[b]
        checks.append(("payload " + pk, pk in keys and ctx.expand.expand(keys[pk], f) == pw(f), ctx.expand.expand(keys[pk], f) if pk in keys else None))
        for what, okx, got in checks:
            if okx:
                res.ok("C11.SIB", {"builder": b, "copies": what})
            else:
                res.fail(Finding("C11.SIB", f.qname, what, f.loc(call), "%s does not copy %s from the tracepoint's own arguments like its siblings (got %s)" % (b, what, got)))
    sa = writers.get(TRIG + ".build_snapshot_action", [])
    if sa:
        f, call, keys = sa[0]
        for k, want in (("frame_type", "%s.get('frame_type', 'single_frame')"), ("log_msg", "%s.get('log_msg', None)")):
            got = ctx.expand.expand(keys[k], f) if k in keys else []
            if got == [want % P(f, 1)] or (want.endswith(", None)") and got == [(want % P(f, 1))[:-len(", None)")] + ")"]):
                res.ok("C11.SIB", {"snapshot action copies": k})
            else:
                res.fail(Finding("C11.SIB", f.qname, k, f.loc(call), "the snapshot action does not copy %s from the arguments: %s" % (k, got)))

    # ---------------- KEYS
    ctx_of = {"deep.processor.context.snapshot_action.SnapshotActionContext": "build_snapshot_action",
              "deep.processor.context.log_action.LogActionContext": "build_log_action",
              "deep.processor.context.metric_action.MetricActionContext": "build_metric_action",
              "deep.processor.context.span_action.SpanActionContext": "build_span_action"}
    DEFAULT_ONLY = {"MAX_TP_PROCESS_TIME": "undocumented tuning key: the default always applies",
                    "MAX_STRING_LENGTH": "undocumented tuning key: the default always applies",
                    "MAX_COLLECTION_SIZE": "undocumented tuning key: the default always applies",
                    "MAX_VARIABLES": "undocumented tuning key: the default always applies",
                    "MAX_VAR_DEPTH": "undocumented tuning key: the default always applies"}
    nreads = 0
    for f, k, n in action_config_reads(ctx):
        if f.cls is None or f.cls.qname not in ctx_of:
            continue
        nreads += 1
        b = ctx_of[f.cls.qname]
        wk = set()
        for bf, call, keys in writers.get(TRIG + "." + b, []):
            wk |= set(keys)
        # synthetic actions built by the contexts themselves (snapshot+log)
        if k in wk:
            res.ok("C11.KEYS", {"context": f.cls.name, "reads": k, "written by": b})
        elif k in DEFAULT_ONLY:
            res.ok("C11.KEYS", {"context": f.cls.name, "reads": k, "default only": DEFAULT_ONLY[k]})
        else:
            res.fail(Finding("C11.KEYS", TRIG + "." + b, k, f.loc(n),
                             "%s.%s reads '%s' from the action config but %s never writes it: the tracepoint argument '%s' has no effect" % (f.cls.name, f.name, k, b, k)))
    res.floor("action-context config reads", nreads, 8)
    # a key copied after the action config was built (config[K] = args[K]) is copied exactly when the argument is present
    for qn, lst in sorted(writers.items()):
        for bf, call, keys in lst:
            for n in t.nodes_in(bf, ast.Assign):
                tg_ = n.targets[0]
                if not (isinstance(tg_, ast.Subscript) and isinstance(n.value, ast.Subscript) and isinstance(n.value.value, ast.Name)
                        and n.value.value.id in bf.params and norm(tg_.slice) == norm(n.value.slice)):
                    continue
                conds = [(norm(c), pol) for c, pol in paths.enclosing_conditions(p, n, bf)]
                want = "%s in %s" % (norm(tg_.slice), n.value.value.id)
                extra = [c for c in conds if c != (want, True)]
                if (want, True) in conds and not extra:
                    res.ok("C11.KEYS", {"copied when present": norm(n)})
                else:
                    res.fail(Finding("C11.KEYS", bf.qname, n, bf.loc(n), "`%s` is copied into the action config %s, not exactly when the argument is given: the argument has no effect, "
                                     "or a tracepoint without it cannot be built" % (norm(tg_.slice), "when " + " and ".join(("" if pol else "not ") + c for c, pol in conds) if conds else "unconditionally")))

    # ---------------- KEEP: tracepoints on the same location keep all of their actions (rules shared with C03)
    from .common import borrow as _borrow
    _borrow(ctx, res, tier, "c03", ("C03.LOOP", "C03.MERGE"), "C11.KEEP", "same-location tracepoints keep all their actions (merge key, merge, every matching trigger visited)")

    # every tracepoint of the response is converted
    crf = p.func("deep.grpc.convert_response")
    btc = [c for c in t.calls_in(crf) if bt in t.resolve_call(c, crf).repo]
    if btc:
        lps_ = [l for l in paths.enclosing_loops(p, btc[0], crf) if isinstance(l, ast.For)]
        src_ = ctx.expand.expand(lps_[0].iter, crf) if lps_ else []
        cut_ = [n for l in lps_[:1] for n in ast.walk(l.iter) if isinstance(n, ast.Subscript)] + [n for l in lps_[:1] for n in ast.walk(l) if isinstance(n, (ast.Break, ast.Return))]
        if lps_ and not cut_ and src_ and all(("@" + crf.params[0]) in x for x in src_):
            res.ok("C11.KEEP", {"every tracepoint of the response is converted": crf.loc(lps_[0])})
        else:
            res.fail(Finding("C11.KEEP", crf.qname, cut_[0] if cut_ else (lps_[0].iter if lps_ else btc[0]), crf.loc(btc[0]), "not every tracepoint of a poll response is converted and installed"))
    # ---------------- ISOLATE
    for qn in ("deep.grpc.convert_response", "deep.config.tracepoint_config.TracepointConfigService.add_custom"):
        f = p.func(qn)
        bcalls = [c for c in t.calls_in(f) if bt in t.resolve_call(c, f).repo]
        need(len(bcalls) == 1, "%s: build_trigger call not found" % qn)
        st = paths.stmt_of(p, bcalls[0])
        name = st.targets[0].id if isinstance(st, ast.Assign) and isinstance(st.targets[0], ast.Name) else None
        need(name, "%s: build_trigger result is not bound to a name" % qn)
        uses = [n for n in t.nodes_in(f, ast.Name) if n.id == name and isinstance(n.ctx, ast.Load)]
        bad = None
        for u in uses:
            par = p.parent_of(u)
            deref = isinstance(par, ast.Attribute) or (isinstance(par, ast.Call) and u in par.args and isinstance(par.func, ast.Attribute) and par.func.attr == "append")
            if not deref:
                continue
            conds = paths.conditions(p, u, f)
            tested = any(isinstance(c, ast.Compare) and norm(c.left) == name and "None" in norm(c) and
                         ((isinstance(c.ops[0], ast.IsNot) and pol) or (isinstance(c.ops[0], ast.Is) and not pol)) for c, pol in conds) \
                or any(norm(c) == name and pol for c, pol in conds) or any(norm(c) == "not " + name and not pol for c, pol in conds)
            if not tested:
                bad = u
                break
        if bad is None:
            res.ok("C11.ISOLATE", {"function": f.name, "Optional trigger tested before use": True})
        else:
            res.fail(Finding("C11.ISOLATE", f.qname, p.parent_of(bad), f.loc(bad),
                             "build_trigger returns None for a tracepoint it cannot interpret (unknown stage) but `%s` is used without a None test: %s" % (
                                 name, "the whole poll response is rejected" if "convert_response" in qn else "a None entry is installed and every later trace event fails")))
    cr = p.func("deep.grpc.convert_response")
    lps = [l for l in t.nodes_in(cr, ast.For)]
    need(lps, "convert_response: no loop over the response")
    body_sites = [s for s in g.sites(cr) if paths.within(p, s.node, lps[0]) and any(paths.within(p, s.node, b) for b in lps[0].body)]
    unguarded = []
    for s in body_sites:
        for tok, ch in s.tokens.items():
            ct = g.catching_try(s.node, cr, tok)
            if ct is None or not paths.within(p, ct[0], lps[0]):
                unguarded.append((s, tok, ch))
    if not unguarded:
        res.ok("C11.ISOLATE", {"per-tracepoint guard inside the response loop": True, "sites": len(body_sites)})
    for s, tok, ch in unguarded[:3]:
        res.fail(Finding("C11.ISOLATE", cr.qname, s.node, cr.loc(s.node),
                         "converting one tracepoint may raise %s outside a per-item guard: one bad tracepoint makes the agent drop the whole response" % tok,
                         path=g.fmt_chain(ch)))

    # ---------------- METRIC
    cm = [f for f in p.functions.values() if f.module.name == "deep.grpc" and f.name.endswith("convert_metric_definition")]
    need(len(cm) == 1, "metric definition converter not found")
    cm = cm[0]
    md = p.cls("deep.api.tracepoint.tracepoint_config.MetricDefinition")
    mcalls = [c for c in ast.walk(cm.node) if isinstance(c, ast.Call) and md in t.resolve_call(c, cm).ctor]
    need(len(mcalls) == 1, "MetricDefinition construction not found")
    b = t.bind_args(md.lookup("__init__"), mcalls[0])
    want = {"name": ".name", "metric_type": "MetricType.Name(", "labels": ".labelExpressions)", "expression": ".expression",
            "namespace": ".namespace", "help_str": ".help", "unit": ".unit"}
    import importlib
    pb = importlib.import_module("deepproto.proto.tracepoint.v1.tracepoint_pb2")
    mfields = [f_.name for f_ in pb.Metric.DESCRIPTOR.fields]
    res.analysed["proto Metric fields"] = mfields
    for param, pat in want.items():
        src = norm(b[param]) if param in b else ""
        el_ = None
        if param == "metric_type" and param in b:
            from .common import enum_lookup
            el_ = enum_lookup(ctx, b[param], cm)
            el_ = el_ if el_ is not None and el_[0] == "MetricType" and el_[1] == "Name" and norm(el_[2]).endswith(".type") else None
        if pat in src and (param != "metric_type" or src.endswith(".type)")) or el_ is not None:
            res.ok("C11.METRIC", {param: src})
        else:
            res.fail(Finding("C11.METRIC", cm.qname, param, cm.loc(mcalls[0]), "MetricDefinition.%s receives `%s` (expected the proto field matching %s)" % (param, src, pat)))
    for fname in ("name", "type", "labelExpressions", "expression", "namespace", "help", "unit"):
        if fname not in mfields:
            res.fail(Finding("C11.METRIC", cm.qname, fname, cm.loc(), "proto Metric has no field %s" % fname))
    mi = md.lookup("__init__")
    for sf, v, _ in [x for fld in ("name", "labels", "type", "expression", "namespace", "help", "unit") for x in t.field_stores(md, fld)]:
        st = paths.stmt_of(p, v)
        pair = (norm(st.targets[0]), norm(v))
        okp = pair in (("self.name", "name"), ("self.labels", "labels"), ("self.type", "metric_type"), ("self.expression", "expression"),
                       ("self.namespace", "namespace"), ("self.help", "help_str"), ("self.unit", "unit"))
        if okp:
            res.ok("C11.METRIC")
        else:
            res.fail(Finding("C11.METRIC", mi.qname, st, mi.loc(st), "MetricDefinition stores a constructor argument in the wrong field"))
    cl = p.func("deep.grpc.convert_label_expressions")
    le = p.cls("deep.api.tracepoint.tracepoint_config.LabelExpression")
    lcalls = [c for c in ast.walk(cl.node) if isinstance(c, ast.Call) and le in t.resolve_call(c, cl).ctor]
    need(len(lcalls) == 1, "LabelExpression construction not found")
    lb = t.bind_args(le.lookup("__init__"), lcalls[0])
    lk, lsx, lex = norm(lb.get("key", ast.Constant(None))), norm(lb.get("static", ast.Constant(None))), norm(lb.get("expression", ast.Constant(None)))
    if lk.endswith(".key") and "static" in lsx and lex.endswith(".expression"):
        res.ok("C11.METRIC", {"label": [lk, lsx, lex]})
    else:
        res.fail(Finding("C11.METRIC", cl.qname, lcalls[0], cl.loc(lcalls[0]), "LabelExpression(key, static, expression) receives (%s, %s, %s)" % (lk, lsx, lex)))
    # convert_response hands each proto field to the matching build_trigger parameter
    bc = [c for c in t.calls_in(cr) if bt in t.resolve_call(c, cr).repo][0]
    bb = t.bind_args(bt, bc)
    wantb = {bt.params[0]: ".ID", bt.params[1]: ".path", bt.params[2]: ".line_number", bt.params[3]: "dict(", bt.params[4]: ".watches", bt.params[5]: ".metrics)"}
    for prm, pat in wantb.items():
        src = norm(bb[prm]) if prm in bb else ""
        if pat in src:
            res.ok("C11.METRIC", {prm: src})
        else:
            res.fail(Finding("C11.METRIC", cr.qname, prm, cr.loc(bc), "build_trigger parameter %s receives `%s` (expected the response field %s)" % (prm, src, pat)))
    # ---------------- clauses resting on mechanisms decided for other properties
    from .common import borrow
    borrow(ctx, res, tier, "c17", ("C17.FAN",), "C11.METRIC", "one report per metric definition (every definition x every processor)")
    borrow(ctx, res, tier, "c04", ("C04.INT",), "C11.LIMITS", "fire_count / fire_period are read as integers (-1 honoured), the default only for unparsable text")
    borrow(ctx, res, tier, "c02", ("C02.TYPE",), "C11.FRAMES", "the frame_type argument decides which frames carry variables (none / all / the top one), compared by value")
    borrow(ctx, res, tier, "c03", ("C03.ORIG", "C03.FUNC", "C03.LINE"), "C11.PLACE", "an installed action is placed: the event's file, line and plain function name are what its location is compared with")
    borrow(ctx, res, tier, "c13", ("C13.HANDLE",), "C11.EACH", "every registration is a tracepoint of its own (a second registration is never answered with the first one's)")
    borrow(ctx, res, tier, "c13", ("C13.ADD",), "C11.PUBLISH", "what is published is the service's tracepoints plus the registered ones, each once")
    borrow(ctx, res, tier, "c04", ("C04.STATE",), "C11.BUDGET", "the tracepoint's own fire count / period are advanced by every started collection")
    borrow(ctx, res, tier, "c15", ("C15.ONCE",), "C11.DEFER", "the deferred part of a span / capture tracepoint (closing the span, sending the snapshot with the result) is "
           "carried out for the invocation that opened it: the action the arguments ask for is completed, not only begun")
    borrow(ctx, res, tier, "c12", ("C12.ORDER", "C12.APPLY"), "C11.INSTALL", "the tracepoints of the latest response are the ones installed: a publication never carries an older "
           "configuration than the one before it")
    # what a tracepoint contributes to a shared location really lands in the trigger: an in-place change made to the list a
    # property built for its caller is lost with that list
    from .common import lost_updates
    scope_ = [f_ for f_ in p.functions.values() if f_.module.name.startswith(("deep.api.tracepoint", "deep.config", "deep.grpc"))]
    lu_ = lost_updates(ctx, scope_)
    for f_, c_, g_ in lu_[:3]:
        res.fail(Finding("C11.KEEP", f_.qname, c_, f_.loc(c_), "`%s` changes the value handed out by the property %s, which is a new list / dict built at each access: the change is "
                         "thrown away with it (actions merged into a trigger of the same location are lost)" % (norm(c_)[:60], g_.qname.rsplit(".", 2)[-2] + "." + g_.name)))
    if not lu_:
        res.ok("C11.KEEP", {"no in-place change is made to a copy handed out by a property": len(scope_)})
    borrow(ctx, res, tier, "c03", ("C03.ACT",), "C11.EACHACT", "a tracepoint whose action fails at a hit affects only itself: the other actions of the event still run")
    borrow(ctx, res, tier, "c04", ("C04.UNITS",), "C11.LIMITS", "fire_count / fire_period reach the limiter with the value given (0 stays 0), in the unit the limiter compares in")
    borrow(ctx, res, tier, "c04", ("C04.KEYS", "C04.TABLE"), "C11.LIMITS", "every action of a tracepoint is limited by the same fire_count / fire_period, read from the same keys in the same unit")
    return res
