"""C04 rate limiting - see DESIGN.md section 4 (C04)."""
import ast

from .common import (call_arg, Ctx, Finding, Result, need, term, P, TRUSTED_LOGGING, LA, action_config_reads,
                     action_config_writers, trace_worker)
from .c03 import table_rule
from ..index import norm
from ..dtable import Table, Vars
from .. import paths

AC = "deep.processor.context.action_context.ActionContext"
STATS = "deep.api.tracepoint.tracepoint_config.TracepointExecutionStats"
WIN = "deep.api.tracepoint.tracepoint_config.TracepointWindow"


def const_factor(e: ast.expr):
    """(product of constant factors, [non-constant factor texts]) of a multiplication tree."""
    if isinstance(e, ast.BinOp) and isinstance(e.op, ast.Mult):
        c1, r1 = const_factor(e.left)
        c2, r2 = const_factor(e.right)
        return c1 * c2, r1 + r2
    if isinstance(e, ast.Constant) and isinstance(e.value, (int, float)):
        return e.value, []
    return 1, [norm(e)]


def state_rule(ctx: Ctx, res: Result, RID: str):
    """record_triggered is reached iff process() started (typestate of the action context)."""
    p, t, g = ctx.prog, ctx.types, ctx.guards
    ace = p.func(AC + ".__exit__")
    recs = [c for c in t.calls_in(ace) if any(x.qname == LA + ".record_triggered" for x in t.resolve_call(c, ace).repo)]
    flag = None
    if not recs:
        res.fail(Finding(RID, ace.qname, "<record_triggered(ts)>", ace.loc(), "the action context never records a fire when it closes: fire_count and fire_period limit nothing"))
    for c in recs:
        conds = paths.conditions(p, c, ace)
        ht = [cc for cc, pol in conds if pol and isinstance(cc, ast.Call) and any(x.name == "has_triggered" for x in t.resolve_call(cc, ace).repo)]
        direct = [cc for cc, pol in conds if pol and isinstance(cc, ast.Attribute)]
        if ht or direct:
            flag = term(ctx, ace, norm(ht[0]) if ht else norm(direct[0]))
            res.ok(RID, {"record only when": flag})
        else:
            res.fail(Finding(RID, ace.qname, c, ace.loc(c), "record_triggered is not conditional on the action having been processed: a hit rejected by limits/condition uses up fire budget"))
    all_rec = [(f, c) for f in p.functions.values() for c in t.calls_in(f) if any(x.qname == LA + ".record_triggered" for x in t.resolve_call(c, f).repo)]
    if len(all_rec) == len(recs):
        res.ok(RID, {"record_triggered call sites": len(all_rec)})
    for f, c in all_rec:
        if f is not ace:
            res.fail(Finding(RID, f.qname, c, f.loc(c), "record_triggered is also called outside ActionContext.__exit__"))
    if flag and "." not in flag:
        res.fail(Finding(RID, ace.qname, flag, ace.loc(), "the `processed` test does not read a field of the action context (%s): fires are recorded never or always" % flag))
        flag = None
    if flag:
        fld = flag.rsplit(".", 1)[1]
        acls = p.cls(AC)
        proc = p.func(AC + ".process")
        for sf, v, _ in t.field_stores(acls, fld):
            is_true = isinstance(v, ast.Constant) and v.value is True
            if sf.name == "__init__" and isinstance(v, ast.Constant) and v.value is False:
                res.ok(RID, {"flag initialised False": sf.loc(v)})
            elif sf is proc and is_true:
                st = paths.stmt_of(p, v)
                inner = [c for c in t.calls_in(proc) if any(x.name == "_process_action" for x in t.resolve_call(c, proc).repo)]
                need(inner, "ActionContext.process does not call _process_action")
                tries = [tr for tr in t.nodes_in(proc, ast.Try) if any(paths.within(p, st, fs) for fs in tr.finalbody)
                         and any(paths.within(p, inner[0], b) for b in tr.body)]
                if tries or paths.dominates(p, st, inner[0], proc):
                    res.ok(RID, {"flag set on every path of process()": proc.loc(st)})
                else:
                    res.fail(Finding(RID, proc.qname, st, proc.loc(st), "the processed flag is not set when _process_action raises: a failing collection is never counted and repeats forever"))
            else:
                res.fail(Finding(RID, sf.qname, paths.stmt_of(p, v), sf.loc(v), "the processed flag is written outside __init__(False)/process(True)"))
        if not any(sf is proc and isinstance(v, ast.Constant) and v.value is True for sf, v, _ in t.field_stores(acls, fld)):
            res.fail(Finding(RID, proc.qname, "<%s = True>" % flag, proc.loc(), "process() never sets the processed flag: no collection is ever counted, fire_count and fire_period do not limit anything"))
    worker, roles = trace_worker(ctx)
    for c in [c for c in t.calls_in(worker) if any(x.qname == AC + ".process" for x in t.resolve_call(c, worker).repo)]:
        withs = [a for a in p.ancestors(c, stop=worker.node) if isinstance(a, ast.With) and any(
            isinstance(i.context_expr, ast.Call) and any(x.name == "action_context" for x in t.resolve_call(i.context_expr, worker).repo)
            and i.optional_vars is not None and norm(i.optional_vars) == norm(c.func.value) for i in a.items)]
        if withs:
            res.ok(RID, {"process() inside": "with " + norm(withs[0].items[0].context_expr)})
        else:
            res.fail(Finding(RID, worker.qname, c, worker.loc(c), "process() is called outside `with action_context(...)`: the hit is never recorded"))


COPY_DEEP = {"copy.deepcopy", "pickle.loads", "pickle.dumps", "marshal.loads"}
COPY_SHALLOW = {"copy.copy"}
STATEFUL = ("deep.api.tracepoint.trigger.Trigger", LA, STATS)



def stats_members(ctx):
    """The members of the fire statistics by what they do, not by name: the advancing method (adds one to a counter field
    and stores its timestamp argument in another), the two fields, and the accessors answering them."""
    p, t = ctx.prog, ctx.types
    st = p.cls(STATS)
    cands = []
    for lst in st.methods.values():
        for m in lst:
            if m.name == "__init__":
                continue
            incs = [a for a in t.nodes_in(m, ast.AugAssign) if isinstance(a.op, ast.Add) and isinstance(a.target, ast.Attribute)
                    and isinstance(a.target.value, ast.Name) and a.target.value.id == "self"]
            if incs:
                cands.append((m, incs))
    byname = p.functions.get(STATS + ".fire")
    if not (len(cands) == 1 and len(cands[0][1]) == 1):
        # not recognisable by shape: go by the names of the pinned tree (the rules then report what is wrong with it)
        need(byname is not None, "TracepointExecutionStats: the advancing method (counter += ...) was not found exactly once")
        return {"fire": byname, "cnt_field": "_fire_count", "last_field": "_last_fire", "cnt": "fire_count", "last": "last_fire"}
    fire, incs = cands[0]
    cnt = incs[0].target.attr
    lasts = [a for a in t.nodes_in(fire, ast.Assign) if isinstance(a.targets[0], ast.Attribute) and isinstance(a.targets[0].value, ast.Name)
             and a.targets[0].value.id == "self" and isinstance(a.value, ast.Name) and a.value.id in fire.params[1:]]
    if len(lasts) != 1:
        need(byname is not None, "TracepointExecutionStats.%s: store of the timestamp not found" % fire.name)
        return {"fire": byname, "cnt_field": "_fire_count", "last_field": "_last_fire", "cnt": "fire_count", "last": "last_fire"}
    last = lasts[0].targets[0].attr

    def accessor(field):
        out = []
        for lst in st.methods.values():
            for m in lst:
                rets = [r for r in t.nodes_in(m, ast.Return) if r.value is not None]
                if m.name != "__init__" and len(rets) == 1 and norm(rets[0].value) == "self." + field:
                    out.append(m.name)
        return out[0] if len(out) == 1 else None
    return {"fire": fire, "cnt_field": cnt, "last_field": last, "cnt": accessor(cnt), "last": accessor(last)}

def _type_mentions(ctx, tys, classes, deep=True, depth=0):
    """Does a type term (or, when deep, anything nested in it) denote an instance of one of the classes?"""
    p = ctx.prog
    for ty in tys:
        if ty[0] == "inst":
            c = p.classes.get(ty[1])
            if c is not None and any(k.qname in classes for k in c.mro):
                return True
        elif deep and depth < 4 and ty[0] in ("seq", "map", "tuple"):
            for part in ty[1:]:
                if isinstance(part, frozenset) and _type_mentions(ctx, part, classes, deep, depth + 1):
                    return True
                if isinstance(part, tuple):
                    for pp in part:
                        if isinstance(pp, frozenset) and _type_mentions(ctx, pp, classes, deep, depth + 1):
                            return True
    return False


def identity_rule(ctx: Ctx, res: Result, RID: str):
    """The fire statistics live in the LocationAction objects: while a tracepoint stays installed the handler must
    consult (and record on) the very objects the config service keeps publishing - never a copy, which starts
    again from zero fires at the next publication."""
    p, t = ctx.prog, ctx.types
    acls = set()
    for q in STATEFUL:
        acls.add(p.cls(q).qname)
    # (a) the statistics object is created once per action and only advanced by fire()
    la = p.cls(LA)
    stores = [(sf, v) for k in la.mro for nm in {"__stats", k.mangle("__stats")} for sf, v, _ in t._attr_store_index().get((k.qname, nm), [])]
    need(stores, "LocationAction: the statistics field was not found")
    for sf, v in stores:
        if sf.name == "__init__":
            res.ok(RID, {"statistics created in": sf.qname})
        else:
            res.fail(Finding(RID, sf.qname, paths.stmt_of(p, v), sf.loc(v), "the fire statistics of an installed action are replaced outside its constructor: its count/period state starts again"))
    # one set of counters per installed action, whatever thread hits it: none of the stateful classes keeps its fields per
    # thread (a `threading.local` subclass runs __init__ again in every thread: each thread counts from zero)
    for q in STATEFUL:
        c_ = p.cls(q)
        tl = [b for k_ in c_.mro for b in k_.ext_bases if b.endswith("threading.local") or b in ("local", "_thread._local")]
        if tl:
            res.fail(Finding(RID, q, "class %s(%s)" % (c_.name, ", ".join(norm(b) for b in c_.base_exprs)), c_.module.relpath,
                             "%s keeps its fields per thread (%s): fire_count / fire_period are counted separately in every thread that reaches the tracepoint" % (c_.name, tl[0])))
        else:
            res.ok(RID, {"%s state is per object, not per thread" % c_.name: True})
    st = p.cls(STATS)
    for (cq, attr), lst in sorted(t._attr_store_index().items()):
        if cq != STATS:
            continue
        for sf, v, _ in lst:
            if sf.cls is st and sf.name in ("__init__", stats_members(ctx)["fire"].name):
                res.ok(RID)
            else:
                res.fail(Finding(RID, sf.qname, paths.stmt_of(p, v) if v is not None else attr, sf.loc(v) if v is not None else sf.loc(),
                                 "fire statistics field %s is written outside __init__/fire()" % attr))
    # (b) nobody copies a trigger / action / statistics object
    ncopy = 0
    for fi in p.functions.values():
        for c in t.calls_in(fi):
            ext = set(t.resolve_call(c, fi).ext)
            if not ext & (COPY_DEEP | COPY_SHALLOW) or not c.args:
                continue
            ncopy += 1
            tys = t.type_of(c.args[0], fi)
            deep = bool(ext & COPY_DEEP)
            if _type_mentions(ctx, tys, acls, deep=deep):
                res.fail(Finding(RID, fi.qname, c, fi.loc(c),
                                 "%s copies the object that carries the fire statistics: fires are recorded on the copy, and the next "
                                 "publication of the retained original starts again from zero" % norm(c.func)))
            else:
                res.ok(RID)
    res.analysed["copy calls inspected"] = ncopy
    # (c) the list the event handler iterates is stored by reference from what the config service publishes
    from ..deps import Deps
    worker, roles = trace_worker(ctx)
    hcls = worker.cls
    need(hcls is not None, "trace worker is not a method")
    dp = Deps(p, t)
    seen_fields = set()
    for f in [worker] + [g for c in t.calls_in(worker) for g in t.resolve_call(c, worker).repo if g.cls is hcls]:
        for lp in t.nodes_in(f, (ast.For, ast.comprehension)):
            it = lp.iter
            if isinstance(it, ast.Attribute) and isinstance(it.value, ast.Name) and it.value.id == "self":
                if _type_mentions(ctx, t.type_of(it, f), acls):
                    seen_fields.add(it.attr)
    need(seen_fields, "the trigger list iterated by the event handler was not found")
    for fld in sorted(seen_fields):
        for sf, v, _ in t.field_stores(hcls, fld):
            if v is None or sf.name == "__init__":
                continue
            val = dp.value(v, sf)
            made = sorted({o.cls.qname for o in _all_objs(val) if any(k.qname in acls for k in o.cls.mro)})
            if made:
                res.fail(Finding(RID, sf.qname, paths.stmt_of(p, v), sf.loc(v),
                                 "the handler stores newly constructed %s objects instead of the published ones: their fire statistics are lost at every update" % made))
            else:
                res.ok(RID, {"handler list stored by reference": norm(v)[:60]})


def _all_objs(val, seen=None):
    seen = seen if seen is not None else set()
    for o in val.objs:
        if id(o) in seen:
            continue
        seen.add(id(o))
        yield o
        for v in o.params.values():
            yield from _all_objs(v, seen)


def run(ctx: Ctx, tier: str) -> Result:
    res = Result("C04")
    res.explanation = (
        "Decision tables of LocationAction.can_trigger and TracepointWindow.in_window compared with the "
        "reference over every abstract world (count reached unless -1, window, elapsed < period with the exact "
        "boundary); origin/unit rules (one TriggerContext.ts from time_ns() feeds check and record, period "
        "scaled ms->ns by 1e6, fire() adds exactly one and stores that ts); typestate (record iff process() "
        "started; process only inside `with action_context`); int parsing falls back to the default; "
        "reader/writer agreement between the keys LocationAction reads and the keys every action builder "
        "writes; atomicity: check and record of the fire statistics must share one critical section.")
    res.trusted = [TRUSTED_LOGGING]
    res.not_decided = ["actual clock values and wall-clock monotonicity", "real thread interleavings (the critical-section rule is the static stand-in)"]
    for rid, text in (("C04.TABLE", "can_trigger decision table"), ("C04.WINDOW", "in_window decision table"),
                      ("C04.UNITS", "one ns timestamp feeds check and record; period ms->ns; fire() +1"),
                      ("C04.STATE", "record_triggered iff process() started; statistics objects never copied or replaced"),
                      ("C04.INT", "unparsable fire_count/fire_period fall back to the default"),
                      ("C04.KEYS", "every limit key read is written by every builder"),
                      ("C04.ATOMIC", "check-then-record inside one critical section")):
        res.rule(rid, text)
    p, t, g = ctx.prog, ctx.types, ctx.guards

    # ---------------- INT (first: the table below reads the limits through it)
    gi = p.func(LA + ".__get_int")
    # the guarded conversion may sit in a parsing helper the reader hands its text and its default to (`return parse_int(text,
    # default)`): follow such pure delegations, keeping track of which parameter carries the default and which the converter
    gh, dflt_name, conv_is_int = gi, gi.params[2] if len(gi.params) > 2 else None, {}
    for _ in range(3):
        body_ = [st for st in gh.node.body if not (isinstance(st, ast.Expr) and isinstance(st.value, ast.Constant))]
        if not (len(body_) == 1 and isinstance(body_[0], ast.Return) and isinstance(body_[0].value, ast.Call)):
            break
        tg_ = t.resolve_call(body_[0].value, gh)
        if len(tg_.repo) != 1 or tg_.ext:
            break
        nxt = tg_.repo[0]
        b_ = t.bind_args(nxt, body_[0].value)
        nd = [pn for pn, a_ in b_.items() if isinstance(a_, ast.Name) and a_.id == dflt_name]
        conv_is_int = {pn for pn, a_ in b_.items() if isinstance(a_, ast.Name) and (a_.id == "int" or a_.id in conv_is_int)}
        if len(nd) != 1:
            break
        gh, dflt_name = nxt, nd[0]
    tries = list(t.nodes_in(gh, ast.Try))
    ok = False
    if len(tries) == 1:
        tr = tries[0]
        conv = [c for c in ast.walk(tr) if isinstance(c, ast.Call) and ("builtins.int" in t.resolve_call(c, gh).ext or
                                                                         (isinstance(c.func, ast.Name) and c.func.id in conv_is_int))]
        for h in tr.handlers:
            if g.catches(h, "ValueError", gh) and not g.reraises(h):
                rets = [n for n in ast.walk(h) if isinstance(n, ast.Return)]
                if rets and all(r.value is not None and norm(r.value) == dflt_name for r in rets) and conv and \
                        any(paths.within(p, conv[0], b) for b in tr.body):
                    ok = True
    # a limit that is given is used as given: 0 is a value (fire_count 0 = never, fire_period 0 = no spacing), so the default
    # stands in only for an absent key - not for a falsy value (`value or default`, `if not value`)
    conv_sites = [(gi, c) for c in t.calls_in(gi) if "builtins.int" in t.resolve_call(c, gi).ext]
    if gh is not gi:
        # the text handed to the parsing helper plays the part of int()'s argument
        conv_sites = [(gi, c) for c in t.calls_in(gi) if t.resolve_call(c, gi).repo and c.args][:1]
    for _gf, c_ in conv_sites:
        # the text is converted by int() itself: int(float(text)) also takes 'inf' / '1e999' (OverflowError, which the guard for
        # unparsable text does not catch) and 'nan', and silently truncates '0.5'
        inner_ = [n_ for a_ in c_.args for n_ in ast.walk(a_) if isinstance(n_, ast.Call) and "builtins.float" in t.resolve_call(n_, _gf).ext]
        if inner_ and "builtins.int" in t.resolve_call(c_, _gf).ext:
            res.fail(Finding("C04.INT", _gf.qname, c_, _gf.loc(c_), "`%s` reads the limit through float(): 'inf' and '1e999' raise OverflowError past the guard for unparsable "
                             "text (into the code registering the tracepoint, or at every hit), 'nan' and fractions are taken instead of the default" % norm(c_)[:50]))
    if conv_sites:
        for _gf, c_ in conv_sites:
            arg_ = c_.args[0] if c_.args else None
            exprs_ = [arg_]
            if isinstance(arg_, ast.Name):
                exprs_ = [b[1] for k_, b in t.local_bindings(gi, arg_.id) if isinstance(b, tuple) and b[1] is not None]
            for e_ in exprs_:
                subst = [n for n in ast.walk(e_) if isinstance(n, ast.BoolOp) and isinstance(n.op, ast.Or)] if e_ is not None else []
                subst += [n for n in ast.walk(e_) if isinstance(n, ast.IfExp) and not any(isinstance(x, ast.Compare) and isinstance(x.ops[0], (ast.Is, ast.IsNot, ast.In, ast.NotIn))
                                                                                         for x in ast.walk(n.test))] if e_ is not None else []
                if subst:
                    res.fail(Finding("C04.INT", gi.qname, subst[0], gi.loc(subst[0]), "`%s` replaces every falsy value by the default, not only an absent one: a limit "
                                     "given as the number 0 (fire_count 0: never collect; fire_period 0: no spacing) is read as the default" % norm(subst[0])[:60]))
                else:
                    res.ok("C04.INT", {"the default stands in for an absent key only": norm(e_)[:60] if e_ is not None else ""})
    # the parsed value depends on the text and on the default of the limit that is read, on nothing remembered from other reads
    impure = [n for n in t.nodes_in(gi, ast.Name) if isinstance(n.ctx, ast.Load) and n.id in gi.module.consts
              and isinstance(gi.module.consts[n.id], (ast.Dict, ast.List, ast.Set, ast.Call))]
    impure += [n for n in t.nodes_in(gi, (ast.Global, ast.Nonlocal))]
    for n in impure[:1]:
        ok = None
        res.fail(Finding("C04.INT", gi.qname, n, gi.loc(n), "the integer value of a limit is looked up in state shared between reads (`%s`): an unparsable text gets the default of "
                         "whichever limit met it first (fire_count 'x' after fire_period 'x' allows 1000 collections)" % norm(n)[:40]))
    if ok is None:
        pass
    elif ok:
        res.ok("C04.INT", {"int() failure -> default": gi.loc()})
    else:
        res.fail(Finding("C04.INT", gi.qname, "<try: int(...) except ValueError: return default>", gi.loc(), "an unparsable integer setting does not fall back to the default"))

    # ---------------- TABLE
    fi = p.func(LA + ".can_trigger")
    tb = Table(ctx, fi)
    ts = fi.params[1]
    FC = term(ctx, fi, "self.fire_count")
    SM = stats_members(ctx)
    for what_, key_, dflt_ in (("counter", "cnt", "fire_count"), ("last-fire time", "last", "last_fire")):
        if SM[key_] is None:
            # what the advancing method writes is read by no accessor: the limiter reads another field, which stays as it was made
            res.fail(Finding("C04.UNITS", SM["fire"].qname, "self.%s" % SM[key_ + "_field"], SM["fire"].loc(), "%s() stores the %s in `self.%s`, which no accessor of the statistics hands out: "
                             "what can_trigger reads never changes (the %s limit is not applied)" % (SM["fire"].name, what_, SM[key_ + "_field"], "fire_period" if key_ == "last" else "fire_count")))
            SM[key_] = dflt_
            need(p.functions.get(STATS + "." + dflt_) is not None, "TracepointExecutionStats: accessor %s not found" % dflt_)
    FIRED = term(ctx, fi, "self.__stats.%s" % SM["cnt"])
    LAST = term(ctx, fi, "self.__stats.%s" % SM["last"])
    winq = [k for k in tb.vars.truths if ".in_window(" in k]
    if len(winq) != 1:
        res.fail(Finding("C04.TABLE", fi.qname, "<window test>", fi.loc(), "can_trigger consults the time window %d times (expected once): a tracepoint fires outside its configured window" % len(winq)))
    WINQ = winq[0] if winq else "<in window>"
    ELAPSED = term(ctx, fi, "%s - self.__stats.%s" % (ts, SM["last"]))
    partners = [b if a == ELAPSED else a for (a, b) in tb.vars.rels if ELAPSED in (a, b)]
    rv = Vars()
    rv.enum(FC, -1); rv.rel(FC, FIRED, True); rv.enum(LAST, 0); rv.truth(WINQ)
    PERIOD = partners[0] if len(partners) == 1 else "<fire period in ns>"
    rv.rel(ELAPSED, PERIOD, True)

    def ref(w):
        fc = w.enum[FC]
        if fc != -1 and w.relation(FC, FIRED) in ("LT", "EQ"):
            return False
        if not w.truth[WINQ]:
            return False
        if w.enum[LAST] == 0:
            if w.relation(ELAPSED, PERIOD) == "LT":
                return lambda got: True     # infeasible: nothing recorded yet, elapsed is the epoch time
            return True
        return w.relation(ELAPSED, PERIOD) != "LT"
    table_rule(res, "C04.TABLE", tb, rv, ref, "fire iff (count -1 or not reached) and in window and not (elapsed < period)")

    # ---------------- WINDOW
    wf = p.func(WIN + ".in_window")
    wt = Table(ctx, wf)
    wcls = p.cls(WIN)
    winit = wcls.lookup("__init__")
    fld = {}
    for (cq, attr), lst in t._attr_store_index().items():
        if cq == WIN:
            for sf_, v_, _ in lst:
                if sf_ is winit and isinstance(v_, ast.Name) and v_.id in winit.params[1:3]:
                    fld[v_.id] = attr
    need(len(fld) == 2, "TracepointWindow.__init__ does not store its start and end arguments")
    S, E, TSW = "@self." + fld[winit.params[1]], "@self." + fld[winit.params[2]], P(wf, 1)
    rv = Vars()
    for x in (S, E):
        rv.enum(x, 0); rv.num(x, 0)
    rv.rel(TSW, E, True); rv.rel(S, TSW, True)

    def refw(w):
        s, e = w.enum[S], w.enum[E]
        if s < 0 or e < 0:
            return lambda got: True
        before_end = w.relation(TSW, E) in ("LT", "EQ")
        after_start = w.relation(S, TSW) in ("LT", "EQ")
        if s == 0 and e == 0:
            return True
        if s == 0:
            return before_end
        if e == 0:
            return after_start
        return before_end and after_start
    table_rule(res, "C04.WINDOW", wt, rv, refw, "in window iff start<=ts (if set) and ts<=end (if set)")
    init = p.func(LA + ".__init__")
    wctor = [c for c in t.calls_in(init) if any(k.qname == WIN for k in t.resolve_call(c, init).ctor)]
    need(len(wctor) == 1, "LocationAction.__init__: TracepointWindow construction not found")
    wa = [ctx.expand.expand(a, init) for a in wctor[0].args]
    if len(wa) == 2 and "'window_start'" in wa[0][0] and "'window_end'" in wa[1][0]:
        res.ok("C04.WINDOW", {"window(start,end) from keys": [wa[0][0], wa[1][0]]})
    else:
        res.fail(Finding("C04.WINDOW", init.qname, wctor[0], init.loc(wctor[0]), "window start/end are not read from window_start/window_end in that order: %s" % wa))

    # ---------------- UNITS
    # the window is kept in ms (in_window documents `ts: time in ms`), the trigger time is in ns
    want_w = "@self._LocationAction__window.in_window(@%s // 1000000)" % ts
    if WINQ in (want_w, want_w.replace("// 1000000", "/ 1000000"), "@self._LocationAction__window.in_window(int(@%s / 1000000))" % ts):
        res.ok("C04.UNITS", {"window test": WINQ})
    else:
        res.fail(Finding("C04.UNITS", fi.qname, WINQ, fi.loc(), "the window (epoch ms) is tested with `%s`, expected the ns trigger time scaled to ms (ts // 1000000)" % WINQ))
    per = [n for r in tb.rows for c in [c_ for c_, _ in r.conds] + ([r.result] if isinstance(r.result, ast.AST) else [])
           for n in ast.walk(c) if isinstance(n, ast.Compare) and norm(n.left) == ELAPSED]
    need(per, "can_trigger: comparison of elapsed time not found")
    k, rest = const_factor(per[0].comparators[0])
    FP = term(ctx, fi, "self.fire_period")
    if k == 1_000_000 and rest == [FP]:
        res.ok("C04.UNITS", {"period": norm(per[0].comparators[0])})
    else:
        res.fail(Finding("C04.UNITS", fi.qname, per[0], fi.loc(), "elapsed nanoseconds are compared with `%s`, expected fire_period (ms) * 1000000" % norm(per[0].comparators[0])))
    for prop, key, dflt in (("fire_count", "fire_count", 1), ("fire_period", "fire_period", 1000)):
        got = term(ctx, fi, "self." + prop)
        if ("'%s'" % key) in got and got.rstrip(")").endswith(", %d" % dflt):
            res.ok("C04.UNITS", {prop: got})
        else:
            res.fail(Finding("C04.UNITS", LA + "." + prop, got, p.func(LA + "." + prop).loc(), "%s is not read from key '%s' with default %d: %s" % (prop, key, dflt, got)))
    acc = p.func(AC + ".can_trigger")
    ace = p.func(AC + ".__exit__")
    TS_FIELD = None
    for f, callee in ((acc, "can_trigger"), (ace, "record_triggered")):
        calls = [c for c in t.calls_in(f) if any(x.qname == LA + "." + callee for x in t.resolve_call(c, f).repo)]
        if len(calls) != 1:
            res.fail(Finding("C04.UNITS", f.qname, "<location_action.%s(ts)>" % callee, f.loc(), "%s consults LocationAction.%s %d times (expected once): the limits are not %s" % (
                f.name, callee, len(calls), "checked" if callee == "can_trigger" else "advanced")))
            continue
        a0_ = call_arg(calls[0], p.func(LA + "." + callee), 1)
        arg = ctx.expand.expand(a0_, f) if a0_ is not None else []
        if len(arg) == 1 and arg[0].startswith("@self.trigger_context.") and (TS_FIELD is None or TS_FIELD == arg[0]):
            TS_FIELD = arg[0]
            res.ok("C04.UNITS", {"%s(ts)" % callee: arg[0]})
        else:
            res.fail(Finding("C04.UNITS", f.qname, calls[0], f.loc(calls[0]), "%s does not receive the trigger context's timestamp (%s; check uses %s)" % (callee, arg, TS_FIELD)))
    if TS_FIELD:
        fld = TS_FIELD.rsplit(".", 1)[1]
        tc = p.cls("deep.processor.context.trigger_context.TriggerContext")
        st = [(sf, v) for sf, v, _ in t.field_stores(tc, fld)]
        srcs = [ctx.expand.expand(v, sf) for sf, v in st]
        if st and all(len(s) == 1 and "time_ns()" in s[0] for s in srcs) and all(sf.name == "__init__" for sf, _ in st):
            res.ok("C04.UNITS", {"timestamp origin": srcs[0][0]})
        else:
            res.fail(Finding("C04.UNITS", tc.qname, st[0][1] if st else "<ts>", tc.module.relpath, "trigger timestamp does not originate from time_ns() once per trigger: %s" % srcs))
    rec = p.func(LA + ".record_triggered")
    fire = SM["fire"]
    fcalls = [c for c in t.calls_in(rec) if fire in t.resolve_call(c, rec).repo]
    cond_ = [norm(c_) for c_, _pol in paths.conditions(p, fcalls[0], rec)] if len(fcalls) == 1 else []
    if len(fcalls) == 1 and cond_:
        res.fail(Finding("C04.UNITS", rec.qname, fcalls[0], rec.loc(fcalls[0]), "a collection that has happened is recorded only when `%s`: a hit that was collected but not counted "
                         "(two threads recording in the opposite order of their hit times, a clock stepping back) lets the tracepoint collect more than fire_count times" % cond_[0][:60]))
    elif len(fcalls) == 1 and call_arg(fcalls[0], fire, 1) is not None and ctx.expand.expand(call_arg(fcalls[0], fire, 1), rec) == [P(rec, 1)]:
        res.ok("C04.UNITS", {"record_triggered -> fire(ts), unconditionally": True})
    else:
        res.fail(Finding("C04.UNITS", rec.qname, "<fire(ts)>", rec.loc(), "record_triggered does not forward its timestamp to the statistics exactly once"))
    augs = [n for n in t.nodes_in(fire, ast.AugAssign)]
    sts = [n for n in t.nodes_in(fire, ast.Assign)]
    cnt_field = FIRED.rsplit(".", 1)[1]
    last_field = LAST.rsplit(".", 1)[1]
    ok_inc = [a for a in augs if isinstance(a.op, ast.Add) and norm(a.target) == "self." + cnt_field
              and isinstance(a.value, ast.Constant) and a.value.value == 1]
    ok_last = [s for s in sts if norm(s.targets[0]) == "self." + last_field and norm(s.value) == fire.params[1]]
    others = [n for n in augs + sts if n not in ok_inc and n not in ok_last]
    if len(ok_inc) == 1 and len(ok_last) == 1 and not others and not list(t.nodes_in(fire, (ast.If, ast.For, ast.While))):
        res.ok("C04.UNITS", {"fire": "count += 1; last = ts"})
    else:
        res.fail(Finding("C04.UNITS", fire.qname, "<count += 1; last_fire = ts>", fire.loc(), "fire() does not add exactly one to the counter read by can_trigger and store its timestamp"))
    for cname in (STATS,):
        c = p.cls(cname)
        extra = [(sf, v) for fld in (cnt_field, last_field) for sf, v, _ in t.field_stores(c, fld) if sf.name not in ("__init__", fire.name)]
        if extra:
            res.fail(Finding("C04.UNITS", extra[0][0].qname, extra[0][1], extra[0][0].loc(extra[0][1]), "fire statistics are written outside __init__/fire"))
        else:
            res.ok("C04.UNITS", {"only __init__/fire write the statistics": True})

    # the window is worked out once, when the action is built: the configuration it came from is not changed afterwards
    # behind its back (an in-place update of window_start / window_end would be stored, reported and never applied)
    from .common import _MUTATORS
    lac = p.cls(LA)
    cfg_fields = [attr for (cq, attr), lst in t._attr_store_index().items() if cq == LA
                  for sf_, v_, _ in lst if sf_ is init and isinstance(v_, ast.Name) and len(init.params) > 3 and v_.id == init.params[3]]
    win_fields = [attr for (cq, attr), lst in t._attr_store_index().items() if cq == LA
                  for sf_, v_, _ in lst if sf_ is init and v_ is wctor[0]]
    if len(cfg_fields) == 1 and len(win_fields) == 1:
        cf, wfld = cfg_fields[0], win_fields[0]
        short = cf.split("__")[-1]

        def is_cfg(e):
            return isinstance(e, ast.Attribute) and isinstance(e.value, ast.Name) and e.value.id == "self" and e.attr in (cf, "__" + short, "_" + short, short)
        nmeth = 0
        for c_ in [lac] + p.subclasses.get(LA, []):
            for lst in c_.methods.values():
                for m_ in lst:
                    if m_ is init:
                        continue
                    nmeth += 1
                    writes = []
                    for n_ in t.nodes_in(m_):
                        if isinstance(n_, ast.Subscript) and isinstance(n_.ctx, (ast.Store, ast.Del)) and is_cfg(n_.value):
                            writes.append(n_)
                        elif isinstance(n_, ast.Call) and isinstance(n_.func, ast.Attribute) and n_.func.attr in _MUTATORS and is_cfg(n_.func.value):
                            writes.append(n_)
                        elif isinstance(n_, ast.Attribute) and isinstance(n_.ctx, ast.Store) and is_cfg(n_):
                            writes.append(n_)
                    if not writes:
                        continue
                    rebuilt = [n_ for n_ in t.nodes_in(m_, ast.Attribute) if isinstance(n_.ctx, ast.Store) and isinstance(n_.value, ast.Name)
                               and n_.value.id == "self" and n_.attr.split("__")[-1] == wfld.split("__")[-1]]
                    if rebuilt:
                        res.ok("C04.WINDOW", {"configuration changed and window rebuilt in": m_.qname})
                    else:
                        res.fail(Finding("C04.WINDOW", m_.qname, writes[0], m_.loc(writes[0]), "`%s` changes the configuration of an installed action, but the time window was "
                                         "worked out from it when the action was built and is not rebuilt here: a changed window_start / window_end is "
                                         "stored (and reported) while hits are still checked against the old window" % norm(writes[0])[:70]))
        res.ok("C04.WINDOW", {"configuration of an action is fixed once its window is built (methods looked at)": nmeth})
    else:
        res.fail(Finding("C04.WINDOW", init.qname, "<self.config = config; self.window = TracepointWindow(...)>", init.loc(),
                         "the action does not keep its configuration and its window in one field each (%s, %s)" % (cfg_fields, win_fields)))

    # ---------------- STATE
    state_rule(ctx, res, "C04.STATE")
    identity_rule(ctx, res, "C04.STATE")

    # ---------------- INT
    # ---------------- KEYS
    reads = [(f, k, n) for f, k, n in action_config_reads(ctx) if f.cls is not None and f.cls.qname == LA]
    keys = set()
    for f, k, n in reads:
        if k.startswith("<dynamic:"):
            pname = k[9:-1]
            for cf, call in t.callers.get(t.fkey(f), []):
                a = t.bind_args(f, call).get(pname)
                if a is not None:
                    from .common import literal_key
                    lk = literal_key(ctx, cf, a)
                    if lk:
                        keys.add(lk)
        else:
            keys.add(k)
    keys -= {"watches", "log_msg"}
    res.analysed["limit keys read by LocationAction"] = sorted(keys)
    for k in ("fire_count", "fire_period"):
        if k not in keys:
            res.fail(Finding("C04.KEYS", LA, k, p.cls(LA).module.relpath, "LocationAction no longer reads the limit key '%s' from its config" % k))
    writers = action_config_writers(ctx)
    builders = {q: v for q, v in writers.items() if q.startswith("deep.api.tracepoint.trigger.build_")}
    res.floor("action builders", len(builders), 4)
    for q, lst in sorted(builders.items()):
        for bf, call, wk in lst:
            for k in sorted(keys):
                if k in wk:
                    v = wk[k]
                    src = ctx.expand.expand(v, bf)
                    if any(("'%s'" % k) in s and "@args" in s.replace("@" + bf.params[1], "@args") for s in src):
                        res.ok("C04.KEYS", {"builder": bf.name, "key": k, "from": src[0]})
                    else:
                        res.fail(Finding("C04.KEYS", bf.qname, k, bf.loc(v), "key '%s' is not copied from the tracepoint argument of the same name (%s)" % (k, src)))
                else:
                    res.fail(Finding("C04.KEYS", bf.qname, k, bf.loc(call),
                                     "LocationAction reads '%s' from its config but %s never writes it: a configured %s is silently ignored" % (k, bf.name, k)))

    # ---------------- ATOMIC
    writers_of_stats = {t.fkey(fire)}
    changed = True
    while changed:
        changed = False
        for f in p.functions.values():
            if t.fkey(f) in writers_of_stats:
                continue
            if any(t.fkey(x) in writers_of_stats for c in t.calls_in(f) for x in t.resolve_call(c, f).repo
                   if not ctx.types.resolve_call(c, f).by_name):
                writers_of_stats.add(t.fkey(f)); changed = True
    lock_sections = []
    for f in p.functions.values():
        for w in t.nodes_in(f, ast.With):
            for it in w.items:
                tt = t.type_of(it.context_expr, f)
                if any(x[0] == "ext" and ("Lock" in x[1]) for x in tt) or "lock" in norm(it.context_expr).lower():
                    body_calls = [c for c in ast.walk(w) if isinstance(c, ast.Call)]
                    writes = any(t.fkey(x) in writers_of_stats for c in body_calls for x in t.resolve_call(c, f).repo)
                    reads = any(x.qname == LA + ".can_trigger" or x.qname == AC + ".can_trigger" for c in body_calls for x in t.resolve_call(c, f).repo) \
                        or any(isinstance(n, ast.Attribute) and n.attr in (cnt_field, "fire_count") for n in ast.walk(w))
                    if writes and reads:
                        lock_sections.append((f, w))
    if lock_sections:
        res.ok("C04.ATOMIC", {"critical section": lock_sections[0][0].loc(lock_sections[0][1])})
    else:
        res.fail(Finding("C04.ATOMIC", fi.qname, "<check ... record>", fi.loc(),
                         "the fire statistics are checked (can_trigger) and recorded (ActionContext.__exit__ -> fire) without a "
                         "common critical section: two threads reaching the tracepoint together both pass the check, so "
                         "fire_count/fire_period are exceeded"))
    return res
