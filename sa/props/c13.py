"""C13 registration handle removes exactly its tracepoint - see DESIGN.md section 4 (C13)."""
import ast

from .common import Ctx, Finding, Result, need, term, P, TRUSTED_LOGGING
from ..index import norm
from ..deps import Deps, FRESH
from .. import paths

SVC = "deep.config.tracepoint_config.TracepointConfigService"
DEEP = "deep.api.deep"


def _none_tolerated(ctx, fi, pname, depth=3, seen=None):
    """Some function the parameter is handed to (by name) tests it against None before using it."""
    seen = seen if seen is not None else set()
    k = (ctx.types.fkey(fi), pname)
    if k in seen or depth < 0:
        return False
    seen.add(k)
    for n in ctx.types.nodes_in(fi, ast.Compare):
        if isinstance(n.left, ast.Name) and n.left.id == pname and len(n.ops) == 1 and isinstance(n.ops[0], (ast.Is, ast.IsNot)) \
                and isinstance(n.comparators[0], ast.Constant) and n.comparators[0].value is None:
            return True
    for c in ctx.types.calls_in(fi):
        tg = ctx.types.resolve_call(c, fi)
        if tg.by_name:
            continue
        for g_ in tg.repo:
            for gp, arg in ctx.types.bind_args(g_, c).items():
                if isinstance(arg, ast.Name) and arg.id == pname and _none_tolerated(ctx, g_, gp, depth - 1, seen):
                    return True
    return False


def run(ctx: Ctx, tier: str) -> Result:
    res = Result("C13")
    res.explanation = (
        "Handle injectivity by object-sensitive value-dependence analysis: the value add_custom returns (and "
        "remove_custom matches) must depend on a per-call fresh token (uuid4(), object identity); if every origin "
        "atom of the handle is a parameter of add_custom, two registrations with equal arguments get equal handles "
        "and removal deletes the wrong one. Shape rules: remove_custom matches the same quantity, deletes at most "
        "one entry and is a no-op when nothing matches; add_custom hands its arguments unchanged to build_trigger "
        "and appends to the custom list, which nothing else reassigns; listeners receive polled + custom "
        "tracepoints; the public API forwards arguments and handle unchanged.")
    res.trusted = [TRUSTED_LOGGING, "uuid.uuid4() values are distinct per call"]
    res.not_decided = ["interleaving of register/unregister with service updates on real threads (see C12)"]
    for rid, text in (("C13.HANDLE", "handle depends on a per-call fresh token"),
                      ("C13.MATCH", "remove matches the returned quantity, removes at most one, no-op otherwise"),
                      ("C13.ADD", "registration appends alongside service tracepoints with unchanged arguments"),
                      ("C13.API", "public API forwards arguments and handle unchanged"),
                      ("C13.ARGS", "the objects a caller passes to the API (options, watches, metric definitions) are never written to")):
        res.rule(rid, text)
    p, t, g = ctx.prog, ctx.types, ctx.guards
    add = p.func(SVC + ".add_custom")
    rem = p.func(SVC + ".remove_custom")
    d = Deps(p, t)

    # ---------------- HANDLE
    rets = [r for r in t.nodes_in(add, ast.Return) if r.value is not None]
    need(rets, "add_custom returns nothing")
    for r in rets:
        v = d.value(r.value, add)
        deps = v.all_deps() if not v.objs else v.all_deps()
        direct = set(v.deps)
        if v.objs:
            # returning the freshly built object itself is an identity-based handle
            direct.add(FRESH)
        if FRESH in direct:
            res.ok("C13.HANDLE", {"handle": norm(r.value), "depends on": sorted(direct)})
        else:
            res.fail(Finding("C13.HANDLE", add.qname, r, add.loc(r),
                             "the registration handle `%s` depends only on %s: two registrations with the same file and line "
                             "get the same handle, so unregistering one removes the other" % (norm(r.value), sorted(direct) or "constants")))

    # ---------------- MATCH
    idp = P(rem, 1)[1:]
    custom_field = None
    for n in t.nodes_in(add, ast.Call):
        if isinstance(n.func, ast.Attribute) and n.func.attr == "append" and norm(n.func.value).startswith("self."):
            custom_field = norm(n.func.value)
    if custom_field is None:
        res.fail(Finding("C13.ADD", add.qname, "<append to the custom list>", add.loc(),
                         "add_custom does not append the new trigger to the list of registered tracepoints (earlier registrations are replaced or the new one is lost)"))
        return res
    handle_txt = [norm(r.value) for r in rets]
    cmps = [n for n in t.nodes_in(rem, ast.Compare) if any(isinstance(x, ast.Name) and x.id == idp for x in [n.left] + n.comparators)]
    lookups = [n for n in t.nodes_in(rem, ast.Call) if isinstance(n.func, ast.Attribute) and n.func.attr in ("pop", "get")
               and n.args and norm(n.args[0]) == idp]
    okm = False
    why = "remove_custom does not look the handle up"
    if lookups:
        dct = norm(lookups[0].func.value)
        stores = [n for n in t.nodes_in(add, ast.Assign) if isinstance(n.targets[0], ast.Subscript) and norm(n.targets[0].value) == dct]
        if stores and all(norm(s.targets[0].slice) in handle_txt for s in stores):
            okm = True
            why = "lookup in %s keyed by the returned handle" % dct
        else:
            why = "%s is not keyed by the value add_custom returns" % dct
    elif cmps:
        c = cmps[0]
        other = c.comparators[0] if norm(c.left) == idp else c.left
        if isinstance(other, ast.Attribute) and any(h.endswith("." + other.attr) for h in handle_txt):
            okm = True
            why = "compares .%s, the attribute add_custom returns" % other.attr
        else:
            why = "compares `%s` while add_custom returns %s" % (norm(other), handle_txt)
    if okm:
        res.ok("C13.MATCH", {"match": why})
    else:
        res.fail(Finding("C13.MATCH", rem.qname, cmps[0] if cmps else "<match>", rem.loc(), why))
    def _dels_in(fn):
        return [n for n in t.nodes_in(fn) if (isinstance(n, ast.Delete) and any(custom_field in norm(x) for x in n.targets)) or
                (isinstance(n, ast.Call) and isinstance(n.func, ast.Attribute) and n.func.attr in ("remove", "pop") and norm(n.func.value) == custom_field)]
    srch, srch_call = rem, None
    if not _dels_in(rem):
        for c_ in t.calls_in(rem):
            for g_ in t.resolve_call(c_, rem).repo:
                if g_.cls is rem.cls and g_.name.startswith("_") and _dels_in(g_):
                    srch, srch_call = g_, c_
    dels = _dels_in(srch)
    reassign = [n for n in t.nodes_in(srch, ast.Assign) if norm(n.targets[0]) == custom_field]
    if len(dels) == 1 and not reassign:
        dl = dels[0]
        lps = paths.enclosing_loops(p, dl, srch)
        st = paths.stmt_of(p, dl)
        pos = paths.block_position(p, st)
        after = getattr(pos[0], pos[1])[pos[2] + 1:] if pos else []
        exits = not lps or paths.always_exits(after) or any(isinstance(s_, (ast.Break, ast.Return)) for s_ in after)
        if exits:
            res.ok("C13.MATCH", {"removes at most one entry per call": srch.loc(dl)})
        else:
            res.fail(Finding("C13.MATCH", rem.qname, dl, srch.loc(dl), "removal continues after the first match (mutating the list it iterates / removing several registrations)"))
    elif reassign:
        res.fail(Finding("C13.MATCH", rem.qname, reassign[0], rem.loc(reassign[0]), "remove_custom rebuilds the custom list: may remove several registrations"))
    else:
        res.fail(Finding("C13.MATCH", rem.qname, "<del custom[idx]>", rem.loc(), "remove_custom deletes %d times" % len(dels)))
    # the entry that is deleted is the one that was looked up: the whole list is searched, and the delete is guarded by
    # identity (or equality) of the element with the registration's own trigger
    for dl in dels:
        lps_ = [l for l in paths.enclosing_loops(p, dl, srch) if isinstance(l, ast.For)]
        if not lps_:
            continue
        it_ = lps_[0].iter
        whole = norm(it_) in (custom_field, "enumerate(%s)" % custom_field, "list(%s)" % custom_field, "list(enumerate(%s))" % custom_field,
                              "range(len(%s))" % custom_field, "reversed(list(enumerate(%s)))" % custom_field)
        elem = norm(lps_[0].target.elts[1]) if isinstance(lps_[0].target, ast.Tuple) and len(lps_[0].target.elts) == 2 else norm(lps_[0].target)
        conds_ = [(c_, pol) for c_, pol in paths.conditions(p, dl, srch) if paths.within(p, c_, lps_[0])]
        ident = [c_ for c_, pol in conds_ if pol and isinstance(c_, ast.Compare) and len(c_.ops) == 1 and isinstance(c_.ops[0], (ast.Is, ast.Eq))
                 and elem in (norm(c_.left), norm(c_.comparators[0]))]
        by_value = [c_ for c_ in ident if isinstance(c_.ops[0], ast.Eq)]
        if whole and by_value:
            # `==` runs Trigger.__eq__ against every earlier registration: the locations' __eq__ are not total (a method location
            # compared with a line location of the same file fails), and the handle names one object, not a value
            res.fail(Finding("C13.MATCH", rem.qname, by_value[0], srch.loc(by_value[0]), "the registration's trigger is looked for by value (`%s`), not by identity: the comparison runs the "
                             "triggers' __eq__ on every earlier registration - which is not total (method against line location of one file) - so unregistering "
                             "can fail half way, leaving the tracepoint installed with a dead handle" % norm(by_value[0])))
        elif whole and ident and len(conds_) == len(ident):
            res.ok("C13.MATCH", {"searches the whole list; deletes the element that is the registration's trigger": norm(ident[0])})
        else:
            res.fail(Finding("C13.MATCH", rem.qname, dl, srch.loc(dl), "the entry deleted is not found by comparing every registered trigger with the one looked up "
                             "(iterates `%s`, guarded by %s): another registration is removed, or none" % (norm(it_)[:50], [norm(c_)[:40] for c_, _ in conds_])))
    # the only way out before the deletion is `nothing was registered under this handle`
    if lookups and dels:
        lk_st = paths.stmt_of(p, lookups[0])
        lk_name = norm(lk_st.targets[0]) if isinstance(lk_st, ast.Assign) else None
        before_ = dels[0].lineno if srch is rem else srch_call.lineno
        for r_ in [n for n in t.nodes_in(rem, ast.Return) if n.lineno < before_ and not paths.enclosing_loops(p, n, rem)]:
            cs_ = [(norm(c_), pol) for c_, pol in paths.conditions(p, r_, rem)]
            if lk_name and cs_ in ([("%s is None" % lk_name, True)], [("%s is not None" % lk_name, False)], [("not %s" % lk_name, True)]):
                res.ok("C13.MATCH", {"returns early only for an unknown handle": cs_[0][0]})
            else:
                res.fail(Finding("C13.MATCH", rem.qname, r_, rem.loc(r_), "remove_custom returns before removing when `%s`: a valid handle does not remove its tracepoint" % (
                    " and ".join(("" if pol else "not ") + c_ for c_, pol in cs_) or "always")))
    raises = [n for n in t.nodes_in(rem, ast.Raise)]
    risky = []
    for s_, esc_ in g.unguarded_sites(rem):
        txt = norm(s_.node)
        by_handle = idp in txt and s_.kind in ("subscript", "call") and any(k in ("LookupError", "KeyError", "ValueError", "IndexError") for k in esc_)
        list_search = s_.kind == "call" and isinstance(s_.node.func, ast.Attribute) and s_.node.func.attr in ("remove", "index") \
            and any(k in ("ValueError",) for k in esc_)
        if by_handle or list_search:
            risky.append(s_)
    if not raises and not risky:
        res.ok("C13.MATCH", {"unknown / repeated handle is a no-op": True})
    else:
        bad_ = raises[0] if raises else risky[0].node
        res.fail(Finding("C13.MATCH", rem.qname, bad_, rem.loc(bad_), "unregistering an unknown or already removed handle raises instead of being harmless"))
    notif = [c for c in t.calls_in(rem) if any(x.name.endswith("trigger_update") for x in t.resolve_call(c, rem).repo)]
    if notif:
        res.ok("C13.MATCH", {"listeners notified after removal": rem.loc(notif[0])})
    else:
        res.fail(Finding("C13.MATCH", rem.qname, "<notify listeners>", rem.loc(), "removal is never propagated to the trigger handler"))

    # ---------------- ADD
    bt = p.func("deep.api.tracepoint.trigger.build_trigger")
    bc = [c for c in t.calls_in(add) if bt in t.resolve_call(c, add).repo]
    need(len(bc) == 1, "add_custom: build_trigger call not found")
    b = t.bind_args(bt, bc[0])
    for i, role in enumerate(bt.params[1:], start=1):
        want = P(add, i)
        got = ctx.expand.expand(b[role], add) if role in b else []
        if got == [want]:
            res.ok("C13.ADD", {role: got[0]})
        else:
            res.fail(Finding("C13.ADD", add.qname, bc[0], add.loc(bc[0]), "build_trigger receives %s for `%s`, expected the caller's argument %s" % (got, role, want)))
    tid = d.value(b[bt.params[0]], add) if bt.params[0] in b else None
    if tid is not None and FRESH in tid.deps:
        res.ok("C13.ADD", {"tracepoint id": "fresh per registration"})
    else:
        res.fail(Finding("C13.ADD", add.qname, bc[0], add.loc(bc[0]), "registered tracepoints do not get a fresh tracepoint id"))
    svc = p.cls(SVC)
    fld = custom_field.split(".", 1)[1]
    bad = [(sf, v) for sf, v, _ in t.field_stores(svc, fld) if sf.name != "__init__"]
    if not bad:
        res.ok("C13.ADD", {"custom list only appended/deleted": custom_field})
    for sf, v in bad:
        res.fail(Finding("C13.ADD", sf.qname, paths.stmt_of(p, v), sf.loc(v), "the list of registered tracepoints is reassigned (service updates must not replace code registrations)"))
    ul = p.func(SVC + ".update_listeners")
    cc = [c for c in t.calls_in(ul) if isinstance(c.func, ast.Attribute) and c.func.attr == "config_change"]
    need(len(cc) == 1, "update_listeners: config_change call not found")
    last = ctx.expand.expand(cc[0].args[-1], ul)
    polled = (P(ul, 5), "@self._tracepoint_config")
    if last and all(x in ["%s + @%s" % (a_, custom_field) for a_ in polled] + ["@%s + %s" % (custom_field, a_) for a_ in polled] for x in last):
        res.ok("C13.ADD", {"listeners receive": last[0]})
    else:
        res.fail(Finding("C13.ADD", ul.qname, cc[0], ul.loc(cc[0]), "listeners do not receive polled + registered tracepoints: %s" % last))
    notif = [c for c in t.calls_in(add) if any(x.name.endswith("trigger_update") for x in t.resolve_call(c, add).repo)]
    app = [c for c in t.calls_in(add) if isinstance(c.func, ast.Attribute) and c.func.attr == "append" and norm(c.func.value) == custom_field]
    if notif and app and paths.dominates(p, app[0], notif[0], add):
        res.ok("C13.ADD", {"appended, then listeners notified": True})
    else:
        res.fail(Finding("C13.ADD", add.qname, "<append; notify>", add.loc(), "a registration is not appended and then propagated to the trigger handler"))

    # every (un)registration reaches the listeners: the notifier submits unconditionally (only `a task handler is set`)
    tu = [f for f in p.functions.values() if f.cls is svc and f.name.endswith("trigger_update")]
    need(len(tu) == 1, "TracepointConfigService.__trigger_update not found")
    tu = tu[0]
    subs = [c for c in t.calls_in(tu) if any(x.qname == "deep.task.TaskHandler.submit_task" for x in t.resolve_call(c, tu).repo)
            or (isinstance(c.func, ast.Attribute) and c.func.attr == "submit_task")]
    if len(subs) != 1:
        res.fail(Finding("C13.ADD", tu.qname, "<submit_task(update_listeners, ...)>", tu.loc(), "the notifier submits the listener update %d times" % len(subs)))
    else:
        extra = [(c, pol) for c, pol in paths.conditions(p, subs[0], tu) if "_task_handler" not in norm(c)]
        fn = ctx.expand.expand(subs[0].args[0], tu) if subs[0].args else []
        if not extra and not paths.enclosing_loops(p, subs[0], tu) and fn and fn[0].endswith("update_listeners"):
            res.ok("C13.ADD", {"every change is submitted to the listeners": tu.loc(subs[0])})
        else:
            res.fail(Finding("C13.ADD", tu.qname, subs[0], tu.loc(subs[0]),
                             "the listener update is only submitted when `%s`: a registration or unregistration made at the wrong moment "
                             "never reaches the trigger handler" % (norm(extra[0][0]) if extra else fn)))
    early = [n for n in t.nodes_in(tu, ast.Return) if subs and n.lineno < subs[0].lineno
             and not all("_task_handler" in norm(c) for c, pol in paths.conditions(p, n, tu))]
    if early:
        res.fail(Finding("C13.ADD", tu.qname, early[0], tu.loc(early[0]), "the notifier returns before submitting the listener update on some path"))

    # ---------------- API
    reg = p.func(DEEP + ".Deep.register_tracepoint")
    ac = [c for c in t.calls_in(reg) if add in t.resolve_call(c, reg).repo]
    if not ac:
        res.fail(Finding("C13.API", reg.qname, "<tracepoints.add_custom(path, line, args, watches, metrics)>", reg.loc(), "register_tracepoint does not register anything with the tracepoint service"))
        return res
    need(len(ac) == 1, "register_tracepoint: add_custom call not found")
    ba = t.bind_args(add, ac[0])
    for i, role in enumerate(add.params[1:], start=1):
        got = ctx.expand.expand(ba[role], reg) if role in ba else []
        want = P(reg, i)
        def copy_of(x, want=None):
            # a shallow copy of the caller's object carries the same content (text of an expanded value)
            import re as _re
            w_ = _re.escape(want) if want else r"@\w+"
            l_ = r"(?:%s|<loop:%s>)" % (w_, w_.lstrip("@"))
            one = r"(?:(?:dict|list|tuple)\(%s(?: or (?:\{\}|\[\]|\(\)))?\)|%s\.copy\(\)|\{\*\*%s\}|\[\*%s\])" % (l_, l_, l_, l_)
            emp = r"(?:\{\}|\[\]|\(\))"
            return _re.fullmatch(r"%s|%s if %s is None else %s|%s if %s is not None else %s|%s if %s else %s" % (one, emp, l_, one, one, l_, emp, one, l_, emp), x) is not None
        if (want in got or any(copy_of(x, want) for x in got)) and all(x == want or x in ("[]", "{}") or copy_of(x, want) for x in got):
            res.ok("C13.API", {role: got})
        else:
            res.fail(Finding("C13.API", reg.qname, ac[0], reg.loc(ac[0]), "add_custom receives %s for `%s`, expected %s" % (got, role, want)))
    # an argument that was given is never replaced: the empty default is taken only when the caller passed None
    for pn in reg.params[1:]:
        for kind, b in t.local_bindings(reg, pn):
            if kind == "param":
                continue
            v = b[1] if kind == "assign" else None
            st = paths.stmt_of(p, v) if v is not None else None
            conds = [(norm(c), pol) for c, pol in paths.conditions(p, st, reg)] if st is not None else []
            empty = isinstance(v, (ast.List, ast.Dict, ast.Tuple)) and not getattr(v, "elts", getattr(v, "keys", None))
            if empty and conds in ([("%s is None" % pn, True)], [("%s is not None" % pn, False)]):
                res.ok("C13.API", {"default for %s only when None" % pn: norm(st)})
            elif v is not None and copy_of(norm(v).replace(pn, "@" + pn), "@" + pn) and not conds:
                res.ok("C13.API", {"%s copied before use" % pn: norm(st)})
            else:
                res.fail(Finding("C13.API", reg.qname, st if st is not None else pn, reg.loc(st) if st is not None else reg.loc(),
                                 "the caller's `%s` is replaced %s: the tracepoint is registered without the %s that were given" % (
                                     pn, "when `%s`" % " and ".join(("" if pol else "not ") + c for c, pol in conds) if conds else "unconditionally", pn)))
    # ... and an argument that was left out (None) is replaced by an empty one before the tracepoint is built - here or in add_custom
    a_ = reg.node.args
    pos_ = a_.posonlyargs + a_.args
    for arg_, dflt in zip(pos_[len(pos_) - len(a_.defaults):], a_.defaults):
        if not (isinstance(dflt, ast.Constant) and dflt.value is None):
            continue
        pn = arg_.arg
        role = [r_ for r_, v_ in ba.items() if isinstance(v_, ast.Name) and v_.id == pn]
        here = any(k == "assign" for k, _ in t.local_bindings(reg, pn))
        if not role:
            # handed on under another name (a copy made at the boundary): the role whose argument comes from this parameter
            for r_, v_ in ba.items():
                ex_ = ctx.expand.expand(v_, reg)
                if any(("@" + pn) in x for x in ex_):
                    role = [r_]
                    here = here or any(x in ("[]", "{}", "()") or (" if @%s is None" % pn) in x or ("@%s or " % pn) in x for x in ex_)
        there = bool(role) and any(k == "assign" for k, _ in t.local_bindings(add, role[0]))
        tolerant = bool(role) and _none_tolerated(ctx, add, role[0])
        if here or there or tolerant:
            res.ok("C13.API", {"omitted %s replaced by an empty default" % pn: "register_tracepoint" if here else "add_custom" if there else "tested for None downstream"})
        else:
            res.fail(Finding("C13.API", reg.qname, pn, reg.loc(), "an omitted `%s` reaches the tracepoint builders as None: a tracepoint registered with "
                             "the defaults fails when it fires instead of becoming active" % pn))
    rr = [r for r in t.nodes_in(reg, ast.Return)]
    trc = p.cls(DEEP + ".TracepointRegistration")
    okr = False
    if len(rr) == 1 and isinstance(rr[0].value, ast.Call) and trc in t.resolve_call(rr[0].value, reg).ctor and rr[0].value.args:
        a0 = rr[0].value.args[0]
        if isinstance(a0, ast.Name):
            bs = [(b[1] if k == "assign" else b.value) for k, b in t.local_bindings(reg, a0.id) if k in ("assign", "ann")]
            okr = len(bs) == 1 and bs[0] is ac[0]
        else:
            okr = a0 is ac[0]
    if okr:
        res.ok("C13.API", {"registration wraps the handle": True})
    else:
        res.fail(Finding("C13.API", reg.qname, rr[0] if rr else "<return>", reg.loc(), "register_tracepoint does not return a registration wrapping add_custom's handle"))
    un = p.func(DEEP + ".TracepointRegistration.unregister")
    rc = [c for c in t.calls_in(un) if rem in t.resolve_call(c, un).repo]
    init = trc.lookup("__init__")
    oku = False
    if len(rc) == 1 and rc[0].args:
        a = rc[0].args[0]
        if isinstance(a, ast.Attribute):
            st = t.field_stores(trc, a.attr)
            oku = bool(st) and all(sf is init and isinstance(v, ast.Name) and v.id == init.params[1] for sf, v, _ in st)
    # ... to the service the tracepoint was registered with
    if len(rc) == 1 and isinstance(rc[0].func, ast.Attribute) and isinstance(rc[0].func.value, ast.Attribute):
        sfld = rc[0].func.value.attr
        sst = t.field_stores(trc, sfld)
        ok_store = bool(sst) and all(sf is init and isinstance(v, ast.Name) and len(init.params) > 2 and v.id == init.params[2] for sf, v, _ in sst)
        ctor_arg = rr[0].value.args[1] if len(rr) == 1 and isinstance(rr[0].value, ast.Call) and len(rr[0].value.args) > 1 else None
        same = ctor_arg is not None and isinstance(ac[0].func, ast.Attribute) and \
            ctx.expand.expand(ctor_arg, reg) == ctx.expand.expand(ac[0].func.value, reg)
        if ok_store and same:
            res.ok("C13.API", {"unregister goes to the service that registered": norm(ctor_arg)})
        else:
            res.fail(Finding("C13.API", un.qname, rc[0], un.loc(rc[0]), "unregister does not reach the service the tracepoint was registered with "
                             "(the registration does not keep it)"))
    else:
        oku = False
    if oku:
        res.ok("C13.API", {"unregister passes the stored handle": True})
    else:
        res.fail(Finding("C13.API", un.qname, rc[0] if rc else "<remove_custom>", un.loc(), "unregister does not pass the handle it was created with to remove_custom"))
    # the argument objects stay the caller's: no public entry point of the API writes into them (a dict of options
    # reused for a second registration must mean the same thing there)
    from .common import param_mutations
    api = [f_ for cq in (DEEP + ".Deep", DEEP + ".TracepointRegistration") for lst_ in p.cls(cq).methods.values() for f_ in lst_
           if not f_.name.startswith("_")]
    for f_ in api:
        for pn in f_.params[1:]:
            muts = param_mutations(ctx, f_, pn, depth=4)
            if muts:
                mf, mn = muts[0]
                res.fail(Finding("C13.ARGS", f_.qname, mn, mf.loc(mn), "`%s` writes into the `%s` object the caller passed to %s: the caller's options "
                                 "are changed behind its back, a later registration made with the same object gets a different tracepoint" % (
                                     norm(mn)[:80], pn, f_.name)))
            else:
                res.ok("C13.ARGS", {"%s(%s) is not modified" % (f_.name, pn): True})
    # ... nor kept as the installed action's own configuration: what governs the action (log text, limits, condition) is a
    # mapping the builder made, so that a later change of the caller's dict does not rewrite an installed tracepoint
    from .common import LA
    la_init = p.cls(LA).lookup("__init__")
    nb = 0
    for bf in [f_ for f_ in p.functions.values() if f_.module.name == "deep.api.tracepoint.trigger" and f_.cls is None]:
        for c_ in t.calls_in(bf):
            if not any(k_.qname == LA or any(b_.qname == LA for b_ in k_.mro) for k_ in t.resolve_call(c_, bf).ctor):
                continue
            cfg = t.bind_args(la_init, c_).get(la_init.params[3]) if len(la_init.params) > 3 else None
            if cfg is None:
                continue
            nb += 1
            src_ = cfg
            if isinstance(cfg, ast.Name):
                bs_ = t.local_bindings(bf, cfg.id)
                src_ = bs_[0][1][1] if len(bs_) == 1 and bs_[0][0] == "assign" and bs_[0][1][2] is None else (cfg if any(k_ == "param" for k_, _ in bs_) else bs_[0][1][1] if bs_ and bs_[0][0] == "assign" else cfg)
            hops = 0
            while isinstance(src_, ast.Name) and hops < 3:
                bs_ = t.local_bindings(bf, src_.id)
                if any(k_ == "param" for k_, _ in bs_) or len(bs_) != 1 or bs_[0][0] != "assign":
                    break
                src_, hops = bs_[0][1][1], hops + 1
            def _fresh(e_, owner_, depth_=0):
                if isinstance(e_, (ast.Dict, ast.DictComp)):
                    return True
                if isinstance(e_, ast.Call) and (norm(e_.func) in ("dict", "copy.copy", "copy.deepcopy") or (isinstance(e_.func, ast.Attribute) and e_.func.attr == "copy")):
                    return True
                if isinstance(e_, ast.Call) and depth_ < 2:
                    # a helper of the builders that puts the mapping together: each of its returns is a new mapping
                    hs_ = t.resolve_call(e_, owner_).repo
                    if len(hs_) == 1 and not t.resolve_call(e_, owner_).ctor:
                        rets_ = [r_ for r_ in t.nodes_in(hs_[0], ast.Return) if r_.value is not None]
                        vals_ = []
                        for r_ in rets_:
                            v_ = r_.value
                            if isinstance(v_, ast.Name):
                                lb_ = t.local_bindings(hs_[0], v_.id)
                                v_ = lb_[0][1][1] if lb_ and all(k_ == "assign" for k_, _ in lb_) and lb_[0][1][2] is None else v_
                            vals_.append(v_)
                        return bool(vals_) and all(_fresh(v_, hs_[0], depth_ + 1) for v_ in vals_)
                return False
            fresh = _fresh(src_, bf)
            if fresh:
                res.ok("C13.ARGS", {"%s: the action's configuration is a mapping made by the builder" % bf.name: norm(src_)[:40]})
            else:
                res.fail(Finding("C13.ARGS", bf.qname, c_, bf.loc(c_), "the action is given `%s` as its configuration, which is the mapping the caller passed (not a copy made by the "
                                 "builder): a later change of that mapping by the program rewrites the installed tracepoint (its log text, limits)" % norm(src_)[:40]))
    res.floor("action constructions in the builders", nb, 4)
    from .common import borrow
    borrow(ctx, res, tier, "c12", ("C12.APPLY",), "C13.INSTALL", "the trigger handler installs every published tracepoint (registered ones alongside the service's)")
    borrow(ctx, res, tier, "c03", ("C03.LOOP",), "C13.ALONGSIDE", "every installed tracepoint of a location acts there (a registration is not shadowed by another tracepoint of the line)")
    borrow(ctx, res, tier, "c20", ("C20.ISO",), "C13.ALONGSIDE", "the results of the tracepoints sharing a hit are handed over each in its own guard: a failing "
           "hand-over of a service tracepoint does not cost the registered tracepoint's snapshot")
    return res
