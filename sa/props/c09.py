"""C09 delivery off-thread, exactly once, flush drains - see DESIGN.md section 4 (C09)."""
import ast

from .common import Ctx, Finding, Result, need, TRUSTED_LOGGING, settrace_entries
from .c01 import reachable
from ..index import norm
from .. import paths

TH = "deep.task.TaskHandler"
PUSH = "deep.push.push_service.PushService"


def calls_to(ctx, fi, qname):
    return [c for c in ctx.types.calls_in(fi) if any(f.qname == qname for f in ctx.types.resolve_call(c, fi).repo)]


def is_wire_sink(ctx: Ctx, fi) -> str:
    """Reason if fi converts to protobuf or talks to the gRPC stub."""
    for c in ctx.types.calls_in(fi):
        tg = ctx.types.resolve_call(c, fi)
        for f in tg.repo:
            if f.qname == "deep.push.convert_snapshot":
                return "calls convert_snapshot"
        for e in tg.ext:
            if e.startswith("deepproto.") and e.endswith("Stub"):
                return "creates gRPC stub %s" % e.rsplit(".", 1)[1]
            if e.startswith("deepproto.") and "_pb2." in e and fi.module.name in ("deep.push",):
                return "builds protobuf message"
    return ""


def unconditional_once(ctx: Ctx, fi, calls, res, rid, what, allow_conditions=()):
    """Exactly one call, not in a loop, not under a condition (besides allow_conditions predicates)."""
    if len(calls) != 1:
        res.fail(Finding(rid, fi.qname, "<%s>" % what, fi.loc(),
                         "%s is performed %d times in %s (expected exactly once per hand-over)" % (what, len(calls), fi.name)))
        return
    c = calls[0]
    loops = paths.enclosing_loops(ctx.prog, c, fi)
    if loops:
        res.fail(Finding(rid, fi.qname, c, fi.loc(c), "%s sits in a loop (retry / duplicate delivery)" % what))
        return
    conds = [(t, pol) for t, pol in paths.conditions(ctx.prog, c, fi) if not any(p(t, pol) for p in allow_conditions)]
    if conds:
        res.fail(Finding(rid, fi.qname, c, fi.loc(c), "%s is conditional on `%s`: some hand-overs are silently dropped" % (
            what, norm(conds[0][0]))))
        return
    res.ok(rid, {"exactly once": what, "in": fi.qname, "at": fi.loc(c)})


def flush_rules(ctx: Ctx, res: Result, RID: str):
    """flush lets no task outcome escape, closes first, and waits for every pending future with the guard inside the loop."""
    p, t, g = ctx.prog, ctx.types, ctx.guards
    flush = p.func(TH + ".flush")
    esc = g.escape_tokens(flush)
    if not esc:
        res.ok(RID, {"flush lets nothing escape": True})
    for s, e in g.unguarded_sites(flush):
        for tok, ch in sorted(e.items()):
            res.fail(Finding(RID, flush.qname, s.node, flush.loc(s.node),
                             "%s escapes flush: a failed/slow task (or a racing completion) makes flush raise "
                             "instead of returning after all tasks finished" % tok, path=g.fmt_chain(ch)))
    waits = [c for c in t.calls_in(flush) if (isinstance(c.func, ast.Attribute) and c.func.attr in ("result", "exception"))
             or any(e == "concurrent.futures.wait" for e in t.resolve_call(c, flush).ext)]
    if not waits:
        res.fail(Finding(RID, flush.qname, "<wait on pending futures>", flush.loc(), "flush does not wait for pending tasks"))
    for w in waits:
        loops = paths.enclosing_loops(p, w, flush)
        tok = "Exception"
        ct = g.catching_try(w, flush, tok)
        if loops and ct is not None and any(paths.within(p, lp, ct[0]) for lp in loops):
            res.fail(Finding(RID, flush.qname, w, flush.loc(w), "the guard wraps the whole wait loop: one timeout stops waiting for the rest"))
        else:
            res.ok(RID, {"wait": norm(w), "at": flush.loc(w), "per-future": bool(loops)})
        # how long a task is waited for does not depend on how many there are: no limit, or a fixed positive one (a time
        # budget divided by the number of pending tasks reaches 0 with enough of them, and flush returns at once)
        if isinstance(w.func, ast.Attribute) and w.func.attr in ("result", "exception") and not t.resolve_call(w, flush).repo \
                and not norm(w.func.value).endswith("logging"):
            ta = w.args[0] if w.args else next((k.value for k in w.keywords if k.arg == "timeout"), None)
            fixed = ta is None or (isinstance(ta, ast.Constant) and (ta.value is None or (isinstance(ta.value, (int, float)) and ta.value > 0)))
            if not fixed and isinstance(ta, (ast.Name, ast.Attribute)):
                if isinstance(ta, ast.Name) and t.local_bindings(flush, ta.id):
                    lb_ = t.local_bindings(flush, ta.id)
                    fixed = len(lb_) == 1 and lb_[0][0] == "assign" and lb_[0][1][2] is None and isinstance(lb_[0][1][1], ast.Constant) \
                        and isinstance(lb_[0][1][1].value, (int, float)) and not isinstance(lb_[0][1][1].value, bool) and lb_[0][1][1].value > 0 \
                        and not paths.enclosing_loops(p, lb_[0][1][1], flush)
                else:
                    r_ = p.resolve_expr_static(flush.module, ta)
                    v_ = r_[1].consts.get(r_[2]) if r_ and r_[0] == "const" else None
                    if v_ is None and isinstance(ta, ast.Attribute) and isinstance(ta.value, ast.Name) and ta.value.id in ("self", "cls") and flush.cls is not None:
                        v_ = next((c_.class_attrs[ta.attr] for c_ in flush.cls.mro if ta.attr in c_.class_attrs), None)
                    fixed = isinstance(v_, ast.Constant) and isinstance(v_.value, (int, float)) and v_.value > 0
            if fixed:
                res.ok(RID, {"wait per task is fixed": norm(ta) if ta is not None else "no limit"})
            else:
                res.fail(Finding(RID, flush.qname, w, flush.loc(w), "the time flush waits for a task is `%s`, worked out at run time: with many pending tasks (or an integer division) it "
                                 "becomes 0 and flush returns while accepted tasks are still running" % norm(ta)[:40]))
        # every path through flush reaches the wait: no condition, no earlier exit
        anchor = loops[-1] if loops else paths.stmt_of(p, w)
        conds_ = paths.conditions(p, anchor, flush)
        early = [n for n in t.nodes_in(flush, (ast.Return, ast.Raise)) if n.lineno < anchor.lineno and not paths.within(p, n, anchor)
                 and g.catching_try(n, flush, "BaseException") is None]
        if conds_ or early:
            what = conds_[0][0] if conds_ else early[0]
            res.fail(Finding(RID, flush.qname, what, flush.loc(what), "flush can return without waiting (`%s`): a flush that finds the handler already "
                             "closed (second caller, retry) returns while accepted tasks are still running" % norm(what)[:60]))
        else:
            res.ok(RID, {"wait reached on every path": True})
        if loops:
            it = getattr(loops[0], "iter", None)
            if isinstance(it, ast.Name):
                # pending = list(self._pending.values()) taken under the lock, then walked
                bs_ = [b for k_, b in t.local_bindings(flush, it.id)]
                if len(bs_) == 1 and isinstance(bs_[0], tuple) and bs_[0][2] is None and bs_[0][1] is not None:
                    it = bs_[0][1]
            cut = [n for n in ast.walk(it) if isinstance(n, ast.Subscript) or (isinstance(n, ast.Call) and norm(n.func).endswith("islice"))] if it is not None else []
            if it is not None and "_pending" in norm(it) and cut:
                res.fail(Finding(RID, flush.qname, it, flush.loc(it), "flush waits for a part of the pending futures only (`%s`)" % norm(cut[0])[:60]))
            elif it is not None and "_pending" in norm(it):
                res.ok(RID, {"iterates": norm(it)})
            else:
                res.fail(Finding(RID, flush.qname, loops[0].iter if hasattr(loops[0], "iter") else w, flush.loc(w),
                                 "flush does not iterate the pending map"))
    closes = [n for n in t.nodes_in(flush, ast.Assign) if any(isinstance(x, ast.Attribute) and x.attr == "_open" for x in n.targets)]
    if closes and isinstance(closes[0].value, ast.Constant) and closes[0].value.value is False and \
            all(paths.dominates(p, closes[0], w, flush) for w in waits):
        res.ok(RID, {"closed before waiting": flush.loc(closes[0])})
    else:
        res.fail(Finding(RID, flush.qname, "<self._open = False>", flush.loc(), "flush does not close the handler before waiting"))



def run(ctx: Ctx, tier: str) -> Result:
    res = Result("C09")
    res.explanation = (
        "Who-may-call / thread-role and path-shape rules: (A) no synchronous call path from the settrace "
        "callback reaches protobuf conversion or the gRPC stub; the push task is only ever passed as a function "
        "value to TaskHandler.submit_task, which hands it to the pool and never calls it itself; (B) every "
        "hand-over is submitted exactly once on every path (no loop, no condition) and the stub is called once; "
        "(C) flush lets no task outcome or wait failure escape, closes before waiting and waits for every pending "
        "future with the guard inside the loop; (D) submit refuses visibly when closed, before anything is queued; "
        "(E) read-modify-write of handler state holds the handler lock.")
    res.trusted = [TRUSTED_LOGGING, "ThreadPoolExecutor captures task exceptions in the Future (stdlib semantics)",
                   "concurrent.futures ignores exceptions raised by done-callbacks"]
    res.not_decided = ["timing of real tasks and the 10 s timeout", "retries inside grpc", "actual interleavings"]
    for rid, text in (("C09.A", "conversion/sending unreachable from the application thread"),
                      ("C09.B", "exactly one submit / send per hand-over"),
                      ("C09.C", "flush contains task outcomes and waits for all"),
                      ("C09.D", "submit after close raises before queueing"),
                      ("C09.E", "read-modify-write of handler state under the lock"),
                      ("C09.F", "state shared between sends is stored only after the step that computes it succeeded")):
        res.rule(rid, text)
    p, t, g = ctx.prog, ctx.types, ctx.guards

    # ---------------- A
    sinks = {t.fkey(f): why for f in p.functions.values() for why in [is_wire_sink(ctx, f)] if why}
    res.floor("wire sink functions", len(sinks), 2)
    entries = {f.qname: f for f, _, _ in settrace_entries(ctx)}
    need(entries, "no settrace entry point")
    for qn, entry in entries.items():
        reach = reachable(ctx, entry)
        hit = [f for f in reach if t.fkey(f) in sinks]
        res.analysed["functions reachable synchronously from %s" % entry.name] = len(reach)
        if not hit:
            res.ok("C09.A", {"entry": qn, "reachable": len(reach), "sinks": sorted(sinks)})
        for f in hit:
            res.fail(Finding("C09.A", f.qname, "<%s>" % sinks[t.fkey(f)], f.loc(),
                             "%s (%s) is reachable synchronously from the trace callback: conversion/sending "
                             "would run on the application thread" % (f.qname, sinks[t.fkey(f)])))
    push_task = p.func(PUSH + "._push_task")
    direct = t.callers.get(t.fkey(push_task), [])
    if direct:
        for cf, call in direct:
            res.fail(Finding("C09.A", cf.qname, call, cf.loc(call), "the push task is called directly instead of being submitted"))
    else:
        res.ok("C09.A", {"_push_task never called directly": True})
    submit = p.func(TH + ".submit_task")
    task_param = submit.params[1] if len(submit.params) > 1 else None
    need(task_param, "submit_task has no task parameter")
    called_inline = [c for c in t.calls_in(submit) if isinstance(c.func, ast.Name) and c.func.id == task_param]
    pool_submits = [c for c in t.calls_in(submit) if isinstance(c.func, ast.Attribute) and c.func.attr == "submit"
                    and c.args and isinstance(c.args[0], ast.Name) and c.args[0].id == task_param]
    if called_inline:
        res.fail(Finding("C09.A", submit.qname, called_inline[0], submit.loc(called_inline[0]),
                         "submit_task runs the task on the submitting (application) thread"))
    elif len(pool_submits) == 1:
        res.ok("C09.A", {"task handed to the pool": norm(pool_submits[0]), "at": submit.loc(pool_submits[0])})
    else:
        res.fail(Finding("C09.A", submit.qname, "<pool.submit(task)>", submit.loc(),
                         "submit_task hands the task to the pool %d times (expected once)" % len(pool_submits)))

    # ---------------- B
    push = p.func(PUSH + ".push_snapshot")
    unconditional_once(ctx, push, calls_to(ctx, push, TH + ".submit_task"), res, "C09.B", "submit_task(_push_task)")
    sub = calls_to(ctx, push, TH + ".submit_task")
    if sub and sub[0].args:
        ts = t.type_of(sub[0].args[0], push)
        if any(x[0] in ("bound", "func") and x[1] == t.fkey(push_task) for x in ts):
            res.ok("C09.B", {"submitted function": "_push_task"})
        else:
            res.fail(Finding("C09.B", push.qname, sub[0], push.loc(sub[0]), "push_snapshot submits something other than the push task"))
    producers = [f for f in p.functions.values() if calls_to(ctx, f, PUSH + ".push_snapshot")]
    res.floor("push_snapshot callers", len(producers), 2)
    for f in producers:
        unconditional_once(ctx, f, calls_to(ctx, f, PUSH + ".push_snapshot"), res, "C09.B", "push_snapshot")
    sends = [c for c in t.calls_in(push_task) if isinstance(c.func, ast.Attribute) and c.func.attr == "send"]

    def converted_not_none(test, pol):
        return "None" in norm(test)
    unconditional_once(ctx, push_task, sends, res, "C09.B", "stub.send", allow_conditions=(converted_not_none,))

    # ---------------- C
    flush_rules(ctx, res, "C09.C")

    # every accepted task is tracked: the pool's future goes into the map flush waits on, on every path
    for ps in pool_submits:
        st = paths.stmt_of(p, ps)
        fut = norm(st.targets[0]) if isinstance(st, ast.Assign) and len(st.targets) == 1 and isinstance(st.targets[0], ast.Name) else None
        regs = [n for n in t.nodes_in(submit, ast.Assign) if isinstance(n.targets[0], ast.Subscript) and "_pending" in norm(n.targets[0].value)
                and (norm(n.value) == fut or n.value is ps)]
        okreg = [n for n in regs if not paths.conditions(p, n, submit) and not paths.enclosing_loops(p, n, submit)
                 and (n.value is ps or paths.dominates(p, st, n, submit))]
        if okreg:
            res.ok("C09.C", {"accepted task tracked": norm(okreg[0])})
        else:
            res.fail(Finding("C09.C", submit.qname, regs[0] if regs else "<self._pending[id] = future>", submit.loc(regs[0]) if regs else submit.loc(),
                             "the future of an accepted task is not (unconditionally) recorded in the pending map: flush does not wait for it"))
    # the key an accepted task is tracked under is new for every submission (two tasks under one key: flush misses one)
    for ps in pool_submits:
        regs_ = [n for n in t.nodes_in(submit, ast.Assign) if isinstance(n.targets[0], ast.Subscript) and "_pending" in norm(n.targets[0].value)]
        for n in regs_:
            key = n.targets[0].slice
            src = None
            if isinstance(key, ast.Name):
                bs_ = [b for k_, b in t.local_bindings(submit, key.id) if k_ == "assign"]
                src = bs_[0][1] if len(bs_) == 1 else None
            okk = False
            why = "the tracking key `%s` is not obtained from a per-submission counter" % norm(key)
            if isinstance(src, ast.Call):
                for g_ in t.resolve_call(src, submit).repo:
                    incs = [a for a in t.nodes_in(g_, ast.AugAssign) if isinstance(a.op, ast.Add) and isinstance(a.value, ast.Constant)
                            and isinstance(a.value.value, int) and a.value.value > 0 and isinstance(a.target, ast.Attribute)]
                    rets_ = [r for r in t.nodes_in(g_, ast.Return)]
                    fld = norm(incs[0].target) if len(incs) == 1 else None
                    def from_field(v):
                        if v is None:
                            return False
                        if norm(v) == fld:
                            return True
                        if isinstance(v, ast.Name):
                            b2 = [b for k_, b in t.local_bindings(g_, v.id) if k_ == "assign"]
                            return len(b2) == 1 and b2[0][1] is not None and norm(b2[0][1]) == fld
                        return False
                    if fld and rets_ and all(from_field(r.value) for r in rets_):
                        okk = True
                    else:
                        why = "%s does not hand out a counter that it advances by a positive step on every call" % g_.name
            elif isinstance(src, ast.Call) or src is None:
                pass
            if isinstance(src, ast.Call) and any(e in ("uuid.uuid4", "uuid.uuid1", "builtins.id", "itertools.count") for e in t.resolve_call(src, submit).ext):
                okk = True
            if isinstance(key, ast.Call) and any(e in ("builtins.id",) for e in t.resolve_call(key, submit).ext):
                okk = True
            if okk:
                res.ok("C09.C", {"tracking key new per submission": norm(key)})
            else:
                res.fail(Finding("C09.C", submit.qname, n, submit.loc(n), why + ": two accepted tasks can share one key, the second replaces the first in the pending map and flush does not wait for it"))
    # completion callbacks run on the worker (or on the submitting thread when the task already finished): the
    # executor shields them from Exception only - anything else kills the pool worker / reaches the application
    ncb = 0
    for f in p.functions.values():
        if not f.module.name.startswith("deep.task"):
            continue
        for c in t.calls_in(f):
            if isinstance(c.func, ast.Attribute) and c.func.attr == "add_done_callback" and c.args:
                cb_e = c.args[0]
                if isinstance(cb_e, ast.Call) and norm(cb_e.func).rsplit(".", 1)[-1] == "partial" and cb_e.args:
                    cb_e = cb_e.args[0]          # functools.partial(callback, <bound arguments>)
                for tt in t.type_of(cb_e, f):
                    if tt[0] in ("bound", "func") and tt[1] in p.functions:
                        cb = p.functions[tt[1]]
                        ncb += 1
                        # a finished task takes *its own* entry out of the pending map: the key is the id this submission was
                        # registered under (a local of the submission / an argument bound to the callback), not the handler's
                        # running counter - which by then is the id of a later, still running task
                        for n_ in t.nodes_in(cb):
                            key_ = None
                            if isinstance(n_, ast.Delete):
                                for tg_ in n_.targets:
                                    if isinstance(tg_, ast.Subscript) and "_pending" in norm(tg_.value):
                                        key_ = tg_.slice
                            elif isinstance(n_, ast.Call) and isinstance(n_.func, ast.Attribute) and n_.func.attr == "pop" and "_pending" in norm(n_.func.value) and n_.args:
                                key_ = n_.args[0]
                            if key_ is None:
                                continue
                            if isinstance(key_, ast.Name):
                                res.ok("C09.C", {"finished task removes its own entry": norm(key_)})
                            else:
                                res.fail(Finding("C09.C", cb.qname, n_, cb.loc(n_), "the finished task removes the entry `%s` from the pending map, not the one it was registered under: when a "
                                                 "later task has been accepted meanwhile that one's entry goes, and flush no longer waits for it" % norm(key_)[:40]))
                        bad = {tok: ch for tok, ch in g.escape_tokens(cb).items() if tok in ("BaseException",)}
                        if not bad:
                            res.ok("C09.C", {"completion callback lets no BaseException escape": cb.qname})
                        for s_, e_ in g.unguarded_sites(cb):
                            for tok, ch in sorted(e_.items()):
                                if tok == "BaseException":
                                    res.fail(Finding("C09.C", cb.qname, s_.node, cb.loc(s_.node),
                                                     "the completion callback re-raises the task's outcome: a task failing with a BaseException "
                                                     "(SystemExit, CancelledError, GeneratorExit) kills the pool worker for good - later snapshots are "
                                                     "accepted but never sent", path=g.fmt_chain(ch)))
    res.floor("task completion callbacks", ncb, 1)

    # ---------------- F: a failing send leaves nothing behind that later sends use
    n_st = 0
    for f in reachable(ctx, push_task):
        if f.name == "__init__" or f.cls is None:
            continue
        for n in t.nodes_in(f, (ast.Assign, ast.AugAssign)):
            tgts = n.targets if isinstance(n, ast.Assign) else [n.target]
            if not any(isinstance(x, ast.Attribute) and isinstance(x.value, ast.Name) and x.value.id == f.params[0] for x in tgts if f.params):
                continue
            n_st += 1
            if any(isinstance(a_, ast.ExceptHandler) for a_ in p.ancestors(n, stop=f.node)):
                res.fail(Finding("C09.F", f.qname, n, f.loc(n), "a handler stores a stand-in value into state kept between sends (`%s`): after one failing send every later "
                                 "snapshot is sent with the stand-in (e.g. without credentials) although the cause has gone" % norm(n)[:60]))
                continue
            after = [(s_, e_) for s_, e_ in g.unguarded_sites(f) if not paths.within(p, s_.node, n) and paths.dominates(p, n, s_.node, f)]
            if after:
                s_, e_ = after[0]
                res.fail(Finding("C09.F", f.qname, n, f.loc(n), "state kept between sends is stored before the step that fills it has succeeded (`%s` can still "
                                 "fail): one failed send leaves a half-built value that every later snapshot is sent with" % norm(s_.node)[:60],
                                 path=g.fmt_chain(sorted(e_.items())[0][1])))
            else:
                res.ok("C09.F", {"stored last": norm(n)[:70], "in": f.qname})
    res.analysed["stores to shared objects on the send path"] = n_st

    # ---------------- D
    checks = []
    for c in t.calls_in(submit):
        for f in t.resolve_call(c, submit).repo:
            raises = [n for n in t.nodes_in(f, ast.Raise) if n.exc is not None]
            for r in raises:
                if any("_open" in norm(tt) for tt, pol in paths.conditions(p, r, f)):
                    checks.append(c)
    inline = [n for n in t.nodes_in(submit, ast.Raise) if any("_open" in norm(tt) for tt, _ in paths.conditions(p, n, submit))]
    gate = checks + inline
    if gate and pool_submits and all(paths.dominates(p, gate[0], ps, submit) for ps in pool_submits) \
            and g.catching_try(gate[0], submit, "BaseException") is None:
        res.ok("C09.D", {"open check": norm(gate[0]), "dominates": norm(pool_submits[0])})
    else:
        res.fail(Finding("C09.D", submit.qname, "<check open before pool.submit>", submit.loc(),
                         "work submitted after close is not refused (no raising open-check dominating pool.submit)"))

    # the refusal is visible to whoever hands work over: it leaves push_snapshot (nobody on the way swallows it)
    refusal = [tok for tok in g.escape_tokens(submit) if tok.endswith("IllegalStateException")]
    if refusal:
        for c in calls_to(ctx, push, TH + ".submit_task"):
            ct_ = g.catching_try(c, push, refusal[0])
            if ct_ is not None and not g.reraises(ct_[1]):
                res.fail(Finding("C09.D", push.qname, c, push.loc(c), "the refusal of a closed handler (%s) is caught where the snapshot is handed over: work offered after closing "
                                 "is dropped silently instead of being refused visibly" % refusal[0].rsplit(".", 1)[-1]))
            else:
                res.ok("C09.D", {"refusal leaves push_snapshot": push.loc(c)})
    else:
        res.fail(Finding("C09.D", submit.qname, "<raise IllegalStateException>", submit.loc(), "submit_task raises no refusal of its own"))

    # ---------------- E
    th = p.cls(TH)
    n_rmw = 0
    for lst in th.methods.values():
        for f in lst:
            for n in t.nodes_in(f, ast.AugAssign):
                if isinstance(n.target, ast.Attribute) and norm(n.target.value) == "self":
                    n_rmw += 1
                    locked = any(isinstance(a, ast.With) and any("_lock" in norm(i.context_expr) for i in a.items)
                                 for a in p.ancestors(n, stop=f.node))
                    if locked:
                        res.ok("C09.E", {"rmw": norm(n), "at": f.loc(n)})
                    else:
                        res.fail(Finding("C09.E", f.qname, n, f.loc(n),
                                         "unlocked read-modify-write of handler state: two submitting threads can obtain "
                                         "the same job id and overwrite each other's pending future (flush misses one)"))
    res.floor("read-modify-write sites in TaskHandler", n_rmw, 1)
    # what a critical section worked out is used as it was worked out: a field assigned under the lock is not read again
    # outside of it (the id of a job is the value its own increment produced, not what the counter holds a moment later)
    from .common import guarded_field_escapes, lock_leaks
    gfields, esc = guarded_field_escapes(ctx, th)
    for m_, n_, f_ in esc:
        res.fail(Finding("C09.E", m_.qname, n_, m_.loc(n_), "`self.%s` is assigned inside the handler's critical section and %s again outside of it: two threads "
                         "submitting together get the same job id, one pending future overwrites the other and flush() misses an accepted task" % (
                             f_, "written" if isinstance(n_.ctx, (ast.Store, ast.Del)) else "read")))
    if not esc:
        res.ok("C09.E", {"fields assigned under the lock are only used under it": gfields})
    # a lock taken on the way of a snapshot to the service is given back whatever happens (one failing send must not
    # block every later one)
    pipeline = [f for f in p.functions.values() if f.module.name.startswith(("deep.task", "deep.push", "deep.grpc"))]
    leaks = lock_leaks(ctx, pipeline)
    for f_, c_, why in leaks:
        res.fail(Finding("C09.F", f_.qname, c_, f_.loc(c_), "`%s` is %s: every later snapshot task (and the poll) blocks behind one failed send" % (norm(c_), why)))
    if not leaks:
        res.ok("C09.F", {"no explicit lock acquisition without a guaranteed release on the send path": len(pipeline)})
    # what a handler keeps track of is its own: the pending map, the job counter and the open flag are instance state (a map on the
    # class is one map for every handler in the process - two agents, or a restarted one, overwrite and delete one another's jobs)
    from .common import process_wide_writes
    pw = process_wide_writes(ctx, pipeline)
    for f_, n_, what_ in pw[:3]:
        res.fail(Finding("C09.E", f_.qname, n_, f_.loc(n_), "`%s` writes the handler's bookkeeping into %s, shared by every handler of the process: jobs of two handlers with the same "
                         "number overwrite each other, and flush() of one returns while its task is still running" % (norm(n_)[:60], what_)))
    if not pw:
        res.ok("C09.E", {"delivery bookkeeping is per handler (no class-level / module-level container written)": len(pipeline)})
    # one task handler: the one the push service was given is the one shutdown flushes. A component of the agent that was
    # handed to another component when the agent was put together is not replaced later (the other keeps the old one)
    dcls = p.cls("deep.api.deep.Deep")
    dinit = dcls.lookup("__init__")
    shared_fields = set()
    for c_ in t.calls_in(dinit):
        if not t.resolve_call(c_, dinit).ctor and not (isinstance(c_.func, ast.Attribute) and c_.func.attr.startswith("set_")):
            continue
        for a_ in list(c_.args) + [k_.value for k_ in c_.keywords]:
            if isinstance(a_, ast.Attribute) and isinstance(a_.value, ast.Name) and a_.value.id == "self":
                shared_fields.add(a_.attr)
    nshared = 0
    for fld in sorted(shared_fields):
        late = [(sf, v_) for sf, v_, _ in t.field_stores(dcls, fld) if sf.name != "__init__"]
        nshared += 1
        if late:
            sf, v_ = late[0]
            res.fail(Finding("C09.D", sf.qname, paths.stmt_of(p, v_) if v_ is not None else fld, sf.loc(v_) if v_ is not None else sf.loc(), "`self.%s` is given a new object in %s, after it was handed to "
                             "other components in the constructor: they keep the first one (the push service submits to a task handler that shutdown no longer flushes or closes)" % (fld, sf.name)))
        else:
            res.ok("C09.D", {"component handed to others is never replaced": fld})
    res.floor("components shared at construction", nshared, 2)
    from .common import borrow
    borrow(ctx, res, tier, "c14", ("C14.D",), "C09.D", "closing is part of every shutdown: the handler is flushed - and with that closed - whether or not something is pending")
    return res
