"""Helpers shared by the property modules."""
import ast
from typing import List, Tuple

from ..index import AnalysisError, FuncInfo, norm
from ..report import Ctx, Finding, Result  # noqa: F401

TRUSTED_LOGGING = "deep.logging.{debug,info,warning,error,exception} and stdlib logging.* never raise " \
                  "(logging swallows handler/format errors)"


def settrace_entries(ctx: Ctx) -> List[Tuple[FuncInfo, FuncInfo, ast.Call]]:
    """(entry function, installer function, install call) for every function object passed to
    sys.settrace / threading.settrace."""
    out = []
    for fi in ctx.prog.functions.values():
        for call in ctx.types.calls_in(fi):
            tg = ctx.types.resolve_call(call, fi)
            if not any(e in ("sys.settrace", "threading.settrace") for e in tg.ext):
                continue
            if not call.args:
                continue
            for t in ctx.types.type_of(call.args[0], fi):
                if t[0] in ("bound", "func"):
                    f = ctx.prog.functions.get(t[1])
                    if f is not None:
                        out.append((f, fi, call))
    return out


def calls_named(ctx: Ctx, fi: FuncInfo, pred) -> List[ast.Call]:
    """Call nodes in fi whose resolved targets satisfy pred(CallTargets, call)."""
    return [c for c in ctx.types.calls_in(fi) if pred(ctx.types.resolve_call(c, fi), c)]


def targets_qnames(ctx: Ctx, call: ast.Call, fi: FuncInfo) -> List[str]:
    tg = ctx.types.resolve_call(call, fi)
    return [f.qname for f in tg.repo] + [c.qname for c in tg.ctor] + list(tg.ext)


def need(cond, msg):
    if not cond:
        raise AnalysisError(msg)
