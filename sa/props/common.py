"""Helpers shared by the property modules."""
import ast
from typing import List, Tuple

from ..index import AnalysisError, FuncInfo, norm
from ..report import Ctx, Finding, Result  # noqa: F401

TRUSTED_LOGGING = "deep.logging.{debug,info,warning,error,exception} and stdlib logging.* never raise " \
                  "(logging swallows handler/format errors)"


def settrace_entries(ctx: Ctx) -> List[Tuple[FuncInfo, FuncInfo, ast.Call]]:
    """(entry function, installer function, install call) for every function object passed to
    sys.settrace / threading.settrace."""
    out = []
    for fi in ctx.prog.functions.values():
        for call in ctx.types.calls_in(fi):
            tg = ctx.types.resolve_call(call, fi)
            if not any(e in ("sys.settrace", "threading.settrace") for e in tg.ext):
                continue
            if not call.args:
                continue
            for t in ctx.types.type_of(call.args[0], fi):
                if t[0] in ("bound", "func"):
                    f = ctx.prog.functions.get(t[1])
                    if f is not None:
                        out.append((f, fi, call))
    return out


def calls_named(ctx: Ctx, fi: FuncInfo, pred) -> List[ast.Call]:
    """Call nodes in fi whose resolved targets satisfy pred(CallTargets, call)."""
    return [c for c in ctx.types.calls_in(fi) if pred(ctx.types.resolve_call(c, fi), c)]


def targets_qnames(ctx: Ctx, call: ast.Call, fi: FuncInfo) -> List[str]:
    tg = ctx.types.resolve_call(call, fi)
    return [f.qname for f in tg.repo] + [c.qname for c in tg.ctor] + list(tg.ext)


def need(cond, msg):
    if not cond:
        raise AnalysisError(msg)


def term(ctx: Ctx, fi: FuncInfo, src: str) -> str:
    """Canonical (origin-expanded) text of the expression `src` evaluated in the context of fi."""
    e = ast.parse(src, mode="eval").body
    # give the synthetic nodes a parent chain / owner so that type inference treats them as part of fi
    ctx._extra.setdefault("keepalive", []).append(e)   # ids are used as keys: never let them be reused
    for n in ast.walk(e):
        ctx.prog.owner[id(n)] = fi
    alts = ctx.expand.expand(e, fi)
    need(len(alts) == 1, "term `%s` in %s has %d expansions %s" % (src, fi.qname, len(alts), alts[:3]))
    return alts[0]



def call_arg(call: ast.Call, callee: FuncInfo, i: int):
    """The expression passed for positional parameter i of callee (0 = self for methods) at this call - given by position
    or by keyword; None when it is not given (or given through */**)."""
    off = 1 if callee.cls is not None and not getattr(callee, "is_static", False) else 0
    if any(isinstance(a, ast.Starred) for a in call.args):
        return None
    k = i - off
    if 0 <= k < len(call.args):
        return call.args[k]
    if i < len(callee.params):
        for kw in call.keywords:
            if kw.arg == callee.params[i]:
                return kw.value
    return None

def P(fi: FuncInfo, i: int) -> str:
    """Canonical text of positional parameter i of fi (0 = self for methods)."""
    need(i < len(fi.params), "%s has no positional parameter %d" % (fi.qname, i))
    return "@" + fi.params[i]


def trace_worker(ctx: Ctx):
    """(worker function, {role: param name}) - the function holding the body of the settrace callback, with
    the parameters that carry CPython's (frame, event, arg) after following pure delegation."""
    entries = settrace_entries(ctx)
    need(entries, "no settrace entry point")
    entry = entries[0][0]
    params = entry.params
    off = 1 if entry.cls is not None and not entry.is_static else 0
    need(len(params) >= off + 3, "trace callback %s does not take (frame, event, arg)" % entry.qname)
    roles = {"frame": params[off], "event": params[off + 1], "arg": params[off + 2]}
    f = entry
    for _ in range(4):
        # delegation: a single `return <call to repo function>` (possibly inside try) forwarding the roles
        rets = [n for n in ctx.types.nodes_in(f, ast.Return) if isinstance(n.value, ast.Call)
                and ctx.types.resolve_call(n.value, f).repo and not ctx.types.resolve_call(n.value, f).ext]
        others = [c for c in ctx.types.calls_in(f) if not any(c is r.value for r in rets)
                  and any(g.qname not in ctx.guards.trusted_repo for g in ctx.types.resolve_call(c, f).repo)]
        if len(rets) != 1 or others:
            break
        call = rets[0].value
        g = ctx.types.resolve_call(call, f).repo[0]
        bound = ctx.types.bind_args(g, call)
        new_roles = {}
        for pname, arg in bound.items():
            if isinstance(arg, ast.Name):
                for role, rp in roles.items():
                    if arg.id == rp:
                        new_roles[role] = pname
        if set(new_roles) != {"frame", "event", "arg"}:
            break
        f, roles = g, new_roles
    return f, roles


LA = "deep.api.tracepoint.trigger.LocationAction"


def literal_key(ctx: Ctx, fi: FuncInfo, e: ast.expr):
    alts = ctx.expand.expand_nodes(e, fi)
    if len(alts) == 1 and isinstance(alts[0], ast.Constant) and isinstance(alts[0].value, str):
        return alts[0].value
    return None


def action_config_writers(ctx: Ctx):
    """{builder function qname: (FuncInfo, ctor call, {key: value expr})} for every LocationAction(...) construction."""
    out = {}
    la = ctx.prog.cls(LA)
    init = la.lookup("__init__")
    for fi in ctx.prog.functions.values():
        for call in ctx.types.calls_in(fi):
            tg = ctx.types.resolve_call(call, fi)
            if la not in tg.ctor:
                continue
            cfg = ctx.types.bind_args(init, call).get("config")
            if cfg is None and len(call.args) >= 3:
                cfg = call.args[2]
            keys = {}
            extra_stores = []
            hops = 0
            while isinstance(cfg, ast.Name) and hops < 4:
                # config = {...}; config[KEY] = value ... ; LocationAction(..., config, ...) - also through a plain alias
                # (`value = config`) and a copy (`config2 = dict(config)`), whose later stores add to the same keys
                hops += 1
                binds = [b for k, b in ctx.types.local_bindings(fi, cfg.id) if k == "assign"]
                for n in ctx.types.nodes_in(fi, ast.Assign):
                    for tg in n.targets:
                        if isinstance(tg, ast.Subscript) and isinstance(tg.value, ast.Name) and tg.value.id == cfg.id:
                            extra_stores.append((tg.slice, n.value))
                if len(binds) != 1 or len(ctx.types.local_bindings(fi, cfg.id)) != 1:
                    break
                v_ = binds[0][1]
                if isinstance(v_, ast.Call) and isinstance(v_.func, ast.Name) and v_.func.id == "dict" and len(v_.args) == 1 and not v_.keywords:
                    v_ = v_.args[0]
                elif isinstance(v_, ast.Call) and isinstance(v_.func, ast.Attribute) and v_.func.attr == "copy" and not v_.args:
                    v_ = v_.func.value
                if isinstance(v_, (ast.Dict, ast.Name)):
                    cfg = v_
                else:
                    break
            if isinstance(cfg, ast.Dict):
                for k, v in list(zip(cfg.keys, cfg.values)) + extra_stores:
                    if k is None:
                        keys["**"] = v
                        continue
                    lk = literal_key(ctx, fi, k)
                    keys[lk if lk is not None else "<dynamic:%s>" % norm(k)] = v
            else:
                keys["<non-literal config>"] = cfg
            out.setdefault(fi.qname, []).append((fi, call, keys))
    return out


def action_config_reads(ctx: Ctx):
    """[(function, key, node)] for every read of a key from a LocationAction's config mapping."""
    out = []
    la = ctx.prog.cls(LA)
    cfg_field = la.mangle("__config")
    for fi in ctx.prog.functions.values():
        for n in ctx.types.nodes_in(fi):
            base = key = None
            if isinstance(n, ast.Call) and isinstance(n.func, ast.Attribute) and n.func.attr == "get" and n.args:
                base, key = n.func.value, n.args[0]
            elif isinstance(n, ast.Subscript) and isinstance(n.ctx, ast.Load):
                base, key = n.value, n.slice
            elif isinstance(n, ast.Compare) and len(n.ops) == 1 and isinstance(n.ops[0], (ast.In, ast.NotIn)):
                base, key = n.comparators[0], n.left
            if base is None:
                continue
            texts = ctx.expand.expand(base, fi)
            if not any(t.endswith("." + cfg_field) for t in texts):
                continue
            # the receiver must be a LocationAction (the class-mangled field name already says so)
            if not cfg_field.startswith("_" + la.name) and not any(x[0] == "inst" and x[1] == LA for x in ctx.types.type_of(base.value if isinstance(base, ast.Attribute) else base, fi)) \
                    and not (fi.cls is la):
                continue
            lk = literal_key(ctx, fi, key)
            out.append((fi, lk if lk is not None else "<dynamic:%s>" % norm(key), n))
    return out


def fmt_parts(e: ast.expr):
    """('template with {} holes', [argument texts]) for `'a %s b' % x`, `'..' % (x, y)` and f-strings; else None."""
    if isinstance(e, ast.BinOp) and isinstance(e.op, ast.Mod) and isinstance(e.left, ast.Constant) and isinstance(e.left.value, str):
        args = list(e.right.elts) if isinstance(e.right, ast.Tuple) else [e.right]
        tmpl = e.left.value.replace("%s", "{}").replace("%r", "{!r}").replace("%d", "{}")
        return tmpl, [norm(a) for a in args]
    if isinstance(e, ast.BinOp) and isinstance(e.op, ast.Add) and isinstance(e.left, ast.Constant) and isinstance(e.left.value, str) \
            and not isinstance(e.right, ast.Constant):
        # 'prefix' + x is the one-hole template 'prefix{}'
        return e.left.value.replace("{", "{{").replace("}", "}}") + "{}", [norm(e.right)]
    if isinstance(e, ast.JoinedStr):
        tmpl, args = "", []
        for v in e.values:
            if isinstance(v, ast.FormattedValue):
                tmpl += "{!r}" if v.conversion == 114 else "{}"
                args.append(norm(v.value))
            elif isinstance(v, ast.Constant):
                tmpl += str(v.value)
        return tmpl, args
    if isinstance(e, ast.Constant) and isinstance(e.value, str):
        return e.value, []
    return None


def expand_through(ctx: Ctx, expr: ast.expr, helper: FuncInfo, caller: FuncInfo, call: ast.Call):
    """Expansions of `expr` (a node of `helper`) with the helper's parameters replaced by what `caller` passes at `call`."""
    if helper is caller or call is None:
        return ctx.expand.expand(expr, helper)
    bound = ctx.types.bind_args(helper, call)
    out = []
    for x in ctx.expand.expand(expr, helper):
        done = False
        for pname, arg in bound.items():
            tok = "@" + pname
            if x == tok or x.startswith(tok + ".") or x.startswith(tok + "[") or (tok + ".") in x or (tok + ")") in x or (tok + ",") in x:
                for y in ctx.expand.expand(arg, caller):
                    out.append(x.replace(tok, y))
                done = True
                break
        if not done:
            out.append(x)
    return out


_MUTATORS = {"pop", "popitem", "clear", "update", "setdefault", "__setitem__", "__delitem__", "append", "extend", "insert",
             "remove", "sort", "reverse", "add", "discard"}


def param_mutations(ctx: Ctx, fi: FuncInfo, pname: str, depth: int = 2, seen=None):
    """[(function, node)] operations that modify the object passed as parameter `pname` of `fi`: mutating method
    calls, item stores / deletes, augmented item assignment - in fi and in repo functions it hands the object to."""
    seen = seen if seen is not None else set()
    key = (ctx.types.fkey(fi), pname)
    if key in seen:
        return []
    seen.add(key)
    out = []
    elem_vars = {lp.target.id for lp in ctx.types.nodes_in(fi, (ast.For, ast.comprehension)) if isinstance(lp.target, ast.Name)
                 and isinstance(lp.iter, ast.Name) and lp.iter.id == pname}
    # other names of the same object: `config = args` (the only binding of that name)
    names = {pname}
    for n in ctx.types.nodes_in(fi, ast.Assign):
        if isinstance(n.value, ast.Name) and n.value.id == pname and len(n.targets) == 1 and isinstance(n.targets[0], ast.Name) \
                and len(ctx.types.local_bindings(fi, n.targets[0].id)) == 1:
            names.add(n.targets[0].id)
    for n in ctx.types.nodes_in(fi):
        if isinstance(n, ast.Call) and isinstance(n.func, ast.Attribute) and isinstance(n.func.value, ast.Name) \
                and n.func.value.id in names and n.func.attr in _MUTATORS:
            out.append((fi, n))
        elif isinstance(n, ast.Subscript) and isinstance(n.ctx, (ast.Store, ast.Del)) and isinstance(n.value, ast.Name) and n.value.id in names:
            out.append((fi, n))
        elif isinstance(n, ast.Attribute) and isinstance(n.ctx, (ast.Store, ast.Del)) and isinstance(n.value, ast.Name) and \
                (n.value.id == pname and pname not in ("self", "cls") or n.value.id in elem_vars):
            # a field of the object itself, or of one of its elements (for x in <param>: x.field = ...)
            out.append((fi, n))
        elif isinstance(n, ast.Call) and depth > 0:
            tg = ctx.types.resolve_call(n, fi)
            if tg.by_name:
                continue
            for g in tg.repo:
                for gp, arg in ctx.types.bind_args(g, n).items():
                    if isinstance(arg, ast.Name) and arg.id in names:
                        out += param_mutations(ctx, g, gp, depth - 1, seen)
    # an unconditional rebinding of the name (args = dict(args)) makes later operations act on a private copy; a
    # conditional one (if args is None: args = {}) leaves the caller's object in place on the other path
    from .. import paths as _paths
    first_copy = None
    for k, b in ctx.types.local_bindings(fi, pname):
        if k == "param":
            continue
        node = b[1] if isinstance(b, tuple) else b
        st = _paths.stmt_of(ctx.prog, node) if isinstance(node, ast.AST) else None
        if st is None:
            return []
        if not _paths.conditions(ctx.prog, st, fi) and not _paths.enclosing_loops(ctx.prog, st, fi):
            first_copy = st.lineno if first_copy is None else min(first_copy, st.lineno)
    if first_copy is not None:
        out = [(f_, n_) for f_, n_ in out if f_ is fi and n_.lineno < first_copy]
    return out




def is_attach_call(ctx: Ctx, call, fi) -> bool:
    """`call` hands a result over to the trigger context: `...attach_result(x)`, or a call of a method of the repository
    that does nothing but forward its argument to it (`def _attach_result(self, r): self.trigger_context.attach_result(r)`)."""
    if not isinstance(call, ast.Call) or not isinstance(call.func, ast.Attribute):
        return False
    if call.func.attr == "attach_result":
        return True
    for g in ctx.types.resolve_call(call, fi).repo:
        body = [st for st in g.node.body if not (isinstance(st, ast.Expr) and isinstance(st.value, ast.Constant))]
        if len(body) == 1 and isinstance(body[0], (ast.Expr, ast.Return)) and isinstance(body[0].value, ast.Call):
            inner = body[0].value
            if isinstance(inner.func, ast.Attribute) and inner.func.attr == "attach_result" and len(inner.args) == 1 and isinstance(inner.args[0], ast.Name) \
                    and inner.args[0].id in g.params:
                return True
    return False


def mutated_while_walked(ctx: Ctx, funcs):
    """[(function, loop, call)] a `for x in COLL:` loop whose body adds to / removes from COLL itself (same text or same origin):
    removing the current element makes the iterator skip the next one, adding makes it run on."""
    t = ctx.types
    out = []
    for fi in funcs:
        for lp in t.nodes_in(fi, ast.For):
            it_txt = norm(lp.iter)
            if isinstance(lp.iter, ast.Call):
                continue            # list(x) / tuple(x) / x.copy() / sorted(x): a copy is walked
            it_ex = set(ctx.expand.expand(lp.iter, fi))
            for c in [n for n in ast.walk(lp) if isinstance(n, ast.Call) and isinstance(n.func, ast.Attribute) and n.func.attr in ("remove", "pop", "append", "insert", "clear", "extend", "add", "discard", "popitem")]:
                if norm(c.func.value) == it_txt or (it_ex & set(ctx.expand.expand(c.func.value, fi))):
                    out.append((fi, lp, c))
            for d in [n for n in ast.walk(lp) if isinstance(n, ast.Delete)]:
                for tg in d.targets:
                    if isinstance(tg, ast.Subscript) and norm(tg.value) == it_txt:
                        out.append((fi, lp, d))
    return out

def lost_updates(ctx: Ctx, funcs):
    """[(function, call, property)] in-place changes made to a value that a property just built for the caller (`return
    list(self._x)`, `[.. for ..]`, `self._x.copy()`): the change lands on the throw-away copy, the object keeps what it had."""
    t = ctx.types
    out = []

    def fresh(e):
        if isinstance(e, (ast.List, ast.Dict, ast.Set, ast.ListComp, ast.DictComp, ast.SetComp, ast.Tuple)):
            return True
        if isinstance(e, ast.Call):
            f = norm(e.func)
            if f in ("list", "dict", "set", "tuple", "sorted", "frozenset", "copy.copy", "copy.deepcopy"):
                return True
            if isinstance(e.func, ast.Attribute) and e.func.attr == "copy" and not e.args:
                return True
        if isinstance(e, ast.BinOp) and isinstance(e.op, ast.Add):
            return fresh(e.left) or fresh(e.right)
        return False
    for fi in funcs:
        for c in t.calls_in(fi):
            if not (isinstance(c.func, ast.Attribute) and c.func.attr in _MUTATORS and isinstance(c.func.value, ast.Attribute)):
                continue
            for g in t.property_targets(c.func.value, fi):
                rets = [r for r in t.nodes_in(g, ast.Return) if r.value is not None]
                if rets and all(fresh(r.value) for r in rets):
                    out.append((fi, c, g))
    return out

def borrow(ctx: Ctx, res: Result, tier: str, module_name: str, rules, as_rule: str, text: str):
    """Run the check of another property and take over the obligations / findings of some of its rules under `as_rule`
    (a clause of this property that rests on the same mechanism). Findings the other check established before an
    anchor vanished are kept; a plain analysis error propagates."""
    import importlib
    from .. import report as _report
    res.rule(as_rule, text)
    mod = importlib.import_module("sa.props." + module_name)
    pid = module_name.upper()
    memo = ctx._extra.setdefault("borrowed", {})
    stack = ctx._extra.setdefault("borrow_stack", [])
    if res.pid not in stack:
        # the borrower is being run (as the property asked for, or called directly by another check): it is on the chain
        stack.append(res.pid)
    if pid in stack:
        # mutual borrowing (A rests on B, B on A): the rules asked for are B's own, they do not depend on what B borrows
        ctx._extra["borrow_cut"] = True
        return
    sub = memo.get(pid) or memo.get(pid + ":partial")
    if sub is None:
        depth0 = len(stack)
        stack.append(pid)
        cut_before = ctx._extra.get("borrow_cut", False)
        ctx._extra["borrow_cut"] = False
        try:
            from . import run_property
            sub = run_property(ctx, pid, tier)
        except AnalysisError:
            sub = _report.CURRENT
            if sub is None or sub.pid != pid or not [f for f in sub.findings if f.rule in rules]:
                _report.CURRENT = res
                raise
        finally:
            del stack[depth0:]
            was_cut = ctx._extra.get("borrow_cut", False)
            ctx._extra["borrow_cut"] = cut_before or was_cut
        # a result computed while one of its own borrowings was cut is good for its own rules only: never reuse it as
        # the full result of that property
        memo[pid + ":partial" if was_cut else pid] = sub
    if sub is None:
        sub = memo.get(pid + ":partial")
    _report.CURRENT = res
    for rid in rules:
        r_ = sub.rules.get(rid, {"obligations": 0, "discharged": 0})
        for _ in range(r_["discharged"]):
            res.ok(as_rule)
    for f_ in sub.findings:
        if f_.rule in rules:
            res.fail(Finding(as_rule, f_.func, f_.construct, f_.loc, "[%s] %s" % (f_.rule, f_.msg), f_.path))


def _toks(name: str):
    return {x for x in name.lower().strip("_").split("_") if x and x not in ("str", "is", "the")}


def dataclass_rule(ctx: Ctx, res: Result, rid: str, class_qnames, as_given=()):
    """Plain data carriers (what the collector fills and the wire converter reads): every read-only property hands out
    the field of the same meaning, and the constructor stores each parameter under the field of the same meaning.
    Names are compared as sets of `_`-separated words (ts_nanos ~ _ts_nanos, is_async ~ _async, id ~ tp_id)."""
    p, t = ctx.prog, ctx.types
    n_get = n_store = 0
    for qn in class_qnames:
        c = p.cls(qn)
        init = c.lookup("__init__")
        for name, lst in sorted(c.methods.items()):
            for g_ in lst:
                if not g_.is_property or g_.is_abstract or g_.is_setter:
                    continue
                n_get += 1
                rets = [r for r in t.nodes_in(g_, ast.Return) if r.value is not None]
                fields = []
                for r in rets:
                    for n in ast.walk(r.value):
                        if isinstance(n, ast.Attribute) and isinstance(n.value, ast.Name) and n.value.id == (g_.params[0] if g_.params else "self"):
                            fields.append(n.attr)
                if not fields:
                    res.fail(Finding(rid, g_.qname, rets[0] if rets else "<return>", g_.loc(), "the property %s.%s does not hand out any stored field (returns %s): every reader, "
                                     "including the wire conversion, gets a constant" % (c.name, name, [norm(r.value) for r in rets] or "nothing")))
                    continue
                bad = [f for f in fields if not (_toks(f.split("__")[-1] if f.startswith("_" + c.name) else f) & _toks(name))
                       and not c.lookup(f)]
                if bad:
                    res.fail(Finding(rid, g_.qname, rets[0], g_.loc(rets[0]), "the property %s.%s hands out the field `%s`" % (c.name, name, bad[0])))
                else:
                    res.ok(rid, {"%s.%s" % (c.name, name): sorted(set(fields))})
        if init is None:
            continue
        for (cq, attr), lst_ in sorted(t._attr_store_index().items()):
            if cq != c.qname:
                continue
            for sf, v, _ in lst_:
                if sf is init and v is not None and not isinstance(v, ast.Name) and (_toks(attr.split("__")[-1]) & set(as_given)):
                    # the parameter of the same meaning passed through a function before it is stored: the carrier does not
                    # keep what it was given (a text cut to its bound and then escaped is longer than the bound again)
                    fld_ = attr.split("__")[-1] if attr.startswith("_" + c.name) else attr
                    ps_ = [n.id for n in ast.walk(v) if isinstance(n, ast.Name) and n.id in init.params and (_toks(fld_) & _toks(n.id))]
                    calls_ = [n for n in ast.walk(v) if isinstance(n, ast.Call)]
                    if ps_ and calls_ and not isinstance(v, (ast.BoolOp, ast.IfExp)):
                        res.fail(Finding(rid, init.qname, v, init.loc(v), "%s.%s is not stored as given but as `%s`: what readers (and the wire) get is not what the producer "
                                         "handed over - a text that was cut to its bound and marked is changed after the cut" % (c.name, attr, norm(v)[:60])))
                    continue
                if sf is not init or not isinstance(v, ast.Name) or v.id not in init.params:
                    continue
                n_store += 1
                fld = attr.split("__")[-1] if attr.startswith("_" + c.name) else attr
                if _toks(fld) & _toks(v.id):
                    res.ok(rid)
                else:
                    res.fail(Finding(rid, init.qname, ctx.prog.parent_of(v) if False else v, init.loc(v), "%s.%s is stored from the constructor parameter `%s`" % (c.name, attr, v.id)))
    res.analysed["data-carrier getters / constructor stores checked"] = "%d / %d" % (n_get, n_store)


def identity_cache_field(ctx: Ctx) -> str:
    """Mangled name of the mapping field of VariableCacheProvider (identity -> id): the field its constructor sets to a
    fresh dict; found by role, not by name."""
    c = ctx.prog.cls("deep.processor.variable_set_processor.VariableCacheProvider")
    init = c.lookup("__init__")
    out = []
    for (cq, attr), lst in sorted(ctx.types._attr_store_index().items()):
        if cq != c.qname:
            continue
        for sf, v, _ in lst:
            if sf is init and (isinstance(v, ast.Dict) and not v.keys or (isinstance(v, ast.Call) and norm(v.func) in ("dict", "OrderedDict") and not v.args)):
                out.append(attr)
    need(len(set(out)) == 1, "VariableCacheProvider: expected one mapping field created in the constructor, found %s" % sorted(set(out)))
    return out[0]


def _flat_targets(n):
    tg = list(n.targets) if isinstance(n, (ast.Assign, ast.Delete)) else [n.target]
    out = []
    while tg:
        x = tg.pop()
        if isinstance(x, (ast.Tuple, ast.List)):
            tg.extend(x.elts)
        elif isinstance(x, ast.Starred):
            tg.append(x.value)
        else:
            out.append(x)
    return out


def process_wide_writes(ctx: Ctx, funcs):
    """[(function, node, what)] writes of `funcs` into state that belongs to the whole process and not to the hit, the
    thread or an object the agent created for it: attributes / items of module-level objects (also through a local
    alias), class-level attributes (`Cls.x = ..`, `cls.x`, `type(self).x`, in-place changes of a container that only
    exists on the class), names declared `global`. Instance fields (`self.x = ..`) are not covered here."""
    p, t = ctx.prog, ctx.types
    out = []

    def root_of(e):
        chain = []
        while isinstance(e, (ast.Attribute, ast.Subscript)):
            chain.append(e.attr if isinstance(e, ast.Attribute) else "[]")
            e = e.value
        return e, list(reversed(chain))

    def classify(base, fi, depth=0):
        """base: the expression whose attribute / item is written. -> description or None"""
        r, chain = root_of(base)
        if isinstance(r, ast.Call) and isinstance(r.func, ast.Name) and r.func.id == "type" and len(r.args) == 1:
            return "the class of `%s`" % norm(r.args[0])
        if not isinstance(r, ast.Name):
            return None
        if chain and chain[0] == "__class__":
            return "the class of `%s`" % r.id
        binds = t.local_bindings(fi, r.id)
        kinds = {k for k, _ in binds}
        if kinds and kinds != {"import"}:
            if "param" in kinds:
                first = fi.params[0] if fi.params else None
                if r.id == first and fi.cls is not None and chain:
                    if r.id == "cls" or any(isinstance(d, ast.Name) and d.id == "classmethod" for d in fi.node.decorator_list):
                        return "class attribute `%s.%s`" % (fi.cls.name, chain[0])
                    # self.attr.<change>: a container that is never given to the instance lives on the class
                    attr = chain[0]
                    mangled = attr if not (attr.startswith("__") and not attr.endswith("__")) else "_%s%s" % (fi.cls.name.lstrip("_"), attr)
                    for c in fi.cls.mro:
                        if attr in c.class_attrs or mangled in c.class_attrs:
                            stores = t.field_stores(fi.cls, attr) or t.field_stores(fi.cls, mangled)
                            v = c.class_attrs.get(attr, c.class_attrs.get(mangled))
                            if not stores and isinstance(v, (ast.Dict, ast.List, ast.Set, ast.Call, ast.DictComp, ast.ListComp)):
                                return "class-level container `%s.%s`" % (c.name, attr)
                return None
            if depth < 3 and len(binds) == 1 and binds[0][0] == "assign":
                v = binds[0][1][1]
                if isinstance(v, (ast.Name, ast.Attribute)):
                    return classify(v, fi, depth + 1)
            return None
        owner = fi
        while owner is not None and owner.parent is not None:
            # a closure variable of the enclosing function is per call, not process wide
            owner = owner.parent
            if t.local_bindings(owner, r.id):
                return None
        rs = p.resolve_name_in_module(fi.module, r.id)
        if rs is None:
            return None
        if rs[0] == "const":
            v = rs[1].consts.get(rs[2])
            if isinstance(v, ast.Constant):
                return None
            return "module-level object `%s`" % r.id
        if rs[0] == "cls":
            return "class `%s`" % rs[1].name
        return None

    def classify_alias(v, fi):
        """v names the object itself (not a place inside it)"""
        holder = ast.Attribute(value=v, attr="_", ctx=ast.Load())
        return classify(holder.value, fi) if not isinstance(v, ast.Name) else classify_name(v, fi)

    def classify_name(nm, fi):
        if t.local_bindings(fi, nm.id):
            return None
        rs = p.resolve_name_in_module(fi.module, nm.id)
        if rs and rs[0] == "const" and isinstance(rs[1].consts.get(rs[2]), (ast.List, ast.Dict, ast.Set, ast.Call, ast.ListComp, ast.DictComp)):
            return "module-level object `%s`" % nm.id
        return None

    for fi in funcs:
        globs = {nm for n in t.nodes_in(fi, ast.Global) for nm in n.names}
        for n in t.nodes_in(fi, (ast.Assign, ast.AugAssign, ast.AnnAssign, ast.Delete)):
            if isinstance(n, ast.AnnAssign) and n.value is None:
                continue
            for x in _flat_targets(n):
                if isinstance(x, ast.Name) and x.id in globs:
                    out.append((fi, n, "global `%s`" % x.id))
                elif isinstance(x, ast.Name) and isinstance(n, ast.AugAssign):
                    # alias = SHARED; alias += [...] changes the shared list in place
                    asg = [b for k, b in t.local_bindings(fi, x.id) if k != "aug"]
                    if len(asg) == 1 and isinstance(asg[0], tuple) and isinstance(asg[0][1], (ast.Name, ast.Attribute)):
                        w = classify_alias(asg[0][1], fi)
                        if w:
                            out.append((fi, n, w))
                elif isinstance(x, (ast.Attribute, ast.Subscript)):
                    w = classify(x.value, fi)
                    if w is None and isinstance(x, ast.Subscript):
                        w = None
                    if w:
                        out.append((fi, n, w))
        for c in t.calls_in(fi):
            if isinstance(c.func, ast.Attribute) and c.func.attr in _MUTATORS:
                w = classify(c.func.value, fi)
                # a mutator on the object itself (X.append) needs X to be process wide; classify() answers for writes
                # *into* its argument, which is what a mutator call is
                if w:
                    out.append((fi, c, w))
    return out


def _is_lock_expr(e) -> bool:
    return "lock" in norm(e).lower() or "mutex" in norm(e).lower()


def lock_leaks(ctx: Ctx, funcs):
    """[(function, acquire call, why)] explicit `<lock>.acquire(...)` whose release is not guaranteed: no `release()`
    of the same lock in a `finally` that covers everything after the acquisition (a `with` block needs no rule)."""
    p, t = ctx.prog, ctx.types
    out = []
    for fi in funcs:
        for c in t.calls_in(fi):
            if not (isinstance(c.func, ast.Attribute) and c.func.attr == "acquire" and _is_lock_expr(c.func.value)):
                continue
            lk = norm(c.func.value)
            rels = [r for r in t.calls_in(fi) if isinstance(r.func, ast.Attribute) and r.func.attr == "release" and norm(r.func.value) == lk]
            if not rels:
                out.append((fi, c, "never released in %s" % fi.name))
                continue
            safe = False
            for tr in t.nodes_in(fi, ast.Try):
                if tr.finalbody and any(r is n for st in tr.finalbody for n in ast.walk(st) for r in rels) and tr.lineno >= c.lineno:
                    # nothing that can fail between the acquisition and the try
                    between = [n for n in t.calls_in(fi) if c.lineno < n.lineno < tr.lineno]
                    if not between:
                        safe = True
            if not safe:
                first = min(rels, key=lambda r: r.lineno)
                risky = [n for n in t.calls_in(fi) if c.lineno < n.lineno < first.lineno or (n.lineno == c.lineno and n is not c and n.col_offset > c.col_offset)]
                if risky or len(rels) > 1 or first.lineno < c.lineno:
                    out.append((fi, c, "released by a plain `%s.release()` and not in a finally: when `%s` fails the lock stays held for ever" % (
                        lk, norm(risky[0])[:50] if risky else "a statement in between")))
    return out


def guarded_field_escapes(ctx: Ctx, cls):
    """[(function, node, field)] accesses, outside any `with <lock>` block, of instance fields that the class assigns
    inside one (constructor excluded): the value seen there is not the one the critical section produced."""
    p, t = ctx.prog, ctx.types
    inside, outside = {}, {}
    for lst in cls.methods.values():
        for m in lst:
            if m.name == "__init__":
                continue
            locked = set()
            for w in t.nodes_in(m, ast.With):
                if any(_is_lock_expr(it.context_expr) for it in w.items):
                    for n in ast.walk(w):
                        locked.add(id(n))
            for n in t.nodes_in(m, ast.Attribute):
                if isinstance(n.value, ast.Name) and n.value.id == "self" and not _is_lock_expr(n):
                    (inside if id(n) in locked else outside).setdefault(n.attr, []).append((m, n))
    out = []
    fields = sorted(f for f, acc in inside.items() if any(isinstance(n.ctx, (ast.Store, ast.Del)) for _, n in acc))
    for f in fields:
        for m, n in outside.get(f, []):
            out.append((m, n, f))
    return fields, out


def stale_memo_fields(ctx: Ctx, cls):
    """[(method that assigns F, node, memo field K, source field F, method that fills K)] - K is filled, outside the
    constructor, with a value worked out from instance field F and consulted before it is worked out again (a memo);
    a method that gives F a new value and leaves K alone makes every later answer the answer for the old F."""
    p, t = ctx.prog, ctx.types
    methods = [m for lst in cls.methods.values() for m in lst]

    def self_field(e):
        return e.attr if isinstance(e, ast.Attribute) and isinstance(e.value, ast.Name) and e.value.id == "self" else None

    out = []
    for m in methods:
        if m.name == "__init__":
            continue
        fills = []      # (K, value expr, node)
        for n in t.nodes_in(m, (ast.Assign, ast.AnnAssign)):
            tgs = n.targets if isinstance(n, ast.Assign) else [n.target]
            for tg in tgs:
                k = self_field(tg) or (self_field(tg.value) if isinstance(tg, ast.Subscript) else None)
                if k and n.value is not None:
                    fills.append((k, n.value, n))
        for c in t.calls_in(m):
            if isinstance(c.func, ast.Attribute) and c.func.attr in ("setdefault", "update", "append", "add") and self_field(c.func.value) and c.args:
                fills.append((self_field(c.func.value), c.args[-1], c))
        for k, v, node in fills:
            # consulted in the same method before it is filled: self.K.get(..) / self.K[..] / `self.K is None` / `in self.K`
            consulted = [a for a in t.nodes_in(m, ast.Attribute) if self_field(a) == k and isinstance(a.ctx, ast.Load) and a.lineno <= node.lineno
                         and not any(a is x for x in ast.walk(node))]
            if not consulted:
                continue
            srcs = set()
            seen_names = set()
            stack = [v]
            while stack:
                e = stack.pop()
                for a in ast.walk(e):
                    f = self_field(a)
                    if f and f != k and isinstance(a.ctx, ast.Load):
                        srcs.add(f)
                    # ... also what a method of the same object reads that the value is worked out with
                    if isinstance(a, ast.Call) and isinstance(a.func, ast.Attribute) and isinstance(a.func.value, ast.Name) and a.func.value.id == "self":
                        for g_ in t.resolve_call(a, m).repo:
                            if g_.cls is not None and any(k_ is g_.cls for k_ in cls.mro):
                                todo_, seen_g = [g_], set()
                                while todo_:
                                    h_ = todo_.pop()
                                    if t.fkey(h_) in seen_g or len(seen_g) > 6:
                                        continue
                                    seen_g.add(t.fkey(h_))
                                    for b_ in t.nodes_in(h_, ast.Attribute):
                                        fb = self_field(b_)
                                        if fb and fb != k and isinstance(b_.ctx, ast.Load):
                                            srcs.add(fb)
                                    for c2 in t.calls_in(h_):
                                        todo_ += [x_ for x_ in t.resolve_call(c2, h_).repo if x_.cls is not None and any(k_ is x_.cls for k_ in cls.mro)]
                    if isinstance(a, ast.Name) and a.id not in seen_names:
                        seen_names.add(a.id)
                        for kind, b in t.local_bindings(m, a.id):
                            if isinstance(b, tuple) and b[1] is not None:
                                stack.append(b[1])
            for f in sorted(srcs):
                for m2 in methods:
                    if m2 is m or m2.name == "__init__":
                        continue
                    assigns = [a for a in t.nodes_in(m2, ast.Attribute) if self_field(a) == f and isinstance(a.ctx, ast.Store)]
                    if not assigns:
                        continue
                    resets = [a for a in t.nodes_in(m2, ast.Attribute) if self_field(a) == k and isinstance(a.ctx, (ast.Store, ast.Del))] + \
                             [c for c in t.calls_in(m2) if isinstance(c.func, ast.Attribute) and c.func.attr in ("clear", "pop", "popitem") and self_field(c.func.value) == k]
                    if not resets:
                        out.append((m2, assigns[0], k, f, m))
    return out



def unsound_memos(ctx: Ctx, cls):
    """[(method, node, what)] answers remembered in `cls` that can outlive what they were worked out from:
    a method under functools.lru_cache / cache / cached_property that reads an instance field which is given a new value
    outside the constructor, or a container a getter hands out by reference (nothing ever empties such a cache). A keyed
    memo in a field is the business of stale_memo_fields (reset where its source is assigned)."""
    p, t = ctx.prog, ctx.types
    methods = [m for lst in cls.methods.values() for m in lst]

    def self_field(e):
        return e.attr if isinstance(e, ast.Attribute) and isinstance(e.value, ast.Name) and e.value.id == "self" else None

    def fields_read(m, depth=0, seen=None):
        seen = seen if seen is not None else set()
        if t.fkey(m) in seen or depth > 3:
            return set()
        seen.add(t.fkey(m))
        out = {self_field(a) for a in t.nodes_in(m, ast.Attribute) if self_field(a) and isinstance(a.ctx, ast.Load)}
        for c in t.calls_in(m):
            for g in t.resolve_call(c, m).repo:
                if g.cls is not None and any(k is g.cls for k in cls.mro):
                    out |= fields_read(g, depth + 1, seen)
        for a in t.nodes_in(m, ast.Attribute):
            for g in t.property_targets(a, m):
                if g.cls is not None and any(k is g.cls for k in cls.mro):
                    out |= fields_read(g, depth + 1, seen)
        return out

    live = set()       # fields handed out by reference
    for m in methods:
        for r in t.nodes_in(m, ast.Return):
            f = self_field(r.value) if r.value is not None else None
            if f:
                live.add(f)
    reassigned = set()
    for m in methods:
        if m.name == "__init__":
            continue
        for a in t.nodes_in(m, ast.Attribute):
            if self_field(a) and isinstance(a.ctx, ast.Store):
                reassigned.add(self_field(a))
    out = []
    for m in methods:
        decs = [norm(d.func) if isinstance(d, ast.Call) else norm(d) for d in m.node.decorator_list]
        cached = [d for d in decs if d.rsplit(".", 1)[-1] in ("lru_cache", "cache", "cached_property")]
        reads = fields_read(m)
        if cached:
            bad = sorted(f for f in reads if f in reassigned or f in live)
            if bad:
                out.append((m, m.node.decorator_list[0], "@%s on %s, which reads `self.%s` - %s: the first answer is given for ever" % (
                    cached[0], m.name, bad[0], "a field that is given a new value later" if bad[0] in reassigned else "a container handed out by reference")))
            continue
    return out

def fold_strings(ctx: Ctx, e, fi, depth=0):
    """The set of string constants an expression denotes - literals, tuples / lists / sets / frozensets of them, `+` of
    such, module-level constants (also imported ones) - or None when it is not such a constant collection."""
    if e is None or depth > 6:
        return None
    if isinstance(e, ast.Constant):
        return {e.value} if isinstance(e.value, str) else None
    if isinstance(e, (ast.Tuple, ast.List, ast.Set)):
        out = set()
        for x in e.elts:
            if isinstance(x, ast.Starred):
                s = fold_strings(ctx, x.value, fi, depth + 1)
            else:
                s = fold_strings(ctx, x, fi, depth + 1)
            if s is None:
                return None
            out |= s
        return out
    if isinstance(e, ast.BinOp) and isinstance(e.op, (ast.Add, ast.BitOr)):
        a, b = fold_strings(ctx, e.left, fi, depth + 1), fold_strings(ctx, e.right, fi, depth + 1)
        return None if a is None or b is None else a | b
    if isinstance(e, ast.Call) and isinstance(e.func, ast.Name) and e.func.id in ("frozenset", "set", "tuple", "list") and len(e.args) == 1 and not e.keywords:
        return fold_strings(ctx, e.args[0], fi, depth + 1)
    if isinstance(e, (ast.Name, ast.Attribute)):
        mod = fi.module if hasattr(fi, "module") else fi
        if isinstance(e, ast.Name) and hasattr(fi, "module") and ctx.types.local_bindings(fi, e.id):
            return None
        r = ctx.prog.resolve_expr_static(mod, e)
        if r and r[0] == "const":
            m2 = r[1]
            v = m2.consts.get(r[2])
            return fold_strings(ctx, v, m2, depth + 1) if v is not None else None
        # a constant kept on a class: `self.X` / `cls.X` / `Cls.X` with X assigned once, in the class body only
        if isinstance(e, ast.Attribute) and hasattr(fi, "module"):
            owners = []
            if isinstance(e.value, ast.Name) and e.value.id in ("self", "cls") and getattr(fi, "cls", None) is not None:
                owners = list(fi.cls.mro)
            else:
                for ty in ctx.types.type_of(e.value, fi):
                    if ty[0] == "clsobj" and ty[1] in ctx.prog.classes:
                        owners = list(ctx.prog.classes[ty[1]].mro)
            for c in owners:
                if e.attr in c.class_attrs:
                    if ctx.types.field_stores(c, e.attr):
                        return None
                    return fold_strings(ctx, c.class_attrs[e.attr], c.module, depth + 1)
    return None


def enum_lookup(ctx: Ctx, e, fi, depth=0):
    """(enum name, 'Name' | 'Value', argument expression) when `e` converts between the names and numbers of a protobuf
    enum: `E.Name(x)` / `E.Value(x)`, a lookup `T[x]` / `T.get(x)` in a module-level table built from `E.items()`
    (`dict(E.items())` = by name; `{number: name for name, number in E.items()}` = by number), or a small helper of the
    repository that answers with such a lookup of its parameter. None otherwise."""
    t, p = ctx.types, ctx.prog
    if depth > 3 or e is None:
        return None
    if isinstance(e, ast.Call) and isinstance(e.func, ast.Attribute) and e.func.attr in ("Name", "Value") and len(e.args) == 1:
        return (norm(e.func.value).rsplit(".", 1)[-1], e.func.attr, e.args[0])
    table = key = None
    if isinstance(e, ast.Subscript) and isinstance(e.value, ast.Name):
        table, key = e.value, e.slice
    elif isinstance(e, ast.Call) and isinstance(e.func, ast.Attribute) and e.func.attr == "get" and isinstance(e.func.value, ast.Name) and len(e.args) == 1:
        table, key = e.func.value, e.args[0]
    if table is not None and not (hasattr(fi, "module") and t.local_bindings(fi, table.id)):
        mod = fi.module if hasattr(fi, "module") else fi
        r = p.resolve_name_in_module(mod, table.id)
        if r and r[0] == "const":
            v = r[1].consts.get(r[2])
            items = None
            if isinstance(v, ast.Call) and norm(v.func) == "dict" and len(v.args) == 1:
                items, direction = v.args[0], "Value"
            elif isinstance(v, ast.DictComp) and len(v.generators) == 1 and isinstance(v.generators[0].target, ast.Tuple) and len(v.generators[0].target.elts) == 2 \
                    and not v.generators[0].ifs:
                a_, b_ = [norm(x) for x in v.generators[0].target.elts]
                k_, val_ = norm(v.key), norm(v.value)
                items = v.generators[0].iter
                direction = "Value" if (k_, val_) == (a_, b_) else "Name" if (k_, val_) == (b_, a_) else None
                if direction is None:
                    return None
            if items is not None and isinstance(items, ast.Call) and isinstance(items.func, ast.Attribute) and items.func.attr == "items" and not items.args:
                return (norm(items.func.value).rsplit(".", 1)[-1], direction, key)
        return None
    if isinstance(e, ast.Call):
        tg = t.resolve_call(e, fi) if hasattr(fi, "module") else None
        if tg is not None and len(tg.repo) == 1 and not tg.ext:
            g = tg.repo[0]
            b = t.bind_args(g, e)
            rets = [r for r in t.nodes_in(g, ast.Return) if r.value is not None]
            found = [enum_lookup(ctx, r.value, g, depth + 1) for r in rets]
            if rets and all(found) and len({(f[0], f[1]) for f in found}) == 1 and all(isinstance(f[2], ast.Name) and f[2].id in b for f in found):
                return (found[0][0], found[0][1], b[found[0][2].id])
    return None
