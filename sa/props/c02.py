"""C02 snapshot fidelity - see DESIGN.md section 4 (C02)."""
import ast

from .common import Ctx, Finding, Result, need, term, P, TRUSTED_LOGGING, trace_worker
from .c03 import table_rule
from ..index import norm
from ..dtable import Table, Vars
from .. import paths

FC = "deep.processor.frame_collector.FrameCollector"
VP = "deep.processor.variable_processor"
SNAP = "deep.processor.context.snapshot_action.SnapshotActionContext"
ES = "deep.api.tracepoint.eventsnapshot"


def bound(ctx, cls_qn, call, f):
    c = ctx.prog.cls(cls_qn)
    return {k: ctx.expand.expand(v, f) for k, v in ctx.types.bind_args(c.lookup("__init__"), call).items()}


def ctor_calls(ctx, f, cls_qn):
    c = ctx.prog.cls(cls_qn)
    return [x for x in ctx.types.calls_in(f) if c in ctx.types.resolve_call(x, f).ctor]


def _is_attr_dict(ctx, arg, fi, val, depth=0):
    """arg denotes `<val>.__dict__`, directly, through a local, or through a helper returning its parameter's __dict__ (or None)."""
    t = ctx.types
    if norm(arg) == "%s.__dict__" % val:
        return True
    if isinstance(arg, ast.Name) and depth < 3:
        binds = [b for k, b in t.local_bindings(fi, arg.id) if k == "assign"]
        return len(binds) == 1 and binds[0][1] is not None and _is_attr_dict(ctx, binds[0][1], fi, val, depth + 1)
    if isinstance(arg, ast.Call) and depth < 3:
        tg = t.resolve_call(arg, fi)
        if len(tg.repo) == 1 and not tg.by_name and not tg.repo[0].is_wrapped:
            g_ = tg.repo[0]
            b = t.bind_args(g_, arg)
            pn = [k for k, v in b.items() if norm(v) == val]
            rets = [r.value for r in t.nodes_in(g_, ast.Return) if r.value is not None and not (isinstance(r.value, ast.Constant) and r.value.value is None)]
            return len(pn) == 1 and bool(rets) and all(_is_attr_dict(ctx, r, g_, pn[0], depth + 1) for r in rets)
    return False


def run(ctx: Ctx, tier: str) -> Result:
    res = Result("C02")
    res.explanation = (
        "Field provenance by origin expansion, bound through the real constructor signatures: every field of "
        "StackFrame / Variable / EventSnapshot / TracePointConfig / WatchResult is fed from the designated source of "
        "the same frame or value (file, function, line, class of self, locals of the loop frame F; type name, "
        "rendered-and-truncated text, identity and truncation flag of one value V; tracepoint, timestamp, frames and "
        "table in that order); the stack walk appends exactly one frame per iteration, starts at the trigger frame and "
        "advances only by f_back; decision tables of should_collect_vars (frame_type) and variable_to_string "
        "(iterator / container size / text); children are named and valued from the same key / index.")
    res.trusted = [TRUSTED_LOGGING, "CPython frame attributes describe the paused frame"]
    res.not_decided = ["that the rendered text equals str(obj) for every runtime object", "child enumeration per concrete type",
                       "private-name demangling for every class hierarchy", "short-path arithmetic on concrete paths (see C19)"]
    for rid, text in (("C02.FRAME", "StackFrame fields from the same frame F"),
                      ("C02.WALK", "stack walk: one frame per iteration, from the trigger frame, by f_back"),
                      ("C02.VAR", "Variable fields from one value V; rendering table"),
                      ("C02.SNAP", "EventSnapshot / TracePointConfig / WatchResult provenance"),
                      ("C02.TYPE", "frame_type decides which frames carry variables"),
                      ("C02.CHILD", "children named and valued from the same key / index")):
        res.rule(rid, text)
    p, t, g = ctx.prog, ctx.types, ctx.guards

    # ---------------- FRAME
    pf = p.func(FC + "._process_frame")
    F = P(pf, 3)
    sf = ctor_calls(ctx, pf, ES + ".StackFrame")
    need(len(sf) == 1, "_process_frame: StackFrame construction not found")
    b = bound(ctx, ES + ".StackFrame", sf[0], pf)
    expect = {
        "file_name": lambda v: v == ["%s.f_code.co_filename" % F],
        "method_name": lambda v: v == ["%s.f_code.co_name" % F],
        "line_number": lambda v: v == ["%s.f_lineno" % F],
        # (what parse_short_name / is_app_frame compute is C19.FRAME's business; here: computed from this frame's file name)
        "short_path": lambda v: bool(v) and all((x.endswith("parse_short_name(%s.f_code.co_filename)[0]" % F)) or
                                                (x.startswith("%s.f_code.co_filename" % F) and ("is_app_frame(%s.f_code.co_filename)" % F in x or x == "%s.f_code.co_filename" % F))
                                                for x in v),
        "app_frame": lambda v: len(v) == 1 and (v[0].endswith("parse_short_name(%s.f_code.co_filename)[1]" % F) or v[0].endswith("is_app_frame(%s.f_code.co_filename)[0]" % F)),
        "class_name": lambda v: sorted(v) in (sorted(["None", "%s.f_locals.get('self', None).__class__.__name__" % F]),
                                              sorted(["None", "type(%s.f_locals.get('self', None)).__name__" % F]),
                                              sorted(["None", "type(%s.f_locals.get('self')).__name__" % F])),
        "variables": lambda v: "[]" in v and len(v) == 2 and any(("process_variable('locals', %s.f_locals)" % F) in x and x.endswith("._children") for x in v),
    }
    for k, okf in expect.items():
        got = b.get(k, [])
        if okf(got):
            res.ok("C02.FRAME", {k: got[-1][:110]})
        else:
            res.fail(Finding("C02.FRAME", pf.qname, "%s=%s" % (k, got), pf.loc(sf[0]),
                             "StackFrame.%s is fed from %s, not from the designated attribute of the frame being processed" % (k, [x[:120] for x in got])))
    # the class is named exactly when the frame has a `self`
    cn_st = [n for n in t.nodes_in(pf, ast.Assign) if isinstance(n.targets[0], ast.Name) and n.targets[0].id == "class_name"
             and not (isinstance(n.value, ast.Constant) and n.value.value is None)]
    cn_ret = []
    for n in cn_st:
        cs_ = [(ctx.expand.expand(c, pf), pol) for c, pol in paths.enclosing_conditions(p, n, pf)]
        want_ = "%s.f_locals.get('self', None) is not None" % F
        want2_ = "%s.f_locals.get('self') is not None" % F
        neg_ = (want_.replace(" is not None", " is None"), want2_.replace(" is not None", " is None"))
        cs_all = [(ctx.expand.expand(c, pf), pol) for c, pol in paths.conditions(p, n, pf)]
        if (len(cs_) == 1 and cs_[0][1] and cs_[0][0] and cs_[0][0][0] in (want_, want2_)) or \
                (len(cs_all) == 1 and not cs_all[0][1] and cs_all[0][0] and cs_all[0][0][0] in neg_):
            res.ok("C02.FRAME", {"class named when the frame has a self": pf.loc(n)})
        elif isinstance(n.value, ast.IfExp) or not cs_:
            pass            # conditional expression / helper forms are covered by the value expectation above
        else:
            res.fail(Finding("C02.FRAME", pf.qname, n, pf.loc(n), "the class name is set when %s, not exactly when the frame has a `self`" % [(x[0][:1], x[1]) for x in cs_]))
    # variables only when asked and within the time budget; collector uses this action's limits
    vproc = [c for c in t.calls_in(pf) if any(x.name == "process_variable" for x in t.resolve_call(c, pf).repo)]
    def requires(test, pol, name):
        """test (with polarity) holding implies `name` is true"""
        if isinstance(test, ast.Name):
            return pol and test.id == name
        if isinstance(test, ast.BoolOp) and isinstance(test.op, ast.And) and pol:
            return any(requires(v, True, name) for v in test.values)
        if isinstance(test, ast.UnaryOp) and isinstance(test.op, ast.Not):
            return requires(test.operand, not pol, name) if not pol else False
        return False
    if len(vproc) == 1 and any(requires(c, pol, pf.params[4]) for c, pol in paths.conditions(p, vproc[0], pf)):
        res.ok("C02.FRAME", {"variables collected only when requested": True})
    else:
        res.fail(Finding("C02.FRAME", pf.qname, vproc[0] if vproc else "<process_variable>", pf.loc(), "frame variables are not collected exactly when the caller asks for them"))

    # ---------------- WALK
    col = p.func(FC + ".collect")
    loops = [l for l in t.nodes_in(col, ast.While)]
    calls = [c for c in t.calls_in(col) if pf in t.resolve_call(c, col).repo]
    if not loops and len(calls) == 1:
        # second shape: [process(frame, should_collect(index)) for index, frame in enumerate(self.<walk>())] with a generator
        # method that yields the trigger frame and then every f_back
        from .c05 import enumerate_index
        cps_ = [c_ for c_ in t.nodes_in(col, ast.ListComp) if len(c_.generators) == 1 and c_.elt is calls[0] and not c_.generators[0].ifs]
        okw = False
        why_ = "no comprehension over the walked stack"
        if len(cps_) == 1 and enumerate_index(cps_[0].generators[0]) is not None:
            g0_ = cps_[0].generators[0]
            idx_, cur_ = enumerate_index(g0_), norm(g0_.target.elts[1])
            walkc = g0_.iter.args[0]
            wf = t.resolve_call(walkc, col).repo if isinstance(walkc, ast.Call) else []
            bpf = t.bind_args(pf, calls[0])
            why_ = "the frame handed to _process_frame is not the walked one"
            if len(wf) == 1 and norm(bpf.get(pf.params[3])) == cur_:
                w_ = wf[0]
                wl = [l for l in t.nodes_in(w_, ast.While)]
                ys = list(t.nodes_in(w_, ast.Yield))
                why_ = "the walk does not yield the trigger frame and then every f_back"
                if len(wl) == 1 and len(ys) == 1 and isinstance(wl[0].test, ast.Compare):
                    c0 = norm(wl[0].test.left)
                    adv = [n for n in ast.walk(wl[0]) if isinstance(n, ast.Assign) and norm(n.targets[0]) == c0]
                    inits = [n for n in t.nodes_in(w_, ast.Assign) if norm(n.targets[0]) == c0 and not paths.within(p, n, wl[0])]
                    exits = [n for n in ast.walk(wl[0]) if isinstance(n, (ast.Break, ast.Continue, ast.Return))]
                    okw = norm(wl[0].test) == "%s is not None" % c0 and ys[0].value is not None and norm(ys[0].value) == c0 and len(adv) == 1 and \
                        norm(adv[0].value) == "%s.f_back" % c0 and adv[0].lineno > ys[0].lineno and len(inits) == 1 and \
                        ctx.expand.expand(inits[0].value, w_) == ["@self._FrameCollector__frame"] and not exits
                    # the index that decides whether variables are collected is the position of the frame in the walk
                    sca = [norm(a_) for c_ in ast.walk(calls[0]) if isinstance(c_, ast.Call) and norm(c_.func).endswith("should_collect_vars") for a_ in c_.args]
                    okw = okw and sca == [idx_]
            rets = [r for r in t.nodes_in(col, ast.Return)]
            first = rets[0].value.elts[0] if len(rets) == 1 and isinstance(rets[0].value, ast.Tuple) and len(rets[0].value.elts) == 2 else None
            returned = first is cps_[0] or (isinstance(first, ast.Name) and any(k == "assign" and b_[1] is cps_[0] for k, b_ in t.local_bindings(col, first.id)))
            okw = okw and returned and norm(rets[0].value.elts[1]) == col.params[1]
        if okw:
            res.ok("C02.WALK", {"walk": "[process(frame) for index, frame in enumerate(walk())]; walk yields the trigger frame, then every f_back"})
        else:
            res.fail(Finding("C02.WALK", col.qname, cps_[0] if cps_ else "<frame walk>", col.loc(), "the stack is not walked from the trigger frame by f_back with exactly one StackFrame per frame, in order (%s)" % why_))
        loops = None
    else:
        need(len(loops) == 1, "collect: frame loop not found")
    lp = loops[0] if loops else None
    if lp is not None:
        apps = [c for c in t.calls_in(col) if isinstance(c.func, ast.Attribute) and c.func.attr in ("append", "insert", "appendleft")]
        cur = norm(lp.test.left) if isinstance(lp.test, ast.Compare) else None
        ok = len(calls) == 1 and len(apps) == 1 and apps[0].func.attr == "append" and cur is not None and norm(lp.test) == "%s is not None" % cur
        if ok:
            bpf = t.bind_args(pf, calls[0])
            frame_arg = norm(bpf.get(pf.params[3]))
            adv = [n for n in ast.walk(lp) if isinstance(n, ast.Assign) and norm(n.targets[0]) == cur]
            inits = [n for n in t.nodes_in(col, ast.Assign) if norm(n.targets[0]) == cur and not paths.within(p, n, lp)]
            exits = [n for n in ast.walk(lp) if isinstance(n, (ast.Break, ast.Continue, ast.Return))]
            st_call = paths.stmt_of(p, calls[0])
            appended = norm(apps[0].args[0]) if apps[0].args else ""
            ok = frame_arg == cur and len(adv) == 1 and norm(adv[0].value) == "%s.f_back" % cur and len(inits) == 1 and \
                ctx.expand.expand(inits[0].value, col) == ["@self._FrameCollector__frame"] and not exits and \
                ((isinstance(st_call, ast.Assign) and norm(st_call.targets[0]) == appended) or (apps[0].args and apps[0].args[0] is calls[0])) and \
                all(paths.block_position(p, paths.stmt_of(p, x))[0] is lp for x in (calls[0], apps[0], adv[0].value)) and \
                adv[0].lineno > apps[0].lineno >= calls[0].lineno
        rets = [r for r in t.nodes_in(col, ast.Return)]
        ok = ok and len(rets) == 1 and isinstance(rets[0].value, ast.Tuple) and norm(rets[0].value.elts[0]) == norm(apps[0].func.value) \
            and norm(rets[0].value.elts[1]) == col.params[1]
        if ok:
            res.ok("C02.WALK", {"walk": "frame = trigger frame; while frame: append(process(frame)); frame = frame.f_back"})
        else:
            res.fail(Finding("C02.WALK", col.qname, lp, col.loc(lp), "the stack is not walked from the trigger frame by f_back with exactly one appended StackFrame per frame, in order"))
    init = p.cls(FC).lookup("__init__")
    st = t.field_stores(p.cls(FC), "__frame")
    snap = p.func(SNAP + "._process_action")
    fcc = ctor_calls(ctx, snap, FC)
    okf = st and all(s_ is init and norm(v) == init.params[2] for s_, v, _ in st) and len(fcc) == 1 and \
        ctx.expand.expand(t.bind_args(init, fcc[0]).get(init.params[2]), snap) == ["@self.trigger_context._TriggerContext__frame"]
    if okf:
        res.ok("C02.WALK", {"starts at": "the trigger context's frame"})
    else:
        res.fail(Finding("C02.WALK", snap.qname, fcc[0] if fcc else "<FrameCollector(self, frame)>", snap.loc(), "the collector does not start at the frame that hit the tracepoint"))

    # ---------------- TYPE
    sc = p.func(SNAP + ".should_collect_vars")
    tb = Table(ctx, sc)
    idx = P(sc, 1)
    cfgs = [k for k in tb.vars.enums if "'frame_type'" in k]
    if len(cfgs) == 1:
        CT = cfgs[0]
        rv = Vars()
        for v in ("no_frame", "all_frame", "single_frame"):
            rv.enum(CT, v)
        rv.enum(idx, 0)

        def reft(w):
            v = w.enum[CT]
            if v == "no_frame":
                return False
            if v == "all_frame":
                return True
            return w.enum[idx] == 0
        table_rule(res, "C02.TYPE", tb, rv, reft, "no_frame: none; all_frame: every frame; otherwise only the top frame")
        if CT.endswith(".get('frame_type', 'single_frame')"):
            res.ok("C02.TYPE", {"setting": CT})
        else:
            res.fail(Finding("C02.TYPE", sc.qname, CT, sc.loc(), "frame_type is not read from the action config with default single_frame"))
    else:
        res.fail(Finding("C02.TYPE", sc.qname, "<frame_type>", sc.loc(), "should_collect_vars does not consult the frame_type setting"))
    # the setting is text that arrives from the service (decoded from the wire: equal to the constants, never the same object):
    # it is compared by value
    for cmp_ in t.nodes_in(sc, ast.Compare):
        if any(isinstance(o, (ast.Is, ast.IsNot)) for o in cmp_.ops):
            for side in [cmp_.left] + list(cmp_.comparators):
                val_ = None
                if isinstance(side, ast.Constant):
                    val_ = side.value
                elif isinstance(side, ast.Name) and not t.local_bindings(sc, side.id):
                    try:
                        val_ = p.const_value(sc.module, side.id)
                    except Exception:
                        val_ = None
                if isinstance(val_, str):
                    res.fail(Finding("C02.TYPE", sc.qname, cmp_, sc.loc(cmp_), "`%s` compares the configured frame type by identity with a text constant: a value received from the "
                                     "service is an equal but different object, so all_frame / no_frame tracepoints are treated as single_frame" % norm(cmp_)))
    if calls and lp is None:
        # comprehension shape: the index was checked to be enumerate()'s with the walk (C02.WALK)
        ia = ctx.expand.expand(t.bind_args(pf, calls[0]).get(pf.params[4]), col)
        if len(ia) == 1 and "should_collect_vars(" in ia[0]:
            res.ok("C02.TYPE", {"frame index": "position in the walk (enumerate)"})
        else:
            res.fail(Finding("C02.TYPE", col.qname, calls[0], col.loc(calls[0]), "which frames carry variables is not decided by should_collect_vars(index)"))
    elif calls:
        ia = ctx.expand.expand(t.bind_args(pf, calls[0]).get(pf.params[4]), col)
        cnt_ok = None
        inner0 = t.bind_args(pf, calls[0]).get(pf.params[4])
        if isinstance(inner0, ast.Name) and lp is not None:
            # a local holding the decision, assigned once in the same loop iteration
            bs0 = [b for k, b in t.local_bindings(col, inner0.id) if k == "assign"]
            if len(bs0) == 1 and bs0[0][1] is not None and paths.enclosing_loops(p, bs0[0][1], col) == paths.enclosing_loops(p, calls[0], col):
                ia = [norm(bs0[0][1])] if "should_collect_vars(" in norm(bs0[0][1]) and "len(" not in norm(bs0[0][1]) else ia
        if len(ia) == 1 and "should_collect_vars(" in ia[0] and "should_collect_vars(len(" not in ia[0] and lp is not None:
            # an explicit counter: 0 before the loop, += 1 once per iteration (after its use), nothing else writes it
            sc_calls = [c_ for c_ in ast.walk(lp) if isinstance(c_, ast.Call) and norm(c_.func).endswith("should_collect_vars") and c_.args and isinstance(c_.args[0], ast.Name)]
            if len(sc_calls) == 1:
                cn = sc_calls[0].args[0].id
                binds_ = t.local_bindings(col, cn)
                inits_ = [b for k_, b in binds_ if k_ == "assign"]
                augs_ = [b for k_, b in binds_ if k_ == "aug"]
                if len(binds_) == 1 and len(inits_) == 1 and isinstance(inits_[0][1], ast.Call) and norm(inits_[0][1].func) == "len" and apps \
                        and norm(inits_[0][1].args[0]) == norm(apps[0].func.value) and paths.within(p, inits_[0][1], lp) and inits_[0][1].lineno < sc_calls[0].lineno:
                    # the index named first: `frame_index = len(collected_frames)` in the same iteration
                    res.ok("C02.TYPE", {"frame index": norm(inits_[0][1])})
                    cnt_ok = None
                    ia = []
                else:
                  cnt_ok = len(inits_) == 1 and isinstance(inits_[0][1], ast.Constant) and inits_[0][1].value == 0 and not paths.within(p, inits_[0][1], lp) and \
                    len(augs_) == 1 and isinstance(augs_[0].op, ast.Add) and isinstance(augs_[0].value, ast.Constant) and augs_[0].value.value == 1 and \
                    paths.block_position(p, augs_[0])[0] is lp and augs_[0].lineno > sc_calls[0].lineno and len(binds_) == 2
        if cnt_ok:
            res.ok("C02.TYPE", {"frame index": "explicit counter, 0 for the trigger frame, +1 per frame"})
        elif cnt_ok is False:
            res.fail(Finding("C02.TYPE", col.qname, calls[0], col.loc(calls[0]), "the frame index given to should_collect_vars is not a counter that starts at 0 and grows by one per frame"))
        elif len(ia) == 1 and "should_collect_vars(len(" in ia[0]:
            inner = t.bind_args(pf, calls[0]).get(pf.params[4])
            if isinstance(inner, ast.Name):
                # a local holding the decision, assigned once in the same loop iteration
                bs_ = [b for k, b in t.local_bindings(col, inner.id) if k == "assign"]
                if len(bs_) == 1 and bs_[0][1] is not None and paths.enclosing_loops(p, bs_[0][1], col) == paths.enclosing_loops(p, calls[0], col):
                    inner = bs_[0][1]
            larg = inner.args[0] if isinstance(inner, ast.Call) and inner.args else None
            if isinstance(larg, ast.Call) and norm(larg.func) == "len" and apps and norm(larg.args[0]) == norm(apps[0].func.value):
                res.ok("C02.TYPE", {"frame index": norm(larg)})
            else:
                res.fail(Finding("C02.TYPE", col.qname, inner, col.loc(inner), "the frame index given to should_collect_vars is not the number of frames collected so far"))
        elif ia:
            res.fail(Finding("C02.TYPE", col.qname, calls[0], col.loc(calls[0]), "which frames carry variables is not decided by should_collect_vars(index)"))

    # ---------------- VAR
    pv = p.func(VP + ".process_variable")
    N = P(pv, 1)
    vc = ctor_calls(ctx, pv, ES + ".Variable")
    need(len(vc) == 1, "process_variable: Variable construction not found")
    vb = bound(ctx, ES + ".Variable", vc[0], pv)
    V = "%s.value" % N
    render = "deep.processor.variable_processor.variable_to_string(type(%s), %s)" % (V, V)
    coll = P(pv, 0)
    exp = {
        "var_type": lambda v: v in (["str(type(%s).__name__)" % V], ["type(%s).__name__" % V]),
        "value": lambda v: len(v) == 1 and v[0].startswith(render + "[:") and "max_string_length" in v[0],
        "var_hash": lambda v: v == ["str(id(%s))" % V],
        "children": lambda v: v == ["[]"],
        "truncated": lambda v: len(v) == 1 and v[0].startswith("len(%s) > " % render) and "max_string_length" in v[0],
    }
    for k, okf in exp.items():
        got = vb.get(k, [])
        if okf(got):
            res.ok("C02.VAR", {k: got[0][:110]})
        else:
            res.fail(Finding("C02.VAR", pv.qname, "%s=%s" % (k, got), pv.loc(vc[0]), "Variable.%s is fed from %s, not from the type / rendered text / identity of the value being recorded" % (k, [x[:120] for x in got])))
    vs = p.func(VP + ".variable_to_string")
    vt = Table(ctx, vs)
    T_, VV = P(vs, 0), P(vs, 1)
    outs = set()
    for r in vt.rows:
        outs.add(norm(r.result) if r.result is not None else "None")
    from .common import fmt_parts
    parts = {}
    for r in vt.rows:
        fp = fmt_parts(r.result) if r.result is not None else None
        if fp is not None:
            parts[fp[0]] = fp[1]
    it_ok = any(k.startswith("Iterator of type: {") for k in parts)
    size_ok = parts.get("Size: {}") == ["len(%s)" % VV]
    text_ok = any(x.startswith("str(%s)" % VV) or "safe_str(%s)" % VV in x or "str(%s)" % VV in x for x in outs)
    sized_rows = [r for r in vt.rows if r.result is not None and (fmt_parts(r.result) or ("", []))[0] == "Size: {}"]
    pin_ok = bool(sized_rows) and all(any(pol and ("%s is dict" % T_) in norm(c) and "'frozenset', 'set', 'list', 'tuple'" in norm(c) for c, pol in r.conds) for r in sized_rows)
    if it_ok and size_ok and text_ok and pin_ok and len(outs) == 3:
        res.ok("C02.VAR", {"rendering": sorted(outs)})
    else:
        res.fail(Finding("C02.VAR", vs.qname, "<rendering table>", vs.loc(), "values are not rendered as `iterator note | Size: <element count> for dict/list/tuple/set | text of the value`: %s" % sorted(outs)))

    # ---------------- SNAP
    es = ctor_calls(ctx, snap, ES + ".EventSnapshot")
    need(len(es) == 1, "EventSnapshot construction not found")
    eb = bound(ctx, ES + ".EventSnapshot", es[0], snap)
    collect_call = [c for c in t.calls_in(snap) if col in t.resolve_call(c, snap).repo]
    st_c = paths.stmt_of(p, collect_call[0]) if collect_call else None
    names = [norm(x) for x in st_c.targets[0].elts] if isinstance(st_c, ast.Assign) and isinstance(st_c.targets[0], ast.Tuple) else []
    raw = t.bind_args(p.cls(ES + ".EventSnapshot").lookup("__init__"), es[0])
    checks = {
        "tracepoint": eb.get("tracepoint") == ["@self.location_action.tracepoint"],
        "ts": eb.get("ts") == ["@self.trigger_context._TriggerContext__ts"],
        "resource": bool(eb.get("resource")) and eb["resource"][0].endswith("._resource"),
        "frames": len(names) == 2 and norm(raw.get("frames")) == names[0],
        "var_lookup": len(names) == 2 and norm(raw.get("var_lookup")) == names[1],
    }
    for k, okx in checks.items():
        if okx:
            res.ok("C02.SNAP", {"EventSnapshot." + k: True})
        else:
            res.fail(Finding("C02.SNAP", snap.qname, "%s=%s" % (k, eb.get(k)), snap.loc(es[0]), "EventSnapshot.%s is not fed from its designated source (%s)" % (k, eb.get(k))))
    tpf = p.func("deep.api.tracepoint.trigger.LocationAction.tracepoint")
    tc = ctor_calls(ctx, tpf, "deep.api.tracepoint.tracepoint_config.TracePointConfig")
    need(len(tc) == 1, "TracePointConfig construction not found")
    tbn = bound(ctx, "deep.api.tracepoint.tracepoint_config.TracePointConfig", tc[0], tpf)
    okt = tbn.get("tp_id") == ["@self._LocationAction__id"] and all("__path" in x for x in tbn.get("path", ["x"])) and \
        all(x.endswith("__line") or x == "-1" for x in tbn.get("line_no", ["x"])) and tbn.get("args") == ["dict(@self._LocationAction__config)"] and \
        tbn.get("watches") == ["@self._LocationAction__config.get('watches', [])"]
    if okt:
        res.ok("C02.SNAP", {"TracePointConfig": "id, location path/line, args, watches of this action"})
    else:
        res.fail(Finding("C02.SNAP", tpf.qname, tc[0], tpf.loc(tc[0]), "the snapshot's tracepoint description is not (id, location path, location line, args, watches) of the action that fired: %s" % tbn))
    from .common import dataclass_rule
    dataclass_rule(ctx, res, "C02.SNAP", [ES + ".EventSnapshot", ES + ".StackFrame", ES + ".Variable", ES + ".VariableId", ES + ".WatchResult",
                                          "deep.api.tracepoint.tracepoint_config.TracePointConfig"])
    # the line the snapshot names: the configured line, 0 for a tracepoint without one (method tracepoints carry -1)
    lnf = p.cls("deep.api.tracepoint.tracepoint_config.TracePointConfig").lookup("line_no")
    ltb = Table(ctx, lnf)
    LN = "@self._line_no"
    lrv = Vars(); lrv.num(LN, 0)

    def lref(w):
        v = w.num[LN] if LN in w.num else w.enum.get(LN)
        if v is None or not isinstance(v, (int, float)) and not hasattr(v, "below"):
            return lambda got: True          # not a number: infeasible, the line is always an int (-1 for none)
        neg = (v < 0) if isinstance(v, (int, float)) else getattr(v, "below", False)
        return (lambda got: got[0] == "return" and got[1] in (0, "0")) if neg else (lambda got: got[0] == "return" and got[1] == LN)
    table_rule(res, "C02.SNAP", ltb, lrv, lref, "tracepoint line: the configured line, 0 when it is negative")
    ew = p.func("deep.processor.context.action_context.ActionContext.eval_watch")
    W = P(ew, 1)
    good = [c for c in ctor_calls(ctx, ew, ES + ".WatchResult") if len(c.args) == 3]
    okw = False
    if len(good) == 1:
        wb = bound(ctx, ES + ".WatchResult", good[0], ew)
        okw = wb.get("expression") == [W] and wb.get("source") == [P(ew, 2)] and len(wb.get("result", [])) == 1 and \
            ("process_variable(%s, @self.trigger_context.try_evaluate_expression(%s)[1])[0]" % (W, W)) in wb["result"][0]
    # every watch result, also the error ones, names its source and its expression in the right places
    wr_init = p.cls(ES + ".WatchResult").lookup("__init__")
    acx = p.cls("deep.processor.context.action_context.ActionContext")
    for mname, src_ok, expr_ok in (("eval_watch", lambda x: x == [P(ew, 2)], lambda x: x == [W]),
                                   ("process_capture_variable", lambda x: len(x) == 1 and "CAPTURE" in x[0].upper(), None)):
        mf = acx.lookup(mname)
        if mf is None:
            continue
        for c_ in ctor_calls(ctx, mf, ES + ".WatchResult"):
            b_ = {k: ctx.expand.expand(v, mf) for k, v in t.bind_args(wr_init, c_).items()}
            e_ok = expr_ok(b_.get("expression", [])) if expr_ok else b_.get("expression") == [P(mf, 1)]
            if src_ok(b_.get("source", [])) and e_ok:
                res.ok("C02.SNAP", {"WatchResult in %s" % mname: mf.loc(c_)})
            else:
                res.fail(Finding("C02.SNAP", mf.qname, c_, mf.loc(c_), "a watch result is built with source %s and expression %s: source and expression are not in their places" % (
                    b_.get("source"), b_.get("expression"))))
    # every configured watch is evaluated
    spa = p.func("deep.processor.context.snapshot_action.SnapshotActionContext._process_action")
    wcalls = [c_ for c_ in t.calls_in(spa) if ew in t.resolve_call(c_, spa).repo]
    okall = False
    if len(wcalls) == 1:
        lps_ = [l for l in paths.enclosing_loops(p, wcalls[0], spa) if isinstance(l, ast.For)]
        okall = len(lps_) == 1 and ctx.expand.expand(lps_[0].iter, spa) and all(x.endswith("watches") or x.endswith(".get('watches', [])") for x in ctx.expand.expand(lps_[0].iter, spa)) \
            and not paths.conditions(p, wcalls[0], spa) and norm(wcalls[0].args[0]) == norm(lps_[0].target) \
            and not [n for n in ast.walk(lps_[0]) if isinstance(n, (ast.Break, ast.Continue))]
    if okall:
        res.ok("C02.SNAP", {"every configured watch evaluated": spa.loc(wcalls[0])})
    else:
        res.fail(Finding("C02.SNAP", spa.qname, wcalls[0] if wcalls else "<for watch in self.watches: eval_watch(watch, ...)>", spa.loc(), "not every configured watch is evaluated (once) for the snapshot"))
    if okw:
        res.ok("C02.SNAP", {"WatchResult": "expression text and the value of that same evaluation"})
    else:
        res.fail(Finding("C02.SNAP", ew.qname, good[0] if good else "<WatchResult(source, watch, id)>", ew.loc(), "a watch result does not pair the expression text with the recorded value of that same evaluation"))

    # ---------------- CHILD
    pd = p.func(VP + ".process_dict_breadth_first")
    nv = ctor_calls(ctx, pd, "deep.processor.bfs.NodeValue")
    okd = False
    if len(nv) == 1 and len(nv[0].args) == 3:
        a0, a1, a2 = [ctx.expand.expand(a, pd) for a in nv[0].args]
        key = "<elem>(list(%s.keys()))" % P(pd, 2)
        okd = len(a1) == 1 and a1[0] == "%s[%s]" % (P(pd, 2), key) and all(key in x for x in a0) and all(key in x for x in a2)
        # every key of the mapping: the construction sits in a loop / comprehension over the keys, guarded only by `key in value`
        lps_ = paths.enclosing_loops(p, nv[0], pd)
        conds_ = [(norm(c), pol) for c, pol in paths.conditions(p, nv[0], pd)]
        over_keys = bool(lps_) and any("%s.keys()" % pd.params[2] in norm(getattr(l, "iter", None) or l.generators[0].iter) for l in lps_)
        def key_present(c, pol):
            return (pol and c.endswith(" in %s" % pd.params[2]) and " not in " not in c) or (not pol and c.endswith(" not in %s" % pd.params[2]))
        conts = [n for n in t.nodes_in(pd, ast.Continue)]
        conts_ok = all(any(key_present(norm(c), not pol) for c, pol in paths.conditions(p, n, pd)[-1:]) for n in conts)
        okd = okd and over_keys and all(key_present(c, pol) for c, pol in conds_) and not list(t.nodes_in(pd, ast.Break)) and conts_ok
    if okd:
        res.ok("C02.CHILD", {"dict/object children": "name and value from the same key, every key"})
    else:
        res.fail(Finding("C02.CHILD", pd.qname, nv[0] if nv else "<NodeValue(name(key), value[key], key)>", pd.loc(), "dict/object children are not (name of key, value[key]) for every key"))
    pl = p.func(VP + ".process_list_breadth_first")
    nl = ctor_calls(ctx, pl, "deep.processor.bfs.NodeValue")
    okl = False
    if len(nl) == 1 and len(nl[0].args) < 2 and nl[0].keywords:
        # the two arguments given by keyword: read as (name, value) in the constructor's order
        nvi_ = p.cls("deep.processor.bfs.NodeValue").lookup("__init__")
        ba_ = t.bind_args(nvi_, nl[0])
        pos_ = [ba_.get(q_) for q_ in nvi_.params[1:3]]
        if all(x_ is not None for x_ in pos_):
            import copy as _copy
            c2_ = _copy.copy(nl[0])
            c2_.args = pos_
            nl = [c2_]
    if len(nl) == 1 and len(nl[0].args) >= 2:
        from .c05 import enumerate_index
        lps = [l for l in t.nodes_in(pl, ast.For)]
        cnt = norm(nl[0].args[0].args[0]) if isinstance(nl[0].args[0], ast.Call) and norm(nl[0].args[0].func) == "str" and nl[0].args[0].args else None
        incs = [n for n in t.nodes_in(pl, ast.AugAssign) if cnt and norm(n.target) == cnt]
        cps_ = [c_ for c_ in t.nodes_in(pl, ast.ListComp) if len(c_.generators) == 1 and paths.within(p, nl[0], c_)]
        if not lps and len(cps_) == 1 and cnt is not None and enumerate_index(cps_[0].generators[0]) == cnt:
            g0_ = cps_[0].generators[0]
            okl = norm(nl[0].args[1]) == norm(g0_.target.elts[1]) and ctx.expand.expand(g0_.iter.args[0], pl) in (["tuple(%s)" % P(pl, 2)], ["list(%s)" % P(pl, 2)])
        elif len(lps) == 1 and cnt is not None:
            if enumerate_index(lps[0]) == cnt:
                elem = norm(lps[0].target.elts[1])
                src = ctx.expand.expand(lps[0].iter.args[0], pl)
                okl = norm(nl[0].args[1]) == elem and not incs and src in (["tuple(%s)" % P(pl, 2)], ["list(%s)" % P(pl, 2)])
            else:
                okl = norm(nl[0].args[1]) == norm(lps[0].target) and len(incs) == 1 and \
                    ctx.expand.expand(lps[0].iter, pl) in (["tuple(%s)" % P(pl, 2)], ["list(%s)" % P(pl, 2)])
    if okl:
        res.ok("C02.CHILD", {"sequence children": "named by their index, in order"})
    else:
        res.fail(Finding("C02.CHILD", pl.qname, nl[0] if nl else "<NodeValue(str(index), element)>", pl.loc(), "sequence children are not (index, element) in iteration order"))
    fcp = p.func(VP + ".find_children_for_parent")
    val, ty = fcp.params[2], fcp.params[3]
    found = {}
    for c in t.calls_in(fcp):
        names_ = [x.name for x in t.resolve_call(c, fcp).repo]
        conds = " & ".join(("" if pol else "not ") + norm(cc) for cc, pol in paths.conditions(p, c, fcp) if pol)
        args_ = [norm(a_) for a_ in c.args]
        if "process_dict_breadth_first" in names_ and val in args_ and ("%s is dict" % ty) in conds:
            found["dict entries"] = True
        if "process_list_breadth_first" in names_ and val in args_ and "LIST_LIKE_TYPES" in conds:
            found["sequence elements"] = True
        if "process_list_breadth_first" in names_ and ("%s.args" % val) in args_ and (
                "isinstance(%s, Exception)" % val in conds or "issubclass(%s, Exception)" % ty in conds):
            found["exception args"] = True
        if "process_dict_breadth_first" in names_ and "correct_names" in args_ and any(_is_attr_dict(ctx, a_, fcp, val) for a_ in c.args):
            found["object attributes"] = True
    if len(found) == 4:
        res.ok("C02.CHILD", {"children by kind": sorted(found)})
    else:
        res.fail(Finding("C02.CHILD", fcp.qname, "<children by kind>", fcp.loc(), "children are not found as dict entries / sequence elements / exception args / object attributes (found %s)" % sorted(found)))
    cn = p.func(VP + ".correct_names")
    ct = Table(ctx, cn)
    okn = False
    for r in ct.rows:
        if r.result is not None and isinstance(r.result, ast.Subscript) and norm(r.result.value) == P(cn, 1) and "len('_' + %s)" % P(cn, 0) in norm(r.result.slice) \
                and any(pol and ".startswith('_' + %s)" % P(cn, 0) in norm(c) for c, pol in r.conds):
            okn = True
    if okn and any(r.result is not None and norm(r.result) == P(cn, 1) for r in ct.rows):
        res.ok("C02.CHILD", {"private names": "class prefix removed when present"})
    else:
        res.fail(Finding("C02.CHILD", cn.qname, "<val[len('_' + cls):]>", cn.loc(), "private attribute names are not shown without their `_Class` prefix"))
    # what is recorded for a value is decided by its type, never by its truth value / length: an object that
    # is falsy (empty cart, Money(0), failed Result) still has the attributes the program gave it
    from ..taint import Taint
    from .c06 import Pins, collector_scope
    from .common import settrace_entries
    tn = Taint(p, t, [(f, f.params[3]) for f, _, _ in settrace_entries(ctx) if len(f.params) > 3])
    pins = Pins(ctx, tn)
    scope = collector_scope(ctx)
    for k in sorted(scope):
        fi = scope[k]
        for op in tn.ops(fi):
            if op.kind not in ("truth", "builtin:bool", "builtin:len"):
                continue
            if "len" in pins.caps(op.subject, op.node, fi):
                res.ok("C02.CHILD", {"op": op.kind, "on": norm(op.subject)[:50], "at": fi.loc(op.node), "why": "builtin container: emptiness is its content"})
            else:
                res.fail(Finding("C02.CHILD", fi.qname, op.node, fi.loc(op.node),
                                 "%s of `%s`, a value of the traced program of any type: what is collected then depends on the "
                                 "object's __bool__/__len__ instead of its type (a falsy object with attributes is recorded differently)" % (
                                     op.kind, norm(op.subject)[:60])))
    from .common import borrow
    borrow(ctx, res, tier, "c19", ("C19.FRAME", "C19.ROOT"), "C02.PATH", "app-frame flag and shortened path per configuration (exclusion wins; exactly the matched prefix removed)")
    borrow(ctx, res, tier, "c15", ("C15.THREAD", "C15.RESULT"), "C02.THREAD", "a deferred snapshot is completed in the thread that took it, with the result of its own invocation")
    borrow(ctx, res, tier, "c07", ("C07.INJECT",), "C02.IDS", "variable ids are never handed out twice (a later value does not overwrite a collected one)")
    borrow(ctx, res, tier, "c07", ("C07.ENTRY",), "C02.IDS", "every watch result points at an entry of the snapshot's table: what was given an id has its entry kept")
    borrow(ctx, res, tier, "c11", ("C11.SIB",), "C02.TYPE", "the frame_type the tracepoint was given is the one the snapshot action works with (taken over as given by the builder)")
    borrow(ctx, res, tier, "c05", ("C05.DEPTH",), "C02.VAR", "children of containers and objects are collected down to the configured depth (depth counted from 0 at the value collected)")
    borrow(ctx, res, tier, "c19", ("C19.CHAIN",), "C02.PATH", "the include / exclude / root settings the frames are classified with resolve as documented (an empty list given in code is a value)")
    borrow(ctx, res, tier, "c03", ("C03.MERGE",), "C02.PLACE", "a tracepoint is installed at its own location: the snapshot it produces describes the frame of that location, not of a "
           "same-named function in another file")
    borrow(ctx, res, tier, "c05", ("C05.BUDGET",), "C02.VAR", "every local of the frame is visited: the search is ended by the budget only, not by a value that was seen before")
    return res
