"""C05 bounded, breadth-first collection - see DESIGN.md section 4 (C05)."""
import ast
import re

from .common import Ctx, Finding, Result, need, term, P, TRUSTED_LOGGING
from .c03 import table_rule
from ..index import norm
from ..dtable import Table, Vars
from .. import paths

VP = "deep.processor.variable_processor"
VSP = "deep.processor.variable_set_processor.VariableSetProcessor"
BFS = "deep.processor.bfs"


def enumerate_index(loop):
    """Name of the index variable if the loop is `for i, x in enumerate(<iterable>)` (start 0), else None."""
    it = loop.iter
    if isinstance(it, ast.Call) and norm(it.func) == "enumerate" and len(it.args) == 1 and not it.keywords and \
            isinstance(loop.target, ast.Tuple) and len(loop.target.elts) == 2 and isinstance(loop.target.elts[0], ast.Name):
        return loop.target.elts[0].id
    return None


def _truth_substitution(node, key):
    """Sub-expressions `<read of key> or X` / `A if <read of key> else B`: the configured value is truth-tested."""
    out = []
    for n in ast.walk(node):
        if isinstance(n, ast.BoolOp) and any(key in norm(v) for v in n.values[:-1]):
            out.append(n)
        elif isinstance(n, ast.IfExp) and not isinstance(n.test, ast.Compare) and key in norm(n.test):
            out.append(n)
    return out


def run(ctx: Ctx, tier: str) -> Result:
    res = Result("C05")
    res.explanation = (
        "Shape rules of the bounded collector: truncate_string slices by the bound and flags len > bound; the "
        "sequence loop checks its counter against max_collection_size before every append and counts once per "
        "append; children are refused when depth+1 >= max depth before any child exists and child depth = parent "
        "depth + 1; every recorded variable is dominated by the budget check whose failure stops the whole "
        "search; the work list is consumed first-in first-out (front) while children are appended at the back "
        "in order, which together with depth = parent + 1 gives non-decreasing depth order (shallower variables "
        "win); each collector limit is wired to its own configuration key.")
    res.trusted = [TRUSTED_LOGGING, "list.pop(0)/deque.popleft() remove the oldest element; += / extend / append add at the end"]
    res.not_decided = ["the wall-clock processing-time budget", "dict and object children are not size-capped by design",
                       "concrete counts on concrete object graphs"]
    for rid, text in (("C05.STR", "string cut at the bound, flag = len > bound"),
                      ("C05.SEQ", "sequence children capped before append"),
                      ("C05.DEPTH", "depth cap before children; child depth = parent + 1"),
                      ("C05.BUDGET", "budget check dominates recording and stops the search"),
                      ("C05.QUEUE", "work list is first-in first-out"),
                      ("C05.WIRE", "each limit wired to its own key")):
        res.rule(rid, text)
    p, t = ctx.prog, ctx.types

    # ---------------- STR
    ts = p.func(VP + ".truncate_string")
    rets = list(t.nodes_in(ts, ast.Return))
    need(len(rets) == 1, "truncate_string: expected a single return")
    s, m = P(ts, 0), P(ts, 1)
    r = ctx.expand.expand_nodes(rets[0].value, ts)
    ok = False
    if len(r) == 1 and isinstance(r[0], ast.Tuple) and len(r[0].elts) == 2:
        cut, flag = norm(r[0].elts[0]), norm(r[0].elts[1])
        ok_cut = cut in ("%s[:%s]" % (s, m), "%s[0:%s]" % (s, m))
        ok_flag = flag in ("len(%s) > %s" % (s, m), "%s < len(%s)" % (m, s))
        ok = ok_cut and ok_flag
    if ok:
        res.ok("C05.STR", {"truncate_string": norm(r[0])})
    else:
        res.fail(Finding("C05.STR", ts.qname, rets[0], ts.loc(rets[0]), "truncate_string does not return (string[:max], len(string) > max): %s" % [norm(x) for x in r]))
    pv = p.func(VP + ".process_variable")
    tc = [c for c in t.calls_in(pv) if ts in t.resolve_call(c, pv).repo]
    need(len(tc) == 1, "process_variable: truncate_string call not found")
    lim = ctx.expand.expand(tc[0].args[1], pv) if len(tc[0].args) > 1 else []
    coll = P(pv, 0)
    if len(lim) == 1 and lim[0].startswith(coll) and lim[0].endswith("max_string_length"):
        res.ok("C05.STR", {"bound": lim[0]})
    else:
        res.fail(Finding("C05.STR", pv.qname, tc[0], pv.loc(tc[0]), "the string bound is not the collector's max_string_length: %s" % lim))

    # the text that is cut is a text of the agent's own making (str(...), a format): a value of the program that happens
    # to be a str - an instance of a subclass with its own __len__ / __getitem__ - would be measured and sliced by the
    # program's code, not by the bound
    def exact_text(e, fi, depth=0):
        if isinstance(e, ast.Constant):
            return isinstance(e.value, str)
        if isinstance(e, ast.JoinedStr):
            return True
        if isinstance(e, ast.BinOp) and isinstance(e.op, (ast.Mod, ast.Add)):
            return exact_text(e.left, fi, depth + 1) and (isinstance(e.op, ast.Mod) or exact_text(e.right, fi, depth + 1))
        if isinstance(e, ast.IfExp):
            return exact_text(e.body, fi, depth + 1) and exact_text(e.orelse, fi, depth + 1)
        if isinstance(e, ast.Call):
            if isinstance(e.func, ast.Name) and e.func.id in ("str", "repr", "format", "ascii") and not t.local_bindings(fi, e.func.id):
                return True
            if isinstance(e.func, ast.Attribute) and e.func.attr in ("format", "join") and exact_text(e.func.value, fi, depth + 1):
                return True
            if isinstance(e.func, ast.Attribute) and e.func.attr == "decode" and isinstance(e.func.value, ast.Call) and \
                    isinstance(e.func.value.func, ast.Attribute) and e.func.value.func.attr == "encode":
                return True          # bytes.decode() makes a new plain str
            tg_ = t.resolve_call(e, fi)
            if tg_.repo and not tg_.ext and depth < 5:
                return all(exact_text(r_.value, f_, depth + 1) if r_.value is not None else False
                           for f_ in tg_.repo for r_ in t.nodes_in(f_, ast.Return))
            return False
        if isinstance(e, ast.Name) and depth < 5:
            bs = [b for k, b in t.local_bindings(fi, e.id)]
            vals = [b[1] for b in bs if isinstance(b, tuple) and b[2] is None and b[1] is not None]
            return bool(bs) and len(vals) == len(bs) and all(exact_text(v, fi, depth + 1) for v in vals)
        return False
    if tc[0].args and exact_text(tc[0].args[0], pv):
        res.ok("C05.STR", {"the text that is cut is made by the agent (str / format), never the program's own object": norm(tc[0].args[0])[:60]})
    else:
        res.fail(Finding("C05.STR", pv.qname, tc[0], pv.loc(tc[0]), "the text handed to truncate_string is not always a plain str made by the agent (str(...), a format): "
                         "a value that is an instance of a str subclass is cut and measured by its own __getitem__ / __len__, so the recorded "
                         "text can be longer than the bound and unmarked"))

    # what is stored is the cut text, and the mark is the cut's own
    var_cls = p.cls("deep.api.tracepoint.eventsnapshot.Variable")
    vinit = var_cls.lookup("__init__")
    for c in [c for c in t.calls_in(pv) if var_cls in t.resolve_call(c, pv).ctor]:
        b_ = t.bind_args(vinit, c)
        val = ctx.expand.expand(b_.get("value"), pv) if b_.get("value") is not None else []
        trn = ctx.expand.expand(b_.get("truncated"), pv) if b_.get("truncated") is not None else []
        def cut_(x):
            return ("truncate_string(" in x and x.endswith("[0]")) or re.search(r"\[:[^\]]*max_string_length\]$", x) is not None

        def mark_(x):
            return ("truncate_string(" in x and x.endswith("[1]")) or re.fullmatch(r"len\(.*\) > .*max_string_length", x) is not None
        okv = bool(val) and all(cut_(x) for x in val) and bool(trn) and all(mark_(x) for x in trn)
        if okv:
            res.ok("C05.STR", {"stored value": val[0][:80]})
        else:
            res.fail(Finding("C05.STR", pv.qname, c, pv.loc(c), "the recorded value / truncation mark are not (always) the result of truncate_string: value %s, mark %s - some "
                             "text is stored uncut and unmarked" % ([x[:60] for x in val], [x[:40] for x in trn])))

    # ... and nothing changes the text once it was cut and marked: the table entry keeps the value it is given (an escape
    # applied afterwards makes the stored text longer than the bound, with a mark computed for the shorter one)
    from .common import dataclass_rule
    dataclass_rule(ctx, res, "C05.STR", ["deep.api.tracepoint.eventsnapshot.Variable"], as_given=("value", "truncated"))

    # ---------------- SEQ
    pl = p.func(VP + ".process_list_breadth_first")
    loops = list(t.nodes_in(pl, ast.For))
    comps_ = [c for c in t.nodes_in(pl, ast.ListComp) if len(c.generators) == 1 and enumerate_index(c.generators[0]) is not None]
    if not loops and len(comps_) == 1:
        # [Node(..) for index, element in enumerate(<copy>) if index < limit]: the index of enumerate() counts the elements
        g0 = comps_[0].generators[0]
        idx = enumerate_index(g0)
        bounded = False
        for tst in g0.ifs:
            if isinstance(tst, ast.Compare) and len(tst.ops) == 1:
                l, op, r_ = tst.left, tst.ops[0], tst.comparators[0]
                lt, rt = ctx.expand.expand(l, pl), ctx.expand.expand(r_, pl)
                lim_r = any(x.startswith(P(pl, 0)) and x.endswith("max_collection_size") for x in rt)
                lim_l = any(x.startswith(P(pl, 0)) and x.endswith("max_collection_size") for x in lt)
                if (lim_r and norm(l) == idx and isinstance(op, ast.Lt)) or (lim_l and norm(r_) == idx and isinstance(op, ast.Gt)):
                    bounded = True
        rets_ = [r for r in t.nodes_in(pl, ast.Return)]
        returned = len(rets_) == 1 and (rets_[0].value is comps_[0] or (isinstance(rets_[0].value, ast.Name) and any(
            k == "assign" and b_[1] is comps_[0] for k, b_ in t.local_bindings(pl, rets_[0].value.id))))
        if bounded and returned:
            res.ok("C05.SEQ", {"element kept only while": "%s < max_collection_size (index of enumerate)" % idx})
        else:
            res.fail(Finding("C05.SEQ", pl.qname, comps_[0], pl.loc(comps_[0]), "the elements of a sequence are collected by a comprehension that does not keep exactly those whose "
                             "position is below max_collection_size (filters: %s)" % [norm(x) for x in g0.ifs]))
        loops = None
    else:
        need(len(loops) == 1, "process_list_breadth_first: expected one loop")
    lp = loops[0] if loops else None
    appends = [c for c in ast.walk(lp) if isinstance(c, ast.Call) and isinstance(c.func, ast.Attribute) and c.func.attr == "append"] if lp is not None else []
    need(appends or lp is None, "process_list_breadth_first: no append")
    collp = P(pl, 0)
    sliced = lp is not None and (isinstance(lp.iter, ast.Subscript) or (isinstance(lp.iter, ast.Call) and lp.iter.args and isinstance(lp.iter.args[0], ast.Subscript)))
    for a in appends:
        done = False
        conds = paths.conditions(p, a, pl)
        for test, pol in conds:
            if isinstance(test, ast.Compare) and len(test.ops) == 1:
                l, op, r_ = test.left, test.ops[0], test.comparators[0]
                lt, rt = ctx.expand.expand(l, pl), ctx.expand.expand(r_, pl)
                lim_r = any(x.startswith(collp) and x.endswith("max_collection_size") for x in rt)
                lim_l = any(x.startswith(collp) and x.endswith("max_collection_size") for x in lt)
                # append happens under NOT (counter >= limit)
                cnt = l if lim_r else (r_ if lim_l else None)
                if cnt is None or not isinstance(cnt, ast.Name):
                    continue
                stop_ops = (ast.GtE, ast.Eq) if lim_r else (ast.LtE, ast.Eq)
                if not pol and isinstance(op, stop_ops):
                    # counter: starts at 0, += 1 once per append in the same block
                    inits = [n for n in t.nodes_in(pl, ast.Assign) if norm(n.targets[0]) == cnt.id and not paths.within(p, n, lp)]
                    incs = [n for n in ast.walk(lp) if isinstance(n, ast.AugAssign) and norm(n.target) == cnt.id]
                    good_init = len(inits) == 1 and isinstance(inits[0].value, ast.Constant) and inits[0].value.value == 0
                    good_inc = len(incs) == 1 and isinstance(incs[0].op, ast.Add) and isinstance(incs[0].value, ast.Constant) \
                        and incs[0].value.value == 1 and paths.block_position(p, incs[0])[0] is paths.block_position(p, paths.stmt_of(p, a))[0]
                    if enumerate_index(lp) == cnt.id and not inits and not incs:
                        good_init = good_inc = True      # the index of enumerate(): starts at 0, one step per element
                    if good_init and good_inc:
                        done = True
                        res.ok("C05.SEQ", {"append under": "not (%s)" % norm(test), "counter": cnt.id})
                    else:
                        res.fail(Finding("C05.SEQ", pl.qname, a, pl.loc(a), "the element counter does not start at 0 / is not incremented exactly once per appended element"))
                        done = True
        if not done and sliced:
            up = lp.iter if isinstance(lp.iter, ast.Subscript) else lp.iter.args[0]
            txt = ctx.expand.expand(up.slice.upper, pl) if isinstance(up.slice, ast.Slice) and up.slice.upper is not None else []
            if any(x.startswith(collp) and x.endswith("max_collection_size") for x in txt):
                res.ok("C05.SEQ", {"iterates a slice bounded by": txt[0]})
                done = True
        if not done:
            res.fail(Finding("C05.SEQ", pl.qname, a, pl.loc(a),
                             "a sequence element is appended without the `count >= max_collection_size -> stop` check dominating it "
                             "(conditions: %s)" % [(norm(c), pol) for c, pol in conds]))

    # ---------------- DEPTH
    pc = p.func(VP + ".process_child_nodes")
    finds = [c for c in t.calls_in(pc) if any(x.name == "find_children_for_parent" for x in t.resolve_call(c, pc).repo)]
    need(len(finds) == 1, "process_child_nodes: find_children_for_parent call not found")
    depth_param = P(pc, 3)
    okd = False
    for test, pol in paths.conditions(p, finds[0], pc):
        if isinstance(test, ast.Compare) and len(test.ops) == 1 and not pol:
            lt = ctx.expand.expand(test.left, pc)
            rt = ctx.expand.expand(test.comparators[0], pc)
            if lt == ["%s + 1" % depth_param] and isinstance(test.ops[0], (ast.GtE,)) and \
                    any(x.startswith(P(pc, 0)) and x.endswith("max_var_depth") for x in rt):
                okd = True
            if lt == [depth_param] and isinstance(test.ops[0], ast.GtE) and any(x.endswith("max_var_depth - 1") for x in rt):
                okd = True
    if okd:
        res.ok("C05.DEPTH", {"children only when depth + 1 < max_var_depth": pc.loc(finds[0])})
    else:
        res.fail(Finding("C05.DEPTH", pc.qname, finds[0], pc.loc(finds[0]), "children are produced without the `depth + 1 >= max_var_depth -> none` test dominating it"))
    sf = p.func(VSP + ".search_function")
    pcc = [c for c in t.calls_in(sf) if pc in t.resolve_call(c, sf).repo]
    need(len(pcc) == 1, "search_function: process_child_nodes call not found")
    darg = t.bind_args(pc, pcc[0]).get(pc.params[3])
    node_param = P(sf, 1)
    dtxt = ctx.expand.expand(darg, sf) if darg is not None else []
    if dtxt == ["%s._depth" % node_param]:
        res.ok("C05.DEPTH", {"depth passed": dtxt[0]})
    else:
        res.fail(Finding("C05.DEPTH", sf.qname, pcc[0], sf.loc(pcc[0]), "the depth handed to process_child_nodes is not the node's depth: %s" % dtxt))
    node = p.cls(BFS + ".Node")
    dst = t.field_stores(node, "_depth")
    ext_writes = []
    for f in p.functions.values():
        for n in t.nodes_in(f, (ast.Assign, ast.AugAssign)):
            tgts = n.targets if isinstance(n, ast.Assign) else [n.target]
            for tg in tgts:
                if isinstance(tg, ast.Attribute) and tg.attr == "_depth" and not (isinstance(tg.value, ast.Name) and tg.value.id == "self"):
                    ext_writes.append((f, n))
    ac = p.func(BFS + ".Node.add_children")
    good = [x for x in ext_writes if x[0] is ac and isinstance(x[1], ast.Assign) and
            (norm(x[1].value) == "self._depth + 1" or ctx.expand.expand(x[1].value, ac) in (["@self._depth + 1"], ["1 + @self._depth"]))]
    init_ok = all(sf_.name == "__init__" and isinstance(v, ast.Constant) and v.value == 0 for sf_, v, _ in dst)
    if len(good) == 1 and len(ext_writes) == 1 and init_ok:
        lpn = [l for l in paths.enclosing_loops(p, good[0][1], ac)]
        apps = [c for c in t.calls_in(ac) if isinstance(c.func, ast.Attribute) and c.func.attr == "append" and lpn and paths.within(p, c, lpn[0])]
        if not apps and lpn:
            # the bound method held in a local first: `append = self._children.append` ... `append(child)`
            for c in t.calls_in(ac):
                if isinstance(c.func, ast.Name) and paths.within(p, c, lpn[0]):
                    lb_ = t.local_bindings(ac, c.func.id)
                    if len(lb_) == 1 and lb_[0][0] == "assign" and isinstance(lb_[0][1][1], ast.Attribute) and lb_[0][1][1].attr == "append" \
                            and not paths.enclosing_loops(p, lb_[0][1][1], ac):
                        apps.append(c)
        if lpn and apps and norm(apps[0].args[0]) == norm(lpn[0].target) and norm(good[0][1].targets[0].value) == norm(lpn[0].target):
            res.ok("C05.DEPTH", {"child depth": "parent depth + 1", "children kept in order": norm(apps[0])})
        else:
            res.fail(Finding("C05.DEPTH", ac.qname, good[0][1], ac.loc(good[0][1]), "add_children does not append every child (in order) with depth parent+1"))
    else:
        res.fail(Finding("C05.DEPTH", ac.qname, "<child._depth = self._depth + 1>", ac.loc(),
                         "node depth is not `parent depth + 1` set only by add_children (writes: %s)" % [(f.qname, norm(n)) for f, n in ext_writes]))

    # ---------------- BUDGET
    cv = p.func(VSP + ".check_var_count")
    tb = Table(ctx, cv)
    SIZE = term(ctx, cv, "self._VariableSetProcessor__var_cache.size") if False else None
    size_alts = ctx.expand.expand(ast.parse("self.__var_cache.size", mode="eval").body, cv)
    rels = list(tb.vars.rels)
    if len(rels) != 1:
        res.fail(Finding("C05.BUDGET", cv.qname, "<cache size ? max_variables>", cv.loc(), "the budget check compares %d pairs of quantities (expected: number of "
                         "cached variables against max_variables): the number of variables in a snapshot is not bounded" % len(rels)))
    else:
        a, b = rels[0]
        size_t = a if "len(" in a or "size" in a or "cache" in a else b
        max_t = b if size_t == a else a
        if not max_t.endswith("max_variables"):
            res.fail(Finding("C05.BUDGET", cv.qname, "<size ? max_variables>", cv.loc(), "the budget check does not compare against max_variables: %s vs %s" % (a, b)))
        rv = Vars(); rv.rel(size_t, max_t, True)

        def refb(w):
            rel = w.relation(size_t, max_t)
            if rel == "GT":
                return False
            if rel == "LT":
                return True
            return lambda got: got[0] == "return" and got[1] in (True, False)
        table_rule(res, "C05.BUDGET", tb, rv, refb, "budget check false when cache size > max_variables, true when below")
        from .common import identity_cache_field
        if identity_cache_field(ctx) in size_t and size_t.startswith("len("):
            res.ok("C05.BUDGET", {"size counted": size_t})
        else:
            res.fail(Finding("C05.BUDGET", cv.qname, size_t, cv.loc(), "the budget counts `%s`, not the number of cached variables" % size_t))
    gate = [c for c in t.calls_in(sf) if cv in t.resolve_call(c, sf).repo]
    recs = [c for c in t.calls_in(sf) if any(x.qname == VP + ".process_variable" for x in t.resolve_call(c, sf).repo)]
    if len(recs) != 1 or paths.enclosing_loops(p, recs[0], sf):
        res.fail(Finding("C05.QUEUE", sf.qname, recs[1] if len(recs) > 1 else (recs[0] if recs else "<process_variable(node)>"),
                         sf.loc(recs[1]) if len(recs) > 1 else sf.loc(),
                         "the search consumer records %d variables per visited node (or records in a loop): values are recorded when "
                         "their parent is visited instead of in queue order, so deeper variables are recorded before the remaining "
                         "shallower ones" % len(recs)))
        return res
    rec_arg = ctx.expand.expand(recs[0].args[1], sf) if len(recs[0].args) > 1 else []
    if rec_arg == ["%s._value" % P(sf, 1)]:
        res.ok("C05.QUEUE", {"consumer records exactly the visited node": rec_arg[0]})
    else:
        res.fail(Finding("C05.QUEUE", sf.qname, recs[0], sf.loc(recs[0]), "the search consumer records `%s`, not the value of the node it was handed" % rec_arg))
    addc = [c for c in t.calls_in(sf) if any(x.qname == BFS + ".Node.add_children" for x in t.resolve_call(c, sf).repo)]
    pcn = [c for c in t.calls_in(sf) if pc in t.resolve_call(c, sf).repo]
    ok_add = False
    if len(addc) == 1 and len(pcn) == 1 and addc[0].args:
        a_txt = ctx.expand.expand_nodes(addc[0].args[0], sf)
        same_conds = [norm(c) for c, pol in paths.conditions(p, addc[0], sf)] == [norm(c) for c, pol in paths.conditions(p, pcn[0], sf)]
        ok_add = len(a_txt) == 1 and isinstance(a_txt[0], ast.Call) and "process_child_nodes" in norm(a_txt[0].func) and same_conds \
            and norm(addc[0].func.value) == sf.params[1]
    if ok_add:
        res.ok("C05.QUEUE", {"all children queued on the visited node": norm(addc[0])})
    else:
        res.fail(Finding("C05.QUEUE", sf.qname, addc[0] if addc else "<node.add_children(children)>", sf.loc(),
                         "the children found for a node are not all handed to node.add_children (some are recorded or dropped outside the queue)"))
    conds = paths.conditions(p, recs[0], sf)
    okg = False
    for test, pol in conds:
        inner = test.operand if isinstance(test, ast.UnaryOp) and isinstance(test.op, ast.Not) else test
        negated = inner is not test
        if gate and inner is gate[0] and (pol != negated):
            okg = True
        # the answer of the budget check named first: `within_budget = self.check_var_count()` ... `if not within_budget: return False`
        if gate and isinstance(inner, ast.Name) and (pol != negated):
            lb_ = t.local_bindings(sf, inner.id)
            if len(lb_) == 1 and lb_[0][0] == "assign" and lb_[0][1][1] is gate[0]:
                okg = True
    if not gate:
        res.fail(Finding("C05.BUDGET", sf.qname, recs[0], sf.loc(recs[0]), "a variable is recorded without any budget check in the search consumer"))
        return res
    if okg:
        res.ok("C05.BUDGET", {"recording dominated by budget check": sf.loc(gate[0])})
    else:
        res.fail(Finding("C05.BUDGET", sf.qname, recs[0], sf.loc(recs[0]), "a variable is recorded without the budget check holding"))
    stmt = paths.stmt_of(p, gate[0])
    if isinstance(stmt, ast.Assign) and isinstance(stmt.targets[0], ast.Name):
        # ... the decision is the `if` on that name
        ifs_ = [n for n in t.nodes_in(sf, ast.If) if any(isinstance(x, ast.Name) and x.id == stmt.targets[0].id for x in ast.walk(n.test))]
        stmt = ifs_[0] if len(ifs_) == 1 else stmt
    stop_ret = [n for n in ast.walk(stmt) if isinstance(n, ast.Return)] if isinstance(stmt, ast.If) else []
    if stop_ret and all(isinstance(r_.value, ast.Constant) and r_.value.value is False for r_ in stop_ret):
        res.ok("C05.BUDGET", {"exhausted budget -> consumer returns False": sf.loc(stop_ret[0])})
    else:
        res.fail(Finding("C05.BUDGET", sf.qname, stmt, sf.loc(stmt), "an exhausted budget does not make the search consumer return False"))
    # ... and nothing else does: a falsy answer ends the whole search, so every other way out of the consumer answers True (a
    # path that falls off the end - None - or answers False for a value seen before drops everything still queued)
    stop_ids = {id(r_) for r_ in stop_ret}
    sft = Table(ctx, sf)
    for r_ in sft.rows:
        if r_.kind == "return" and id(r_.node) in stop_ids:
            continue
        falsy = r_.kind == "fall" or (r_.kind == "return" and isinstance(r_.result, ast.Constant) and not r_.result.value)
        if falsy:
            res.fail(Finding("C05.BUDGET", sf.qname, r_.node if isinstance(r_.node, ast.stmt) else "<end of %s>" % sf.name, sf.loc(r_.node) if isinstance(r_.node, ast.AST) else sf.loc(),
                             "the search consumer answers %s on a path where the budget is not exhausted (%s): breadth_first_search takes that for `stop`, and every variable still "
                             "queued - later locals, unexpanded containers - is dropped" % ("None (no return)" if r_.kind == "fall" else norm(r_.result), " and ".join(
                                 ("" if pol else "not ") + norm(c_)[:40] for c_, pol in r_.conds)[:160] or "always")))
            break
    else:
        res.ok("C05.BUDGET", {"only the exhausted budget ends the search": len(sft.rows)})
    bfs = p.func(BFS + ".breadth_first_search")
    cons = [c for c in t.calls_in(bfs) if isinstance(c.func, ast.Name) and c.func.id == bfs.params[1]]
    need(len(cons) == 1, "breadth_first_search: consumer call not found")
    cstmt = paths.stmt_of(p, cons[0])
    flag = norm(cstmt.targets[0]) if isinstance(cstmt, ast.Assign) else None
    stops = False
    whiles = list(t.nodes_in(bfs, ast.While))
    need(len(whiles) == 1, "breadth_first_search: expected one while loop")
    for n in ast.walk(whiles[0]):
        if isinstance(n, (ast.Return, ast.Break)):
            for test, pol in paths.conditions(p, n, bfs):
                if (flag and norm(test) == flag and not pol) or (flag and norm(test) == "not " + flag and pol) or \
                        (test is cons[0] and not pol):
                    stops = True
    if stops:
        res.ok("C05.BUDGET", {"consumer False stops the whole search": True})
    else:
        res.fail(Finding("C05.BUDGET", bfs.qname, cstmt, bfs.loc(cstmt), "a False result of the consumer does not stop the search (budget overrun continues with other nodes)"))

    # ---------------- QUEUE
    q = None
    for n in t.nodes_in(bfs, ast.Assign):
        if isinstance(n.value, (ast.List, ast.Call)) and isinstance(n.targets[0], ast.Name) and not paths.within(p, n, whiles[0]):
            q = n.targets[0].id
    need(q, "breadth_first_search: work list not found")
    takes, puts = [], []
    for n in ast.walk(whiles[0]):
        if isinstance(n, ast.Call) and isinstance(n.func, ast.Attribute) and norm(n.func.value) == q:
            if n.func.attr in ("pop", "popleft"):
                takes.append(n)
            elif n.func.attr in ("extend", "append", "insert", "appendleft", "extendleft"):
                puts.append(n)
        elif isinstance(n, ast.AugAssign) and norm(n.target) == q:
            puts.append(n)
        elif isinstance(n, ast.Assign) and norm(n.targets[0]) == q:
            puts.append(n)
    need(takes and puts, "breadth_first_search: consumption/production of the work list not found")

    def front(tk):
        if tk.func.attr == "popleft":
            return True
        return bool(tk.args) and isinstance(tk.args[0], ast.Constant) and tk.args[0].value == 0

    def back(pt):
        if isinstance(pt, ast.AugAssign):
            return isinstance(pt.op, ast.Add)
        if isinstance(pt, ast.Assign):
            v = pt.value
            return isinstance(v, ast.BinOp) and isinstance(v.op, ast.Add) and norm(v.left) == q
        return pt.func.attr in ("extend", "append")
    for tk in takes:
        if front(tk):
            res.ok("C05.QUEUE", {"consumes oldest": norm(tk)})
        else:
            res.fail(Finding("C05.QUEUE", bfs.qname, tk, bfs.loc(tk),
                             "the work list is consumed from the end while children are appended at the end: the search is depth-first, "
                             "so one large structure uses up the variable budget before the frame's other locals are recorded"))
    for pt in puts:
        if back(pt):
            res.ok("C05.QUEUE", {"children appended at the back": norm(pt)})
        else:
            res.fail(Finding("C05.QUEUE", bfs.qname, pt, bfs.loc(pt), "children are not appended in order at the back of the work list"))

    # ---------------- WIRE
    snap = p.cls("deep.processor.context.snapshot_action.SnapshotActionContext")
    cc = snap.lookup("collection_config")
    need(cc is not None, "SnapshotActionContext.collection_config not found")
    wired = 0
    for n in t.nodes_in(cc, ast.Assign):
        tg = n.targets[0]
        if isinstance(tg, ast.Attribute) and tg.attr.startswith("max_"):
            wired += 1
            src = ctx.expand.expand(n.value, cc)
            key = "'%s'" % tg.attr.upper()
            dflt = "DEFAULT_%s" % tg.attr.upper()
            srcn = ctx.expand.expand_nodes(n.value, cc)
            subst = [x for sn in srcn for x in _truth_substitution(sn, key)]
            if subst:
                res.fail(Finding("C05.WIRE", cc.qname, n, cc.loc(n), "limit %s: the configured value is replaced when it is falsy (`%s`): a limit "
                                 "configured as 0 silently becomes the default" % (tg.attr, norm(subst[0])[:100])))
            elif len(src) == 1 and key in src[0] and dflt in src[0]:
                res.ok("C05.WIRE", {tg.attr: src[0]})
            else:
                res.fail(Finding("C05.WIRE", cc.qname, n, cc.loc(n), "limit %s is not read from key %s with its own default: %s" % (tg.attr, key, src)))
    # the limits of one collection are written into an object made for it: a configuration object kept on the class / module
    # and filled in again is one object for every collection going on, so a collection in progress on another thread reads
    # the limits of the tracepoint that asked last
    bases_ = {tg_.value.id for n in t.nodes_in(cc, ast.Assign) for tg_ in [n.targets[0]]
              if isinstance(tg_, ast.Attribute) and tg_.attr.startswith("max_") and isinstance(tg_.value, ast.Name)}
    for b_ in sorted(bases_):
        binds_ = t.local_bindings(cc, b_)
        fresh_ = bool(binds_) and all(k_ == "assign" and isinstance(v_[1], ast.Call) and t.resolve_call(v_[1], cc).ctor for k_, v_ in binds_)
        if fresh_:
            res.ok("C05.WIRE", {"limits written into an object created by this call": b_})
        else:
            bad_ = [v_[1] for k_, v_ in binds_ if k_ == "assign" and v_[1] is not None]
            res.fail(Finding("C05.WIRE", cc.qname, bad_[0] if bad_ else b_, cc.loc(bad_[0]) if bad_ else cc.loc(), "the limits are written into `%s`, which is not an object created by this call (`%s`): "
                             "collections in progress share it and pick up one another's limits" % (b_, norm(bad_[0])[:50] if bad_ else "?")))
    if not bases_:
        res.fail(Finding("C05.WIRE", cc.qname, "<config.max_* = ...>", cc.loc(), "the limits are not written into a local configuration object"))
    wired_names = {n.targets[0].attr for n in t.nodes_in(cc, ast.Assign) if isinstance(n.targets[0], ast.Attribute) and n.targets[0].attr.startswith("max_")}
    for lim in ("max_string_length", "max_collection_size", "max_variables", "max_var_depth"):
        if lim not in wired_names:
            res.fail(Finding("C05.WIRE", cc.qname, "<config.%s = ...>" % lim, cc.loc(), "the limit %s of a tracepoint is never applied to the collector configuration (the default always applies)" % lim))
    res.floor("collector limits wired", wired, 3)
    vsp = p.cls(VSP)
    for prop in ("max_string_length", "max_collection_size", "max_var_depth"):
        g_ = vsp.lookup(prop)
        need(g_ is not None, "VariableSetProcessor.%s not found" % prop)
        txt = term(ctx, g_, "self." + prop)
        if txt.endswith("__config." + prop):
            res.ok("C05.WIRE", {prop: txt})
        else:
            res.fail(Finding("C05.WIRE", g_.qname, txt, g_.loc(), "collector property %s does not return its own configuration field" % prop))
    cfgc = p.cls("deep.processor.variable_set_processor.VariableProcessorConfig")
    init = cfgc.lookup("__init__")
    for sf_, v, _ in [x for f in ("max_var_depth", "max_collection_size", "max_variables", "max_string_length") for x in t.field_stores(cfgc, f) if x[0] is init]:
        st = paths.stmt_of(p, v)
        if norm(st.targets[0]) == "self." + norm(v):
            res.ok("C05.WIRE", {"ctor": norm(st)})
        else:
            res.fail(Finding("C05.WIRE", init.qname, st, init.loc(st), "configuration constructor stores a limit into the wrong field"))
    # one breadth-first search per frame: all locals are siblings of a single search, so that a deep local
    # cannot use up the budget before the next local has been looked at
    fc = p.func("deep.processor.frame_collector.FrameCollector._process_frame")
    pvc = [c for c in t.calls_in(fc) if any(x.name == "process_variable" and x.cls is not None and x.cls.qname == VSP for x in t.resolve_call(c, fc).repo)]
    need(pvc, "_process_frame: process_variable call not found")
    for c in pvc:
        loops_ = paths.enclosing_loops(p, c, fc)
        val = ctx.expand.expand(c.args[1], fc) if len(c.args) > 1 else []
        if loops_:
            res.fail(Finding("C05.QUEUE", fc.qname, c, fc.loc(c), "the frame's locals are searched one by one (a search per local) instead of as siblings of one "
                             "breadth-first search: the first local's subtree is collected before the next local is looked at"))
        elif val != ["%s.f_locals" % P(fc, 3)]:
            res.fail(Finding("C05.QUEUE", fc.qname, c, fc.loc(c), "the frame search does not start from the frame's whole locals mapping: %s" % val))
        else:
            res.ok("C05.QUEUE", {"one search per frame over": val[0]})
    vs = [c for c in t.calls_in(fc) if any(k.qname == VSP for k in t.resolve_call(c, fc).ctor)]
    need(len(vs) == 1, "_process_frame: VariableSetProcessor construction not found")
    carg = t.bind_args(vsp.lookup("__init__"), vs[0]).get("config")
    ctxt = ctx.expand.expand(carg, fc) if carg is not None else []
    if ctxt and ctxt[0].endswith("collection_config"):
        res.ok("C05.WIRE", {"frame collector uses": ctxt[0]})
    else:
        res.fail(Finding("C05.WIRE", fc.qname, vs[0], fc.loc(vs[0]), "the frame collector does not pass the action's collection_config to the variable processor (defaults are used): %s" % ctxt))
    from .common import borrow
    borrow(ctx, res, tier, "c07", ("C07.CHILD",), "C05.ONCE", "a value that was recorded before is referred to, not expanded again (shared and cyclic data cost no second round of children: the work stays inside the budget)")
    # the values a search starts from are at depth 0: they are handed to the root through the Node constructor (which leaves
    # their depth alone), not through add_children (which counts them one level down - every limit then cuts a level early)
    nroots = 0
    for f_ in p.functions.values():
        for c_ in t.calls_in(f_):
            if not any(g_.name == "breadth_first_search" for g_ in t.resolve_call(c_, f_).repo) or not c_.args:
                continue
            nroots += 1
            root = c_.args[0]
            rname = root.id if isinstance(root, ast.Name) else None
            shifted = [x for x in t.calls_in(f_) if isinstance(x.func, ast.Attribute) and x.func.attr == "add_children" and rname is not None and norm(x.func.value) == rname]
            if shifted:
                res.fail(Finding("C05.DEPTH", f_.qname, shifted[0], f_.loc(shifted[0]), "the start values are attached to the search root with add_children: they begin at depth 1 instead of 0, "
                                 "so everything is counted one level too deep and max_var_depth cuts a level early"))
            else:
                res.ok("C05.DEPTH", {"search starts at depth 0": f_.qname})
    res.floor("breadth-first searches started", nroots, 1)
    from .common import borrow
    borrow(ctx, res, tier, "c02", ("C02.CHILD",), "C05.SEQ", "the children of a sequence are its first elements up to the limit, each once, under its own index")
    return res
