"""C08 wire fidelity and auth - see DESIGN.md section 4 (C08)."""
import ast
import os
import importlib

from .common import Ctx, Finding, Result, need, term, P, TRUSTED_LOGGING
from .c03 import table_rule
from ..index import norm
from ..dtable import Table, Vars
from .. import paths

PUSH = "deep.push"
GRPC = "deep.grpc"
# proto field -> attribute of the internal model object that must feed it (default: same name)
FIELD_SOURCE = {"ID": ("id", "vid"), "line_number": ("line_no", "line_number"), "good_result": ("result",), "error_result": ("error",),
                "dropped_attributes_count": ("dropped",), "attributes": ("attributes", "items"), "resource": ("resource",)}
NOT_PRODUCED = {
    "StackFrame.native_frame": "python frames are never native frames",
    "WatchResult.from_metric": "metric expressions are not reported as watches by this client",
    "TracePointConfig.targeting": "targeting is evaluated by the service, not echoed back",
    "TracePointConfig.metrics": "metric definitions are not echoed back in the snapshot",
}
MODEL_EXCLUDED = {"EventSnapshot.id_str": "hex form of id, derived", "TracePointConfig.frame_type": "derived from args",
                  "TracePointConfig.stack_type": "derived from args", "TracePointConfig.fire_count": "derived from args",
                  "TracePointConfig.condition": "derived from args"}


def descriptor_of(ext: str):
    """Message descriptor for an external constructor name like deepproto....tracepoint_pb2.Snapshot."""
    mod, _, cls = ext.rpartition(".")
    try:
        m = importlib.import_module(mod)
        d = getattr(m, cls).DESCRIPTOR
        return d if hasattr(d, "fields") else None
    except Exception:
        return None


def attrs_read(e: ast.expr, src: str, with_container: bool = False):
    """Attribute names read from the name `src` inside e: the attribute read directly, or - when that is the attribute
    container (`src.attributes.dropped`, `src.attributes.items()`) - what is read from the container."""
    out = []
    parent = {}
    for n in ast.walk(e):
        for ch in ast.iter_child_nodes(n):
            parent[id(ch)] = n
    for n in ast.walk(e):
        if isinstance(n, ast.Attribute) and isinstance(n.value, ast.Name) and n.value.id == src:
            up = parent.get(id(n))
            if n.attr == "attributes" and isinstance(up, ast.Attribute) and up.value is n:
                out.append(up.attr)
                if with_container:
                    out.append(n.attr)
            else:
                out.append(n.attr)
    return out


def _fold_int(ctx, fi, e, depth=0):
    """integer value of a constant expression (2 ** 63, -2 ** 63, 2 ** 63 - 1, a module-level constant), or None"""
    if depth > 5:
        return None
    if isinstance(e, ast.Constant) and isinstance(e.value, int) and not isinstance(e.value, bool):
        return e.value
    if isinstance(e, ast.UnaryOp) and isinstance(e.op, ast.USub):
        v = _fold_int(ctx, fi, e.operand, depth + 1)
        return None if v is None else -v
    if isinstance(e, ast.BinOp) and isinstance(e.op, (ast.Pow, ast.Add, ast.Sub, ast.Mult, ast.LShift)):
        a, b = _fold_int(ctx, fi, e.left, depth + 1), _fold_int(ctx, fi, e.right, depth + 1)
        if a is None or b is None or (isinstance(e.op, (ast.Pow, ast.LShift)) and not 0 <= b <= 128):
            return None
        return {ast.Pow: lambda: a ** b, ast.Add: lambda: a + b, ast.Sub: lambda: a - b, ast.Mult: lambda: a * b, ast.LShift: lambda: a << b}[type(e.op)]()
    if isinstance(e, ast.Name) and not ctx.types.local_bindings(fi, e.id):
        r = ctx.prog.resolve_name_in_module(fi.module, e.id)
        if r and r[0] == "const":
            return _fold_int(ctx, r[1], r[1].consts.get(r[2]), depth + 1) if hasattr(r[1], "consts") and r[1].consts.get(r[2]) is not None and False else \
                _fold_int_mod(ctx, r[1], r[1].consts.get(r[2]), depth + 1)
    return None


def _fold_int_mod(ctx, mod, e, depth):
    class _F:          # a module stands in for the function when a constant refers to another constant
        module = mod
    fake = _F()
    if e is None:
        return None
    if isinstance(e, ast.Name):
        r = ctx.prog.resolve_name_in_module(mod, e.id)
        return _fold_int_mod(ctx, r[1], r[1].consts.get(r[2]), depth + 1) if r and r[0] == "const" and depth < 5 else None
    if isinstance(e, ast.Constant) and isinstance(e.value, int) and not isinstance(e.value, bool):
        return e.value
    if isinstance(e, ast.UnaryOp) and isinstance(e.op, ast.USub):
        v = _fold_int_mod(ctx, mod, e.operand, depth + 1)
        return None if v is None else -v
    if isinstance(e, ast.BinOp) and isinstance(e.op, (ast.Pow, ast.Add, ast.Sub, ast.Mult, ast.LShift)):
        a, b = _fold_int_mod(ctx, mod, e.left, depth + 1), _fold_int_mod(ctx, mod, e.right, depth + 1)
        if a is None or b is None or (isinstance(e.op, (ast.Pow, ast.LShift)) and not 0 <= b <= 128):
            return None
        return {ast.Pow: lambda: a ** b, ast.Add: lambda: a + b, ast.Sub: lambda: a - b, ast.Mult: lambda: a * b, ast.LShift: lambda: a << b}[type(e.op)]()
    return None


def _int64_test(ctx, fi, conds):
    """True: the conditions confine the value to the signed 64 bit range; False: they test the size of the value but admit
    integers outside of it; None: no size test recognised (the caller falls back to its structural reading)."""
    lo, hi = None, None
    seen = False
    for c_ in conds:
        for n in ast.walk(c_):
            if not isinstance(n, ast.Compare):
                continue
            terms = [n.left] + list(n.comparators)
            # value.bit_length() < N / <= N
            if len(n.ops) == 1 and isinstance(n.left, ast.Call) and isinstance(n.left.func, ast.Attribute) and n.left.func.attr == "bit_length":
                b = _fold_int(ctx, fi, n.comparators[0])
                if b is not None and isinstance(n.ops[0], (ast.Lt, ast.LtE)):
                    seen = True
                    bits = b - 1 if isinstance(n.ops[0], ast.Lt) else b
                    lo, hi = -(2 ** bits) + 1, 2 ** bits - 1
                continue
            vals = [_fold_int(ctx, fi, x) for x in terms]
            for i, op in enumerate(n.ops):
                a, b = vals[i], vals[i + 1]
                if a is not None and b is None and isinstance(op, (ast.Lt, ast.LtE)):       # a <(=) value
                    seen = True
                    lo = max(lo, a + (1 if isinstance(op, ast.Lt) else 0)) if lo is not None else a + (1 if isinstance(op, ast.Lt) else 0)
                elif a is None and b is not None and isinstance(op, (ast.Lt, ast.LtE)):     # value <(=) b
                    seen = True
                    hi = min(hi, b - (1 if isinstance(op, ast.Lt) else 0)) if hi is not None else b - (1 if isinstance(op, ast.Lt) else 0)
                elif a is not None and b is None and isinstance(op, (ast.Gt, ast.GtE)):     # a >(=) value
                    seen = True
                    hi = min(hi, a - (1 if isinstance(op, ast.Gt) else 0)) if hi is not None else a - (1 if isinstance(op, ast.Gt) else 0)
                elif a is None and b is not None and isinstance(op, (ast.Gt, ast.GtE)):     # value >(=) b
                    seen = True
                    lo = max(lo, b + (1 if isinstance(op, ast.Gt) else 0)) if lo is not None else b + (1 if isinstance(op, ast.Gt) else 0)
    if not seen:
        return None
    return lo is not None and hi is not None and lo >= -2 ** 63 and hi <= 2 ** 63 - 1



def _not_as_held(e):
    """None when expression e (origin-expanded) passes values on unchanged; else what it does to them"""
    for n in ast.walk(e):
        if isinstance(n, (ast.BinOp, ast.UnaryOp, ast.BoolOp, ast.Compare, ast.JoinedStr)):
            return "computes `%s`" % norm(n)[:50]
        if isinstance(n, ast.Subscript) and isinstance(n.ctx, ast.Load):
            if norm(n.value).startswith(("deep.push.", "deep.grpc.")) and norm(n.value).count(".") == 2:
                continue        # a module-level table of the converters (enum names)
            return "takes a part `%s`" % norm(n)[:50]
        if isinstance(n, ast.Call):
            f = norm(n.func)
            if f.startswith("deepproto.") or f.startswith("deep.grpc.") or f.startswith("deep.push.") or f in ("list", "dict", "tuple", "str", "bool"):
                continue
            if isinstance(n.func, ast.Name) and (f.startswith("__convert") or f.startswith("convert_") or f.startswith("_convert")):
                continue        # a converter of the same module named without its module (inside a comprehension)
            if isinstance(n.func, ast.Attribute) and n.func.attr in ("items", "values", "keys", "Value", "copy") and len(n.args) <= 1:
                continue
            if isinstance(n.func, ast.Attribute) and n.func.attr == "to_bytes":
                a_ = [norm(x) for x in n.args] + ["%s=%s" % (k.arg, norm(k.value)) for k in n.keywords]
                if a_ in (["16", "'big'"], ["16", "byteorder='big'"], ["length=16", "byteorder='big'"]):
                    continue
                return "encodes the id as `%s` (the service expects the 16 bytes of the id, leading zero bytes included)" % norm(n)[-50:]
            return "passes it through `%s`" % f[:50]
    return None

def _inline_locals(t, fi, e, depth=0):
    """e with every local that is assigned exactly once (a plain `name = <expr>`) replaced by that expression: a comprehension
    or an alias given a name first reads like the expression written in place"""
    if depth > 4:
        return e
    import copy

    class T(ast.NodeTransformer):
        def visit_Name(self, n):
            if not isinstance(n.ctx, ast.Load):
                return n
            bs = t.local_bindings(fi, n.id)
            if len(bs) == 1 and bs[0][0] == "assign" and isinstance(bs[0][1], tuple) and bs[0][1][2] is None and bs[0][1][1] is not None:
                return _inline_locals(t, fi, copy.deepcopy(bs[0][1][1]), depth + 1)
            return n
    if not any(isinstance(n, ast.Name) and t.local_bindings(fi, n.id) and t.local_bindings(fi, n.id)[0][0] == "assign" for n in ast.walk(e)):
        return e
    new = T().visit(copy.deepcopy(e))
    ast.copy_location(new, e)
    ast.fix_missing_locations(new)
    return new


def run(ctx: Ctx, tier: str) -> Result:
    res = Result("C08")
    res.explanation = (
        "Reader/writer agreement between the protobuf schema (descriptors shipped in the deep-proto wheel) and the "
        "converters: every keyword of every message construction is a field of that message, every field is set or "
        "listed as not produced (with reason), every field is fed from the like-named attribute of the one source "
        "object, containers are converted element-wise without filter, and every public property of the internal "
        "model is consumed. Type-domain agreement: the value types the attribute store can hold are all handled by "
        "convert_value, subclasses before superclasses, each arm using the keyword of its own type. Watch source "
        "constants equal the enum names. Every stub call passes metadata=GRPCService.metadata(), which returns the "
        "auth provider's metadata whenever a provider is configured.")
    res.trusted = [TRUSTED_LOGGING, "protobuf descriptors of the installed deep-proto wheel (schema data, not repository code)"]
    res.not_decided = ["byte-level round trip; encodability of text that does not come from values (file / function names of code objects, plugin attributes)",
                       "reception by the service; retries inside grpc"]
    for rid, text in (("C08.SCHEMA", "message constructions agree with the protobuf schema and the model"),
                      ("C08.TYPES", "attribute value types all convertible; subclass arms first"),
                      ("C08.SOURCE", "watch source constants equal the WatchSource enum names"),
                      ("C08.AUTH", "every request carries the auth provider's metadata")):
        res.rule(rid, text)
    p, t, g = ctx.prog, ctx.types, ctx.guards

    # ---------------- SCHEMA
    nctor = 0
    consumed = {}
    for fi in p.functions.values():
        if fi.module.name not in (PUSH, GRPC, "deep.poll.poll"):
            continue
        src = fi.params[0] if fi.params else None
        for call in t.calls_in(fi):
            exts = [e for e in t.resolve_call(call, fi).ext if e.startswith("deepproto.") and "_pb2." in e]
            if not exts:
                continue
            d = descriptor_of(exts[0])
            if d is None:
                continue
            nctor += 1
            mname = d.name
            fields = [f.name for f in d.fields]
            kws = {k.arg: k.value for k in call.keywords if k.arg}
            for k in call.keywords:
                # Message(**fields) with `fields = {'name': value, ...}` written out just before
                if k.arg is None:
                    dv = _inline_locals(t, fi, k.value)
                    if isinstance(dv, ast.Dict) and all(isinstance(kk, ast.Constant) and isinstance(kk.value, str) for kk in dv.keys):
                        kws.update({kk.value: vv for kk, vv in zip(dv.keys, dv.values)})
            for k in kws:
                if k not in fields:
                    res.fail(Finding("C08.SCHEMA", fi.qname, call, fi.loc(call), "%s has no field `%s`" % (mname, k)))
            if call.args:
                res.fail(Finding("C08.SCHEMA", fi.qname, call, fi.loc(call), "%s constructed with positional arguments" % mname))
            if mname in ("AnyValue",):
                if len(kws) == 1:
                    res.ok("C08.SCHEMA")
                continue
            for f in fields:
                if f in kws:
                    continue
                if "%s.%s" % (mname, f) in NOT_PRODUCED:
                    res.ok("C08.SCHEMA", {"message": mname, "field": f, "not produced": NOT_PRODUCED["%s.%s" % (mname, f)]})
                else:
                    res.fail(Finding("C08.SCHEMA", fi.qname, f, fi.loc(call), "field %s.%s is never set: that part of the snapshot does not reach the service" % (mname, f)))
            if src is None or mname in ("KeyValue", "KeyValueList", "ArrayValue", "PollRequest"):
                continue
            for k, v in kws.items():
                v = _inline_locals(t, fi, v)
                reads = attrs_read(v, src)
                consumed.setdefault(fi.qname, set()).update(attrs_read(v, src, with_container=True))
                want = FIELD_SOURCE.get(k, (k,))
                if reads and all(r in want or (k in ("attributes", "resource") and r in ("attributes", "resource")) for r in reads):
                    # containers: element-wise, no filter
                    comps = [n for n in ast.walk(v) if isinstance(n, (ast.ListComp, ast.GeneratorExp, ast.DictComp))]
                    helper_filter = None
                    if isinstance(v, ast.Call) and not comps:
                        # a repeated field handed to a helper: the helper converts element by element, nothing skipped
                        for h_ in t.resolve_call(v, fi).repo:
                            hcomps = [n for n in t.nodes_in(h_) if isinstance(n, (ast.ListComp, ast.GeneratorExp, ast.DictComp))]
                            hloops = list(t.nodes_in(h_, ast.For))
                            if any(g_.ifs for c_ in hcomps for g_ in c_.generators):
                                helper_filter = (h_, hcomps[0])
                            for lp in hloops:
                                from .. import paths as _paths
                                adds = [n for n in ast.walk(lp) if (isinstance(n, ast.Call) and isinstance(n.func, ast.Attribute) and n.func.attr in ("append", "add", "extend"))
                                        or (isinstance(n, ast.Subscript) and isinstance(n.ctx, ast.Store))]
                                # conditions that stand inside the loop
                                cond = [n for n in adds if [c_ for c_, _pol in _paths.conditions(p, _paths.stmt_of(p, n), h_)
                                                            if lp.lineno <= getattr(c_, "lineno", 0)]]
                                skips = [n for n in ast.walk(lp) if isinstance(n, (ast.Continue, ast.Break))]
                                if cond or skips or not adds:
                                    helper_filter = (h_, (cond or skips or [lp])[0])
                    if helper_filter:
                        res.fail(Finding("C08.SCHEMA", helper_filter[0].qname, helper_filter[1], helper_filter[0].loc(helper_filter[1]),
                                         "%s.%s is converted by a helper that skips elements (`%s`): some of what the snapshot holds never reaches the service" % (
                                             mname, k, norm(helper_filter[1])[:60])))
                    elif any(g_.ifs for c_ in comps for g_ in c_.generators):
                        res.fail(Finding("C08.SCHEMA", fi.qname, v, fi.loc(v), "%s.%s is converted with a filter: some elements never reach the service" % (mname, k)))
                    else:
                        res.ok("C08.SCHEMA", {"message": mname, "field": k, "from": "%s.%s" % (src, reads[0])})
                    # ... and as the snapshot holds it: the value sent is the attribute itself (handed to a converter / message of
                    # the schema, element by element), not something computed from it - no arithmetic, slice, text method or
                    # re-encoding in between; the one fixed-width encoding is the 16-byte big-endian snapshot id
                    if fi.module.name == PUSH:
                        for alt in ctx.expand.expand_nodes(v, fi):
                            bad_ = _not_as_held(alt)
                            if bad_ is not None:
                                res.fail(Finding("C08.SCHEMA", fi.qname, v, fi.loc(v), "%s.%s is not sent as the snapshot holds it: `%s` (%s)" % (mname, k, norm(alt)[:80], bad_)))
                                break
                        else:
                            res.ok("C08.SCHEMA", {"message": mname, "field": k, "sent as held": True})
                else:
                    res.fail(Finding("C08.SCHEMA", fi.qname, "%s=%s" % (k, norm(v)), fi.loc(v),
                                     "%s.%s is fed from %s of the source object, expected its `%s`" % (mname, k, reads or "nothing", "/".join(want))))
    res.floor("protobuf message constructions", nctor, 14)
    # every message is built from the snapshot at hand: the converters keep nothing between snapshots (a converted
    # tracepoint remembered under its id is sent again after the tracepoint was redefined under the same id)
    from .common import process_wide_writes
    convs_ = [f_ for f_ in p.functions.values() if f_.module.name in (PUSH, GRPC) and f_.cls is None]
    pw_ = process_wide_writes(ctx, convs_)
    for f_, n_, what_ in pw_[:3]:
        res.fail(Finding("C08.SCHEMA", f_.qname, n_, f_.loc(n_), "`%s` keeps converted data in %s between snapshots: a later snapshot is sent with what an earlier one held "
                         "(a tracepoint redefined under the same id goes out with its old definition)" % (norm(n_)[:60], what_)))
    if not pw_:
        res.ok("C08.SCHEMA", {"converters keep nothing between snapshots (no module-level / class-level container written)": len(convs_)})
    # every public property of the model is consumed by its converter
    model = {"EventSnapshot": "convert_snapshot", "StackFrame": "__convert_frame", "Variable": "__convert_variable", "VariableId": "__convert_variable_id",
             "WatchResult": "__convert_watch", "TracePointConfig": "__convert_tracepoint"}
    for cname, conv in model.items():
        cls = [c for c in p.classes.values() if c.name == cname and c.module.name.startswith("deep.api.tracepoint")]
        need(len(cls) == 1, "model class %s not found" % cname)
        props = sorted(n for n, lst in cls[0].methods.items() if any(f.is_property for f in lst))
        used = set()
        for q, s_ in consumed.items():
            if q.endswith("." + conv):
                used |= s_
        for pr in props:
            if pr in used:
                res.ok("C08.SCHEMA", {"model": cname, "property": pr, "consumed by": conv})
            elif "%s.%s" % (cname, pr) in MODEL_EXCLUDED:
                res.ok("C08.SCHEMA", {"model": cname, "property": pr, "excluded": MODEL_EXCLUDED["%s.%s" % (cname, pr)]})
            else:
                res.fail(Finding("C08.SCHEMA", "%s.%s" % (PUSH, conv), "%s.%s" % (cname, pr), cls[0].module.relpath,
                                 "the snapshot model's %s.%s is never put on the wire" % (cname, pr)))
    # the table is converted entry by entry under the same key
    # (found by role: whatever feeds the `var_lookup` field of the Snapshot message - a helper, or a comprehension in place)
    csf = p.func(PUSH + ".convert_snapshot")
    vl_kw = [k.value for c in t.calls_in(csf) for k in c.keywords if k.arg == "var_lookup"]
    need(len(vl_kw) == 1, "convert_snapshot: var_lookup field of the Snapshot message not found")
    src_expr = "%s.var_lookup" % csf.params[0]
    if isinstance(vl_kw[0], ast.Call) and t.resolve_call(vl_kw[0], csf).repo:
        cl = t.resolve_call(vl_kw[0], csf).repo[0]
        if not (vl_kw[0].args and norm(vl_kw[0].args[0]) == src_expr):
            res.fail(Finding("C08.SCHEMA", csf.qname, vl_kw[0], csf.loc(vl_kw[0]), "the variable table sent is not converted from the snapshot's own table"))
        src_expr = cl.params[0] if cl.params else src_expr
        st = [n for n in t.nodes_in(cl, ast.Assign) if isinstance(n.targets[0], ast.Subscript)]
        lps = [l for l in t.nodes_in(cl, ast.For)]
        dcs = [n for n in t.nodes_in(cl, ast.DictComp)]
    else:
        cl = csf
        st, lps = [], []
        dcs = [vl_kw[0]] if isinstance(vl_kw[0], ast.DictComp) else []
    okl = False
    if len(st) == 1 and len(lps) == 1:
        okl = isinstance(lps[0].target, ast.Tuple) and norm(st[0].targets[0].slice) == norm(lps[0].target.elts[0]) \
            and isinstance(st[0].value, ast.Call) and st[0].value.args and norm(st[0].value.args[0]) == norm(lps[0].target.elts[1]) \
            and norm(lps[0].iter) == "%s.items()" % src_expr and not [n for n in ast.walk(lps[0]) if isinstance(n, (ast.Break, ast.Continue, ast.If))]
    elif len(dcs) == 1 and not st:
        dc = dcs[0]
        g0 = dc.generators[0]
        okl = len(dc.generators) == 1 and not g0.ifs and isinstance(g0.target, ast.Tuple) and norm(dc.key) == norm(g0.target.elts[0]) \
            and isinstance(dc.value, ast.Call) and dc.value.args and norm(dc.value.args[0]) == norm(g0.target.elts[1]) \
            and norm(g0.iter) == "%s.items()" % src_expr
    if okl:
        scope_ = dcs[0] if (cl is csf and dcs) else cl.node
        conv_ok = any(x.name.endswith("convert_variable") for n in ast.walk(scope_) if isinstance(n, ast.Call) for x in t.resolve_call(n, cl).repo)
        okl = conv_ok
    if okl:
        res.ok("C08.SCHEMA", {"var_lookup": "every entry converted under its own id"})
    else:
        res.fail(Finding("C08.SCHEMA", cl.qname, "<for k, v in lookup.items(): out[k] = convert(v)>", cl.loc(), "the variable table is not converted entry by entry under the same ids"))

    # ---------------- TYPES
    cv = p.func(GRPC + ".convert_value")
    arms = []
    for n in t.nodes_in(cv, ast.If):
        tst = n.test
        if isinstance(tst, ast.Call) and norm(tst.func) == "isinstance" and len(tst.args) == 2:
            tys = [norm(x) for x in (tst.args[1].elts if isinstance(tst.args[1], ast.Tuple) else [tst.args[1]])]
            # the arm is the body of this test (an if/elif chain keeps the later arms in `orelse`)
            ret = [r for st_ in n.body for r in ast.walk(st_) if isinstance(r, ast.Return)]
            kws_ = [r.value.keywords[0].arg for r in ret if isinstance(r.value, ast.Call) and r.value.keywords]
            # the arm's own field; an integer that does not fit the wire type may leave as its digits (string_value=str(value))
            kw = None
            if kws_:
                own = [k for k in kws_ if k != "string_value"] or kws_
                kw = own[0] if len(set(own)) == 1 else "/".join(sorted(set(kws_)))
            arms.append((tys, kw, n))
    handled = [ty for tys, _, _ in arms for ty in tys]
    res.analysed["convert_value arms"] = [(tys, kw) for tys, kw, _ in arms]
    want_kw = {"bool": "bool_value", "str": "string_value", "int": "int_value", "float": "double_value", "bytes": "bytes_value",
               "dict": "kvlist_value", "list": "array_value", "tuple": "array_value"}
    for tys, kw, n in arms:
        for ty in tys:
            if want_kw.get(ty) == kw:
                res.ok("C08.TYPES", {"type": ty, "arm": kw})
            else:
                res.fail(Finding("C08.TYPES", cv.qname, n.test, cv.loc(n), "values of type %s are sent as %s (expected %s)" % (ty, kw, want_kw.get(ty))))
    if "bool" in handled and "int" in handled and handled.index("bool") < handled.index("int"):
        res.ok("C08.TYPES", {"bool tested before int": True})
    else:
        res.fail(Finding("C08.TYPES", cv.qname, "<isinstance order>", cv.loc(), "bool must be tested before int (bool is a subclass of int): booleans are sent as integers"))
    am = p.modules["deep.api.attributes"]
    valid = p.literal(am, am.consts["_VALID_ATTR_VALUE_TYPES"]) if False else [norm(x) for x in am.consts["_VALID_ATTR_VALUE_TYPES"].elts]
    ca = p.func("deep.api.attributes._clean_attribute")
    stored = set(valid)
    for r in t.nodes_in(ca, ast.Return):
        if isinstance(r.value, ast.Call) and norm(r.value.func) in ("tuple", "list"):
            stored.add(norm(r.value.func))
    cav = p.func("deep.api.attributes._clean_attribute_value")
    decodes = any(isinstance(c.func, ast.Attribute) and c.func.attr == "decode" for c in t.calls_in(cav))
    if decodes:
        stored.discard("bytes")
    res.analysed["types the attribute store can hold"] = sorted(stored)
    for ty in sorted(stored):
        if ty in handled:
            res.ok("C08.TYPES", {"storable type handled": ty})
        else:
            res.fail(Finding("C08.TYPES", cv.qname, ty, cv.loc(),
                             "the attribute store can hold values of type %s but convert_value has no arm for it: the attribute reaches the wire without a value" % ty))
    # what the store can hold also fits the wire type it is sent as: text that UTF-8 can encode, integers inside 64 bit, no
    # element without a value inside an array (one attribute that does not must not cost the snapshot / the poll)
    from .text_rule import _made_encodable
    av_calls = [c for c in t.calls_in(cv) if any(e.endswith(".AnyValue") for e in t.resolve_call(c, cv).ext)]
    for c in av_calls:
        for k in c.keywords:
            if k.arg == "string_value":
                v = k.value
                digits = isinstance(v, ast.Call) and isinstance(v.func, ast.Name) and v.func.id in ("str", "repr", "hex") and any(
                    isinstance(tt, ast.Call) and norm(tt.func) == "isinstance" and "int" in norm(tt.args[1]) for tt, pol in paths.conditions(p, c, cv) if pol)
                if _made_encodable(v, ctx, cv) or digits or isinstance(v, ast.Constant):
                    res.ok("C08.TYPES", {"string_value": norm(v)[:60]})
                else:
                    res.fail(Finding("C08.TYPES", cv.qname, c, cv.loc(c), "`%s` sends text as it is: an attribute (or resource) value holding a character UTF-8 cannot encode - a lone surrogate - "
                                     "makes the conversion of the whole snapshot, and of every poll request, fail" % norm(c)[:60]))
            if k.arg == "int_value":
                exact = _int64_test(ctx, cv, [c_ for c_, pol in paths.conditions(p, c, cv) if pol])
                if exact is False:
                    res.fail(Finding("C08.TYPES", cv.qname, c, cv.loc(c), "the test in front of `%s` lets integers through that do not fit the signed 64 bit field (it must hold "
                                     "exactly for -2**63 <= value <= 2**63 - 1 or a narrower range): such a value makes the conversion of the whole snapshot / poll request fail" % norm(c)[:50]))
                    continue
                rng = [c_ for c_, pol in paths.conditions(p, c, cv) if pol and any(
                    (isinstance(n_, ast.BinOp) and isinstance(n_.op, ast.Pow) and norm(n_) in ("2 ** 63", "2 ** 64")) or
                    (isinstance(n_, ast.Constant) and isinstance(n_.value, int) and abs(n_.value) in (2 ** 63, 2 ** 63 - 1)) or
                    (isinstance(n_, ast.Attribute) and n_.attr == "bit_length") or
                    (isinstance(n_, ast.Name) and "INT64" in n_.id.upper()) for n_ in ast.walk(c_))]
                if rng:
                    res.ok("C08.TYPES", {"int_value only inside 64 bit": norm(rng[0])[:60]})
                else:
                    res.fail(Finding("C08.TYPES", cv.qname, c, cv.loc(c), "`%s` sends every int as int_value: one that does not fit 64 bit (the attribute store accepts it) makes the "
                                     "conversion of the whole snapshot / poll request fail" % norm(c)[:60]))
    lf = [f for f in p.functions.values() if f.module.name == GRPC and f.name.endswith("__value_as_list")]
    for f_ in lf:
        for cp_ in t.nodes_in(f_, ast.ListComp):
            el = cp_.elt
            never_none = False
            if isinstance(el, ast.Call):
                tg_ = t.resolve_call(el, f_).repo
                if tg_ and cv not in tg_:
                    def _not_none(r, g_):
                        if r.value is None:
                            return False
                        if isinstance(r.value, ast.Call) and any(e.endswith(".AnyValue") for e in t.resolve_call(r.value, g_).ext):
                            return True
                        if isinstance(r.value, ast.IfExp) and (" is None" in norm(r.value.test) or " is not None" in norm(r.value.test)):
                            return True
                        # `if x is None: return AnyValue()` ... `return x` - the value returned under the negated None test
                        if isinstance(r.value, ast.Name):
                            return any((norm(c_) == "%s is None" % r.value.id and not pol) or (norm(c_) == "%s is not None" % r.value.id and pol)
                                       for c_, pol in paths.conditions(p, r, g_))
                        return False
                    never_none = all(_not_none(r, g_) for g_ in tg_ for r in t.nodes_in(g_, ast.Return))
            elif isinstance(el, (ast.BoolOp, ast.IfExp)):
                never_none = any(isinstance(n_, ast.Call) and any(e.endswith(".AnyValue") for e in t.resolve_call(n_, f_).ext) for n_ in ast.walk(el))
            if never_none:
                res.ok("C08.TYPES", {"array elements always carry an AnyValue": norm(el)[:60]})
            else:
                res.fail(Finding("C08.TYPES", f_.qname, el, f_.loc(el), "an element converted to None (a cleaned sequence keeps None for an element that was not valid) is put into the "
                                 "ArrayValue as it is: the message cannot be built and the whole snapshot / poll request is lost"))
    # element conversion of containers recurses into convert_value
    for helper, it in (("__value_as_list", None), ("__value_as_dict", None)):
        hf = [f for f in p.functions.values() if f.module.name == GRPC and f.name.endswith(helper)]
        need(len(hf) == 1, "%s not found" % helper)
        rec = [c for c in t.calls_in(hf[0]) if cv in t.resolve_call(c, hf[0]).repo or
               any(cv in t.resolve_call(c2, g_).repo for g_ in t.resolve_call(c, hf[0]).repo for c2 in t.calls_in(g_))]
        comps = [n for n in t.nodes_in(hf[0], ast.ListComp)]
        if rec and comps and not any(g_.ifs for c_ in comps for g_ in c_.generators):
            res.ok("C08.TYPES", {helper: "element-wise, recursive"})
        else:
            res.fail(Finding("C08.TYPES", hf[0].qname, "<[convert_value(v) for v in value]>", hf[0].loc(), "container elements are not all converted recursively"))

    # ---------------- SOURCE
    names = [v.name for v in importlib.import_module("deepproto.proto.tracepoint.v1.tracepoint_pb2").WatchSource.DESCRIPTOR.values]
    em = p.modules["deep.api.tracepoint.eventsnapshot"]
    consts = {k: p.const_value(em, k) for k in em.consts if k.startswith("WATCH_SOURCE_")}
    if sorted(consts.values()) == sorted(names) and all(k == "WATCH_SOURCE_" + v for k, v in consts.items()):
        res.ok("C08.SOURCE", {"constants": consts})
    else:
        res.fail(Finding("C08.SOURCE", em.name, "WATCH_SOURCE_*", em.relpath, "watch source constants %s do not equal the WatchSource enum names %s" % (consts, names)))
    # (by role: whatever feeds the `source` field of the WatchResult message, expanded through a small helper if there is one)
    cwf = [f for f in p.functions.values() if f.module.name == PUSH and any(k.arg == "source" for c in t.calls_in(f) for k in c.keywords)]
    need(len(cwf) == 1, "the function that builds the WatchResult message (source=...) was not found")
    skw = [k.value for c in t.calls_in(cwf[0]) for k in c.keywords if k.arg == "source"]
    sx = ctx.expand.expand(skw[0], cwf[0])
    wparam = P(cwf[0], 0)
    from .common import enum_lookup
    el_ = enum_lookup(ctx, skw[0], cwf[0])
    if sx and all("WatchSource.Value(" in x and (x.endswith("(%s.source)" % wparam) or x.endswith("(%s._WatchResult__source)" % wparam)) for x in sx):
        res.ok("C08.SOURCE", {"converted by": sx[0]})
    elif el_ is not None and el_[0] == "WatchSource" and el_[1] == "Value" and ctx.expand.expand(el_[2], cwf[0]) in (["%s.source" % wparam], ["%s._WatchResult__source" % wparam]):
        res.ok("C08.SOURCE", {"converted by": "table of WatchSource.items(), by name"})
    else:
        res.fail(Finding("C08.SOURCE", cwf[0].qname, skw[0], cwf[0].loc(skw[0]), "the watch source is not converted by enum name from the watch result's own source: %s" % sx))

    # ---------------- AUTH
    gs = p.cls("deep.grpc.grpc_service.GRPCService")
    md = gs.lookup("metadata")
    stub_calls = []
    for fi in p.functions.values():
        stubs = set()
        for n in t.nodes_in(fi, ast.Assign):
            if isinstance(n.value, ast.Call) and any(e.startswith("deepproto.") and e.endswith("Stub") for e in t.resolve_call(n.value, fi).ext):
                if isinstance(n.targets[0], ast.Name):
                    stubs.add(n.targets[0].id)
        for c in t.calls_in(fi):
            if isinstance(c.func, ast.Attribute) and isinstance(c.func.value, ast.Name) and c.func.value.id in stubs:
                stub_calls.append((fi, c))
    res.floor("gRPC stub call sites", len(stub_calls), 2)
    for fi, c in stub_calls:
        kw = {k.arg: k.value for k in c.keywords}
        m_ = kw.get("metadata")
        if isinstance(m_, ast.Name):
            # metadata = self.grpc.metadata() ... stub.poll(request, metadata=metadata)
            bs_ = [b for k_, b in t.local_bindings(fi, m_.id)]
            if len(bs_) == 1 and isinstance(bs_[0], tuple) and bs_[0][2] is None and bs_[0][1] is not None:
                m_ = bs_[0][1]
        ok = isinstance(m_, ast.Call) and md in t.resolve_call(m_, fi).repo
        if ok:
            res.ok("C08.AUTH", {"request": norm(c.func), "metadata": norm(m_), "at": fi.loc(c)})
        else:
            res.fail(Finding("C08.AUTH", fi.qname, c, fi.loc(c), "the %s request is sent without metadata=GRPCService.metadata(): no auth header" % c.func.attr))
    # metadata(): what the configured provider provides, or nothing without a provider; computed before it is cached
    GP = "deep.api.auth.AuthProvider.get_provider"
    mt = Table(ctx, md)
    fld_ret = {norm(r.result) for r in mt.rows if r.kind == "return" and r.result is not None}
    if not (len(fld_ret) == 1 and list(fld_ret)[0].lstrip("@").startswith("self.")):
        res.fail(Finding("C08.AUTH", md.qname, "<return self._metadata>", md.loc(), "metadata() does not hand out the metadata it built from the auth provider (returns %s)" % sorted(fld_ret)))
        return res
    fld = list(fld_ret)[0].split(".", 1)[1]
    stores = [(sf, v) for sf, v, _ in t.field_stores(gs, fld) if sf.name != "__init__" and v is not None]
    if not stores:
        res.fail(Finding("C08.AUTH", md.qname, "<self.%s = provider.provide()>" % fld, md.loc(), "the metadata handed to every request is never built from the auth provider"))
        return res
    alts = set()
    def split(n):
        if isinstance(n, ast.IfExp):
            return split(n.body) + split(n.orelse)
        return [norm(n)]
    for sf, v in stores:
        for xn in ctx.expand.expand_nodes(v, sf):
            alts.update(split(xn))
    prov_alt = [x for x in alts if x.startswith(GP + "(") and x.endswith(").provide()")]
    other = sorted(x for x in alts if x not in prov_alt and x != "[]")
    if prov_alt and not other:
        res.ok("C08.AUTH", {"metadata() caches": sorted(alts)})
    else:
        res.fail(Finding("C08.AUTH", md.qname, "<metadata value>", md.loc(), "metadata() is not the configured provider's provide() result (or [] without a provider): %s" % sorted(alts)))
    # provider decision: provide() iff a provider is configured
    dec_fns = [f for lst in gs.methods.values() for f in lst
               if any(GP in [x.qname for x in t.resolve_call(c, f).repo] for c in t.calls_in(f))]
    need(len(dec_fns) == 1, "expected one GRPCService method consulting AuthProvider.get_provider, found %d" % len(dec_fns))
    bm = dec_fns[0]
    provide_calls = [c for c in t.calls_in(bm) if isinstance(c.func, ast.Attribute) and c.func.attr == "provide"]
    okp = bool(provide_calls)
    for c in provide_calls:
        conds = [(norm(cc), pol) for cc, pol in paths.conditions(p, c, bm)]
        recv = norm(c.func.value)
        if not any((txt == "%s is not None" % recv and pol) or (txt == "%s is None" % recv and not pol) for txt, pol in conds):
            # conditional expression form
            par = p.parent_of(c)
            while par is not None and not isinstance(par, (ast.IfExp, ast.stmt)):
                par = p.parent_of(par)
            if not (isinstance(par, ast.IfExp) and norm(par.test) in ("%s is not None" % recv, "%s is None" % recv)):
                okp = False
    if okp:
        res.ok("C08.AUTH", {"provider asked in": bm.qname})
    else:
        res.fail(Finding("C08.AUTH", bm.qname, "<provider is not None -> provide()>", bm.loc(), "the provider's provide() is not called exactly when a provider is configured"))
    # the cache is filled exactly when it is empty
    for sf, v in stores:
        if sf is not md:
            continue
        st = paths.stmt_of(p, v)
        cs_ = [(norm(c_), pol) for c_, pol in paths.enclosing_conditions(p, st, sf)]
        if cs_ in ([], [("self.%s is None" % fld, True)], [("not self.%s" % fld, True)], [("self.%s is not None" % fld, False)]):
            res.ok("C08.AUTH", {"metadata built when not cached yet": cs_})
        else:
            res.fail(Finding("C08.AUTH", sf.qname, st, sf.loc(st), "the metadata is built only when `%s`: requests go out with an empty (None) metadata and no credentials" % (
                " and ".join(("" if pol else "not ") + c_ for c_, pol in cs_))))
    # computed before cached: a value stored into the cache field while the provider has still to be asked stays
    # cached when the provider fails (or is read by another thread meanwhile): later requests go out without auth
    for sf, v in stores:
        st = paths.stmt_of(p, v)
        later = [c for c in t.calls_in(sf) if (GP in [x.qname for x in t.resolve_call(c, sf).repo]
                                               or (isinstance(c.func, ast.Attribute) and c.func.attr == "provide"))
                 and not paths.within(p, c, st) and paths.dominates(p, st, c, sf)]
        if later:
            res.fail(Finding("C08.AUTH", sf.qname, st, sf.loc(st), "the metadata cache is assigned before the auth provider has been asked (%s follows): if the provider "
                             "fails once, or another thread reads meanwhile, requests are sent with the placeholder and no credentials" % norm(later[0])[:60]))
        else:
            res.ok("C08.AUTH", {"cache assigned after the provider was asked": norm(st)[:70]})
    from .common import borrow
    borrow(ctx, res, tier, "c06", ("C06.TEXT",), "C08.TEXT", "the message survives serialisation: text derived from the program's values is made encodable where it is produced (lone surrogates)")
    from .common import borrow
    borrow(ctx, res, tier, "c02", ("C02.SNAP",), "C08.SOURCE", "a watch result is built with its source and its expression in their own places (the source is what the wire enum is looked up "
           "with: an expression text there makes the conversion of the whole snapshot fail); the tracepoint's line is a number the wire field can hold")
    # the built-in basic provider sends the credentials whenever both are configured: `configured` is `is not None` - an empty
    # user name (a token sent as the password) or an empty password is a configured value
    bp = p.functions.get("deep.api.auth.BasicAuthProvider.provide")
    if bp is not None:
        creds = {}
        for n_ in t.nodes_in(bp, ast.Assign):
            if isinstance(n_.targets[0], ast.Name):
                x_ = ctx.expand.expand(n_.value, bp)
                if x_ and ("SERVICE_USERNAME" in x_[0] or "SERVICE_PASSWORD" in x_[0]):
                    creds[n_.targets[0].id] = x_[0]
        nb_ = 0
        for r_ in [r for r in t.nodes_in(bp, ast.Return) if isinstance(r.value, ast.List) and r.value.elts]:
            for c_, pol in paths.conditions(p, r_, bp):
                ops_ = c_.values if isinstance(c_, ast.BoolOp) else [c_]
                for o_ in ops_:
                    names_ = {x.id for x in ast.walk(o_) if isinstance(x, ast.Name) and x.id in creds} | \
                        {"<setting>" for x in ast.walk(o_) if isinstance(x, ast.Attribute) and x.attr in ("SERVICE_USERNAME", "SERVICE_PASSWORD")}
                    if not names_:
                        continue
                    nb_ += 1
                    okc = isinstance(o_, ast.Compare) and len(o_.ops) == 1 and isinstance(o_.ops[0], (ast.Is, ast.IsNot)) and \
                        isinstance(o_.comparators[0], ast.Constant) and o_.comparators[0].value is None
                    if okc:
                        res.ok("C08.AUTH", {"basic provider: configured means not None": norm(o_)})
                    else:
                        res.fail(Finding("C08.AUTH", bp.qname, o_, bp.loc(o_), "the credentials are only sent when `%s`: a user name or password configured as the empty text counts as not "
                                         "configured, and every poll and snapshot goes out without the authorization the settings ask for" % norm(o_)[:50]))
        res.floor("credential tests of the basic provider", nb_, 2)
    # the configuration of a snapshot action is also what the snapshot reports as the tracepoint's arguments - a map of text to
    # text on the wire: apart from the watches (sent separately) every value put into it is text as the arguments gave it, never a
    # number / flag made from it (one such value and the conversion of every snapshot of that tracepoint fails)
    from .common import action_config_writers
    nvals = 0
    for q_, lst_ in sorted(action_config_writers(ctx).items()):
        if not q_.endswith("build_snapshot_action"):
            continue
        for bf_, call_, keys_ in lst_:
            for k_, v_ in sorted(keys_.items(), key=lambda kv: str(kv[0])):
                if k_ in ("watches", "**") or v_ is None:
                    continue
                nvals += 1
                conv = [n_ for n_ in ast.walk(v_) if isinstance(n_, ast.Call) and isinstance(n_.func, ast.Name) and n_.func.id in ("int", "float", "bool", "len", "round", "str2bool")]
                num = isinstance(v_, ast.Constant) and v_.value is not None and not isinstance(v_.value, str)
                if conv or num:
                    res.fail(Finding("C08.TYPES", bf_.qname, v_, bf_.loc(v_), "the snapshot action's configuration gets `%s` under %s - not text: the configuration is sent as the tracepoint's "
                                     "arguments (text to text), so every snapshot of such a tracepoint fails to convert and is dropped" % (norm(v_)[:50], k_)))
                else:
                    res.ok("C08.TYPES", {"argument kept as text": str(k_)})
    res.floor("values of the snapshot action configuration", nvals, 5)
    return res
