"""C01.R3 - no mutation / state advance of values owned by the traced program (host-value taint deny-list)."""
import ast

from .common import Finding, settrace_entries
from ..index import norm
from ..taint import Taint, MUTATING

CONSUMING = {"iterate": "iterate", "builtin:tuple": "tuple", "builtin:list": "list", "builtin:set": "list", "builtin:frozenset": "list",
             "builtin:sorted": "sorted", "builtin:enumerate": "enumerate", "builtin:dict": "dict", "builtin:sum": "iterate",
             "builtin:min": "iterate", "builtin:max": "iterate", "builtin:reversed": "list"}
ADVANCING = {"builtin:next", "builtin:iter"}


def check(ctx, res, entries):
    from .c06 import Pins
    from .c01 import reachable
    p, t = ctx.prog, ctx.types
    tn = Taint(p, t, [(f, f.params[3]) for f in entries if len(f.params) > 3])
    pins = Pins(ctx, tn)
    scope = {}
    for e in entries:
        for f in reachable(ctx, e):
            scope[t.fkey(f)] = f
    # callbacks handed over as values (the BFS consumer) and classes local to functions
    from .c06 import collector_scope
    scope.update(collector_scope(ctx))
    nops = 0
    for k in sorted(scope):
        fi = scope[k]
        if not fi.module.name.startswith("deep.processor") and not fi.module.name.startswith("deep.api.tracepoint"):
            continue
        for op in tn.ops(fi):
            nops += 1
            kind = op.kind
            if kind.startswith("mutate") or (kind.startswith("method:") and kind.split(":", 1)[1] in MUTATING
                                             and kind.split(":", 1)[1] not in ("pop",) or kind in ("builtin:setattr", "builtin:delattr")):
                res.fail(Finding("C01.R3", fi.qname, op.node, fi.loc(op.node),
                                 "%s modifies `%s`, a value owned by the traced program: the program's data differs from a run without the agent" % (
                                     kind, norm(op.subject)[:60])))
            elif kind in ("getattr:__class__", "builtin:isinstance"):
                res.fail(Finding("C01.R3", fi.qname, op.node, fi.loc(op.node),
                                 "%s looks up `__class__` on `%s`, a value of the traced program: when that is a property (lazy proxies forward it and "
                                 "evaluate themselves) the agent runs program code and changes program state; use type()" % (kind, norm(op.subject)[:60])))
            elif kind in ADVANCING:
                res.fail(Finding("C01.R3", fi.qname, op.node, fi.loc(op.node),
                                 "%s advances `%s`, an iterator/generator of the traced program" % (kind, norm(op.subject)[:60])))
            elif kind in CONSUMING:
                caps = pins.caps(op.subject, op.node, fi)
                if CONSUMING[kind] in caps:
                    res.ok("C01.R3", {"op": kind, "on": norm(op.subject)[:50], "at": fi.loc(op.node), "why": "pinned to a re-iterable builtin container"})
                else:
                    res.fail(Finding("C01.R3", fi.qname, op.node, fi.loc(op.node),
                                     "%s iterates `%s`, a value of the traced program that is not pinned to a re-iterable builtin container "
                                     "(dict / list / tuple / set): a generator or one-shot iterator of the application would be consumed" % (
                                         kind, norm(op.subject)[:60])))
            else:
                res.ok("C01.R3")
    res.floor("operations on host values reachable from the trace callback", nops, 12)
    # state of the process that the program can observe: the global random stream, the environment, the interpreter's
    # settings, the root logger, the working directory - the agent's event handling leaves them alone
    GLOBAL_STATE = ("random.", "os.chdir", "os.putenv", "os.unsetenv", "os.umask", "sys.setrecursionlimit", "sys.setswitchinterval", "sys.setprofile",
                    "locale.setlocale", "warnings.simplefilter", "warnings.filterwarnings", "logging.basicConfig", "logging.disable", "gc.disable", "gc.enable",
                    "gc.collect", "gc.set_threshold", "signal.signal", "signal.alarm", "time.sleep", "builtins.input", "builtins.print", "builtins.exec",
                    "decimal.setcontext", "decimal.getcontext", "faulthandler.", "tracemalloc.start")
    nglob = 0
    for k in sorted(scope):
        fi = scope[k]
        for c in t.calls_in(fi):
            for e in t.resolve_call(c, fi).ext:
                if e.startswith("random.SystemRandom") or e in ("random.Random",):
                    continue
                if any(e == gname or (gname.endswith(".") and e.startswith(gname)) for gname in GLOBAL_STATE):
                    nglob += 1
                    res.fail(Finding("C01.R3", fi.qname, c, fi.loc(c), "%s changes / consumes state of the process that the traced program can observe (global random stream, "
                                     "interpreter or logging settings, output): the program behaves differently with the agent attached" % e))
        for n in t.nodes_in(fi, (ast.Assign, ast.AugAssign, ast.Delete)):
            tg_ = n.targets if isinstance(n, (ast.Assign, ast.Delete)) else [n.target]
            for x in tg_:
                if isinstance(x, ast.Subscript) and norm(x.value) in ("os.environ", "sys.modules", "sys.path") or \
                        isinstance(x, ast.Attribute) and norm(x.value) in ("sys", "builtins", "os"):
                    res.fail(Finding("C01.R3", fi.qname, n, fi.loc(n), "`%s` modifies process-wide state the traced program can observe" % norm(n)[:60]))
    if not nglob:
        res.ok("C01.R3", {"no process-global state touched below the trace callback": len(scope)})
