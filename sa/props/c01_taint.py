"""C01.R3 - no mutation / state advance of values owned by the traced program (host-value taint deny-list)."""
import ast

from .common import Finding, settrace_entries
from ..index import norm
from ..taint import Taint, MUTATING

CONSUMING = {"iterate": "iterate", "builtin:tuple": "tuple", "builtin:list": "list", "builtin:set": "list", "builtin:frozenset": "list",
             "builtin:sorted": "sorted", "builtin:enumerate": "enumerate", "builtin:dict": "dict", "builtin:sum": "iterate",
             "builtin:min": "iterate", "builtin:max": "iterate", "builtin:reversed": "list"}
ADVANCING = {"builtin:next", "builtin:iter"}


def check(ctx, res, entries):
    from .c06 import Pins
    from .c01 import reachable
    p, t = ctx.prog, ctx.types
    tn = Taint(p, t, [(f, f.params[3]) for f in entries if len(f.params) > 3])
    pins = Pins(ctx, tn)
    scope = {}
    for e in entries:
        for f in reachable(ctx, e):
            scope[t.fkey(f)] = f
    # callbacks handed over as values (the BFS consumer) and classes local to functions
    from .c06 import collector_scope
    scope.update(collector_scope(ctx))
    nops = 0
    for k in sorted(scope):
        fi = scope[k]
        if not fi.module.name.startswith("deep.processor") and not fi.module.name.startswith("deep.api.tracepoint"):
            continue
        for op in tn.ops(fi):
            nops += 1
            kind = op.kind
            if kind.startswith("mutate") or (kind.startswith("method:") and kind.split(":", 1)[1] in MUTATING
                                             and kind.split(":", 1)[1] not in ("pop",) or kind in ("builtin:setattr", "builtin:delattr")):
                res.fail(Finding("C01.R3", fi.qname, op.node, fi.loc(op.node),
                                 "%s modifies `%s`, a value owned by the traced program: the program's data differs from a run without the agent" % (
                                     kind, norm(op.subject)[:60])))
            elif kind in ("getattr:__class__", "builtin:isinstance"):
                res.fail(Finding("C01.R3", fi.qname, op.node, fi.loc(op.node),
                                 "%s looks up `__class__` on `%s`, a value of the traced program: when that is a property (lazy proxies forward it and "
                                 "evaluate themselves) the agent runs program code and changes program state; use type()" % (kind, norm(op.subject)[:60])))
            elif kind in ("truth", "builtin:bool", "builtin:len", "contains"):
                # `if value:` / len(value) / `x in value` run the program's __bool__ / __len__ / __contains__: a lazily loading
                # collection is loaded by the agent, earlier than (and differently from) the program's own first use
                caps = pins.caps(op.subject, op.node, fi)
                want_cap = "contains" if kind == "contains" else "len"
                if want_cap in caps:
                    res.ok("C01.R3", {"op": kind, "on": norm(op.subject)[:50], "at": fi.loc(op.node), "why": "pinned to a builtin container"})
                else:
                    res.fail(Finding("C01.R3", fi.qname, op.node, fi.loc(op.node),
                                     "%s on `%s` runs the __bool__ / __len__ / __contains__ of a value of the traced program that is not pinned to a builtin "
                                     "container: a collection that loads itself on first use is loaded by the agent and the program sees different data; "
                                     "test `is not None` / use type()" % (kind, norm(op.subject)[:60])))
            elif kind.startswith("extcall:itertools.") or kind in ("extcall:copy.copy", "extcall:copy.deepcopy", "extcall:json.dumps", "extcall:pickle.dumps"):
                res.fail(Finding("C01.R3", fi.qname, op.node, fi.loc(op.node),
                                 "%s hands `%s`, a value of the traced program, to a library function that iterates / copies / renders it: the program's own "
                                 "code runs (a one-shot iterator is consumed, a lazily loading collection is loaded)" % (kind.split(":", 1)[1], norm(op.subject)[:60])))
            elif kind in ADVANCING:
                res.fail(Finding("C01.R3", fi.qname, op.node, fi.loc(op.node),
                                 "%s advances `%s`, an iterator/generator of the traced program" % (kind, norm(op.subject)[:60])))
            elif kind in CONSUMING:
                caps = pins.caps(op.subject, op.node, fi)
                if CONSUMING[kind] in caps:
                    res.ok("C01.R3", {"op": kind, "on": norm(op.subject)[:50], "at": fi.loc(op.node), "why": "pinned to a re-iterable builtin container"})
                else:
                    res.fail(Finding("C01.R3", fi.qname, op.node, fi.loc(op.node),
                                     "%s iterates `%s`, a value of the traced program that is not pinned to a re-iterable builtin container "
                                     "(dict / list / tuple / set): a generator or one-shot iterator of the application would be consumed" % (
                                         kind, norm(op.subject)[:60])))
            else:
                res.ok("C01.R3")
    res.floor("operations on host values reachable from the trace callback", nops, 12)
    # state of the process that the program can observe: the global random stream, the environment, the interpreter's
    # settings, the root logger, the working directory - the agent's event handling leaves them alone
    GLOBAL_STATE = ("random.", "os.chdir", "os.putenv", "os.unsetenv", "os.umask", "sys.setrecursionlimit", "sys.setswitchinterval", "sys.setprofile",
                    "locale.setlocale", "warnings.simplefilter", "warnings.filterwarnings", "logging.basicConfig", "logging.disable", "gc.disable", "gc.enable",
                    "gc.collect", "gc.set_threshold", "signal.signal", "signal.alarm", "time.sleep", "builtins.input", "builtins.print", "builtins.exec",
                    "decimal.setcontext", "decimal.getcontext", "faulthandler.", "tracemalloc.start",
                    # the ambient context / global providers of the tracing library the program itself may use: a span made current
                    # by hand (attach without the matching detach) stays the program's current span, a provider set by the agent
                    # replaces the program's
                    "opentelemetry.context.attach", "opentelemetry.context.detach", "opentelemetry.context.set_value",
                    "opentelemetry.trace.set_tracer_provider", "opentelemetry.metrics.set_meter_provider", "opentelemetry.propagate.set_global_textmap",
                    "contextvars.ContextVar.set")
    nglob = 0
    for k in sorted(scope):
        fi = scope[k]
        for c in t.calls_in(fi):
            for e in t.resolve_call(c, fi).ext:
                if e.startswith("random.SystemRandom") or e in ("random.Random",):
                    continue
                if any(e == gname or (gname.endswith(".") and e.startswith(gname)) for gname in GLOBAL_STATE):
                    nglob += 1
                    res.fail(Finding("C01.R3", fi.qname, c, fi.loc(c), "%s changes / consumes state of the process that the traced program can observe (global random stream, "
                                     "interpreter or logging settings, output): the program behaves differently with the agent attached" % e))
        for n in t.nodes_in(fi, (ast.Assign, ast.AugAssign, ast.Delete)):
            tg_ = n.targets if isinstance(n, (ast.Assign, ast.Delete)) else [n.target]
            for x in tg_:
                if isinstance(x, ast.Subscript) and norm(x.value) in ("os.environ", "sys.modules", "sys.path") or \
                        isinstance(x, ast.Attribute) and norm(x.value) in ("sys", "builtins", "os"):
                    res.fail(Finding("C01.R3", fi.qname, n, fi.loc(n), "`%s` modifies process-wide state the traced program can observe" % norm(n)[:60]))
    if not nglob:
        res.ok("C01.R3", {"no process-global state touched below the trace callback": len(scope)})
    every_event_locals(ctx, res)


def every_event_locals(ctx, res):
    """The mapping of a frame's locals is asked for only once a tracepoint acts on the frame. On CPython up to 3.12 a
    trace function that touches `f_locals` makes the interpreter copy the fast locals and closure cells into the
    mapping and write the mapping back when the trace function returns; done for every event of every frame, an
    assignment another thread makes to a shared closure variable meanwhile is lost. `every-event code` is what the
    callback runs unconditionally up to its last `nothing to do` exit."""
    from .common import trace_worker
    from .c01 import reachable
    p, t = ctx.prog, ctx.types
    wk, _roles = trace_worker(ctx)
    body = wk.node.body
    last_guard = -1
    for i, st in enumerate(body):
        if isinstance(st, ast.If) and not st.orelse and any(isinstance(x, ast.Return) for x in st.body):
            last_guard = i
    if last_guard < 0:
        res.ok("C01.R3", {"every-event code": "the callback has no early exit; all of it runs for every event"})
        last_guard = len(body) - 1
    roots = []
    for st in body[:last_guard + 1]:
        if isinstance(st, (ast.Assign, ast.AnnAssign, ast.Expr, ast.AugAssign, ast.Return)):
            for c in ast.walk(st):
                if isinstance(c, ast.Call):
                    tg = t.resolve_call(c, wk)
                    for f in tg.repo:
                        roots.append(f)
                    for cl in tg.ctor:
                        f = cl.lookup("__init__")
                        if f is not None:
                            roots.append(f)
    seen = {}
    for r in roots:
        for f in reachable(ctx, r):
            seen[t.fkey(f)] = f
    seen[t.fkey(wk)] = None
    bad = []
    for k, f in seen.items():
        nodes = t.nodes_in(f) if f is not None else [n for st in body[:last_guard + 1] if not isinstance(st, ast.If) for n in ast.walk(st)]
        for n in nodes:
            if isinstance(n, ast.Attribute) and n.attr == "f_locals" and isinstance(n.ctx, ast.Load):
                bad.append((f or wk, n))
            elif isinstance(n, ast.Call) and isinstance(n.func, ast.Name) and n.func.id == "getattr" and len(n.args) >= 2 \
                    and isinstance(n.args[1], ast.Constant) and n.args[1].value == "f_locals":
                bad.append((f or wk, n))
    for f, n in bad[:3]:
        res.fail(Finding("C01.R3", f.qname, n, f.loc(n), "`%s` asks for the locals mapping of the frame on every trace event, before any tracepoint matched: "
                         "CPython then syncs the locals and closure cells of every traced frame around the callback (an assignment made by another "
                         "thread meanwhile is lost)" % norm(n)))
    if not bad:
        res.ok("C01.R3", {"f_locals not read by every-event code": sorted(x for x in seen)[:12], "functions": len(seen)})
    res.floor("functions run for every trace event", len(seen), 4)
