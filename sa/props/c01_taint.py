"""C01.R3 placeholder until the taint engine is wired in."""


def check(ctx, res, entries):
    return
