"""Cxx.DIAG - the agent's own log / debug statements are inert.

A log line is the place where a maintainer adds "just one more value" without thinking of it as code of the mechanism. But
its arguments are evaluated eagerly, at every log level, inside the mechanism: an eager `"..%s" % value` fails when the value
is a tuple, an f-string runs `__str__` of a program object, `", ".join(watches)` uses up an iterator that was meant to be
stored, `a != b` runs an `__eq__` that is not total, `hash[:8]` fails on None, a helper call evaluates the expression a
second time. The rule is a white list: every argument of a logging call (and every statement, condition or local that exists
only to feed one) is made of names, attribute reads, constants, type names, lengths and lazy `%s` arguments - nothing that can
fail, iterate what it was given, compare objects, index, or call back into the mechanism.
"""
import ast

from .common import Ctx, Finding, Result
from ..index import norm
from .. import paths

SAFE_BUILTINS = {"len", "type", "id", "str", "repr", "int", "float", "bool", "hex"}
COPY_BUILTINS = {"dict", "list", "tuple", "sorted", "set"}
SAFE_METHODS = {"upper", "lower", "strip", "lstrip", "rstrip", "hex", "keys", "items", "values", "title", "total_seconds", "getEffectiveLevel", "isEnabledFor",
                "exception", "done", "cancelled", "is_set", "is_alive"}

SCOPES = {
    "C01": ("deep.processor", "deep.api.tracepoint", "deep.logging", "deep.thread_local"),
    "C02": ("deep.processor",),
    "C03": ("deep.processor.trigger_handler", "deep.api.tracepoint.trigger", "deep.grpc", "deep.config.tracepoint_config"),
    "C04": ("deep.api.tracepoint", "deep.processor.context.action_context", "deep.processor.context.trigger_context"),
    "C05": ("deep.processor.variable", "deep.processor.frame_collector", "deep.processor.bfs", "deep.processor.context.snapshot_action", "deep.api.tracepoint.eventsnapshot"),
    "C06": ("deep.processor.variable", "deep.processor.frame_collector", "deep.processor.bfs", "deep.processor.context.snapshot_action", "deep.processor.context.action_context"),
    "C07": ("deep.processor.variable", "deep.processor.frame_collector", "deep.processor.bfs", "deep.processor.context.snapshot_action", "deep.processor.context.action_context",
            "deep.api.tracepoint.eventsnapshot"),
    "C08": ("deep.push", "deep.grpc"),
    "C09": ("deep.task", "deep.push"),
    "C10": ("deep.processor.context", "deep.api.tracepoint.trigger"),
    "C11": ("deep.api.tracepoint.trigger", "deep.grpc", "deep.processor.trigger_handler", "deep.config.tracepoint_config", "deep.processor.context.snapshot_action"),
    "C12": ("deep.poll", "deep.config.tracepoint_config", "deep.processor.trigger_handler", "deep.grpc", "deep.utils"),
    "C13": ("deep.api.deep", "deep.config.tracepoint_config", "deep.processor.trigger_handler"),
    "C14": ("deep.api.deep", "deep.processor.trigger_handler", "deep.poll", "deep.utils", "deep.task"),
    "C15": ("deep.processor.trigger_handler", "deep.processor.context", "deep.thread_local"),
    "C16": ("deep.processor.context.log_action", "deep.processor.context.action_context", "deep.processor.context.trigger_context", "deep.api.plugin.python"),
    "C17": ("deep.processor.context.metric_action", "deep.config.config_service", "deep.processor.context.action_context"),
    "C18": ("deep.api.attributes", "deep.api.resource"),
    "C19": ("deep.config", "deep.processor.frame_collector", "deep"),
    "C20": ("deep.api.plugin", "deep.config.config_service", "deep.api.deep", "deep.processor.context", "deep.logging"),
}


EMIT = ("debug", "info", "warning", "warn", "error", "exception", "critical", "log")


def _is_log_call(ctx, c, fi):
    name = c.func.attr if isinstance(c.func, ast.Attribute) else (c.func.id if isinstance(c.func, ast.Name) else "")
    if name not in EMIT:
        return False
    tg = ctx.types.resolve_call(c, fi)
    if any(e.startswith("logging.") or "logging.getLogger" in e or e.startswith("method:ret:logging") or e.startswith("method:logging.") for e in tg.ext):
        return True
    return any(g.module.name == "deep.logging" and g.name in ("debug", "info", "warning", "error", "exception", "log", "critical") for g in tg.repo)


def _evaluators(ctx):
    """functions from which an eval / exec site or the variable collector is reachable"""
    memo = ctx._extra.get("diag_evaluators")
    if memo is not None:
        return memo
    from .c10 import eval_sites
    t, p = ctx.types, ctx.prog
    bad = {t.fkey(f) for f, _ in eval_sites(ctx)}
    bad |= {t.fkey(f) for f in p.functions.values() if f.name in ("process_variable", "eval_watch", "breadth_first_search")}
    changed = True
    while changed:
        changed = False
        for f in p.functions.values():
            k = t.fkey(f)
            if k in bad:
                continue
            for c in t.calls_in(f):
                if any(t.fkey(g) in bad for g in t.resolve_call(c, f).repo):
                    bad.add(k)
                    changed = True
                    break
    ctx._extra["diag_evaluators"] = bad
    return bad


def _offences(ctx, e, fi, params, consts_ok=True):
    """[(node, why)] inside expression e"""
    t, p, g = ctx.types, ctx.prog, ctx.guards
    out = []

    def simple(x):
        if isinstance(x, (ast.Constant, ast.Name)):
            return True
        if isinstance(x, ast.Attribute):
            return simple(x.value) or (isinstance(x.value, ast.Call) and norm(x.value.func) == "type")
        return False

    def is_module_const(x):
        if isinstance(x, ast.Name) and not t.local_bindings(fi, x.id):
            r = p.resolve_name_in_module(fi.module, x.id)
            return bool(r) and r[0] == "const"
        return False

    for n in ast.walk(e):
        if isinstance(n, ast.BinOp) and isinstance(n.op, ast.Mod) and isinstance(n.left, (ast.Constant, ast.BinOp, ast.JoinedStr, ast.Name)) and \
                (not isinstance(n.left, ast.Constant) or isinstance(n.left.value, str)):
            if isinstance(n.right, ast.Tuple):
                for el in n.right.elts:
                    if not (simple(el) or (isinstance(el, ast.Call) and isinstance(el.func, ast.Name) and el.func.id in SAFE_BUILTINS)):
                        out.append((el, "is formatted eagerly"))
            elif not isinstance(n.right, (ast.Dict, ast.Constant)):
                out.append((n, "formats a single value eagerly with `%`: when the value is a tuple (or dict) the formatting itself raises"))
        elif isinstance(n, ast.JoinedStr):
            for v in n.values:
                if isinstance(v, ast.FormattedValue) and not simple(v.value) and not (isinstance(v.value, ast.Call) and isinstance(v.value.func, ast.Name) and v.value.func.id in SAFE_BUILTINS):
                    out.append((v.value, "is rendered eagerly inside an f-string"))
                elif isinstance(v, ast.FormattedValue):
                    ty = t.type_of(v.value, fi)
                    custom = [x for x in ty if x[0] == "inst" and p.classes.get(x[1]) is not None and
                              any(p.classes[x[1]].lookup(m) is not None for m in ("__str__", "__repr__", "__format__"))]
                    if custom:
                        out.append((v.value, "is rendered eagerly inside an f-string through %s.__str__" % custom[0][1].rsplit(".", 1)[-1]))
        elif isinstance(n, ast.Subscript) and isinstance(n.ctx, ast.Load) and not isinstance(n.value, (ast.Constant, ast.Tuple, ast.List, ast.Dict)):
            # `xs[0]` inside `for x in xs:` - the loop body only runs when there is a first element
            if isinstance(n.value, ast.Name) and isinstance(n.slice, ast.Constant) and n.slice.value == 0 and \
                    any(isinstance(l_, ast.For) and isinstance(l_.iter, ast.Name) and l_.iter.id == n.value.id and any(paths.within(p, e, b_) for b_ in l_.body)
                        for l_ in paths.enclosing_loops(p, e, fi)) and \
                    all(k_ == "assign" and isinstance(b_[1], (ast.List, ast.ListComp, ast.Tuple)) for k_, b_ in t.local_bindings(fi, n.value.id)):
                continue
            out.append((n, "indexes / slices a value (None, a shorter value or a missing key make the log statement fail)"))
        elif isinstance(n, ast.Compare) and any(isinstance(o, (ast.Eq, ast.NotEq, ast.In, ast.NotIn, ast.Lt, ast.LtE, ast.Gt, ast.GtE)) for o in n.ops):
            sides = [n.left] + list(n.comparators)
            if not any(isinstance(s_, ast.Constant) or (isinstance(s_, ast.Call) and isinstance(s_.func, ast.Name) and s_.func.id == "len") for s_ in sides):
                out.append((n, "compares objects (their __eq__ / __contains__ is code that can fail or be slow)"))
        elif isinstance(n, (ast.ListComp, ast.SetComp, ast.DictComp, ast.GeneratorExp)):
            for g_ in n.generators:
                if not is_module_const(g_.iter):
                    out.append((n, "walks `%s` to build a value for the log line" % norm(g_.iter)[:40]))
        elif isinstance(n, ast.Call):
            f_ = n.func
            if isinstance(f_, ast.Name) and f_.id in SAFE_BUILTINS and not t.local_bindings(fi, f_.id):
                continue
            if isinstance(f_, ast.Name) and f_.id in COPY_BUILTINS and not t.local_bindings(fi, f_.id):
                if any(isinstance(a, ast.Name) and a.id in params for a in n.args):
                    out.append((n, "iterates the caller's `%s` (a one-shot iterable is used up before it is stored)" % norm(n.args[0])))
                continue
            if isinstance(f_, ast.Attribute) and f_.attr == "join":
                if any(isinstance(a, ast.Name) and a.id in params or isinstance(a, (ast.GeneratorExp, ast.ListComp)) for a in n.args):
                    out.append((n, "iterates `%s` (a one-shot iterable handed in by the caller is used up before it is stored)" % norm(n.args[0])[:40]))
                continue
            if isinstance(f_, ast.Attribute) and f_.attr in SAFE_METHODS:
                continue
            if isinstance(f_, ast.Attribute) and f_.attr == "format" and isinstance(f_.value, ast.Constant):
                continue
            if isinstance(f_, ast.Attribute) and f_.attr == "get" and len(n.args) == 2:
                continue
            tg = t.resolve_call(n, fi)
            if tg.repo and not tg.ext:
                ev = _evaluators(ctx)
                if any(t.fkey(x) in ev for x in tg.repo):
                    out.append((n, "calls back into the mechanism (`%s` evaluates / collects again)" % norm(f_)[:40]))
                elif all(x.module.name == "deep.utils" for x in tg.repo):
                    pass            # small pure helpers of deep.utils (formatting of ids, times)
                elif any(g.escape_tokens(x) for x in tg.repo):
                    tok = sorted(g.escape_tokens(tg.repo[0]))[0] if g.escape_tokens(tg.repo[0]) else "an exception"
                    out.append((n, "calls `%s`, which can raise %s" % (norm(f_)[:40], tok)))
                continue
            if _is_log_call(ctx, n, fi):
                continue
            # clocks, ids of the running thread / process: library calls that take no value of the mechanism and cannot fail
            if tg.ext and not tg.repo and not n.args and not n.keywords and all(
                    e in ("time.monotonic", "time.monotonic_ns", "time.time", "time.time_ns", "time.perf_counter", "time.perf_counter_ns", "os.getpid",
                          "threading.get_ident", "threading.current_thread", "threading.active_count") for e in tg.ext):
                continue
            out.append((n, "calls `%s` (a call that can fail or run other code)" % norm(f_)[:40]))
    return out


def analyse(ctx: Ctx):
    """{function key: (function, number of log calls, [(node, why, log call)])} for every function of the agent"""
    memo = ctx._extra.get("diag")
    if memo is not None:
        return memo
    t, p = ctx.types, ctx.prog
    out = {}
    for fi in p.functions.values():
        if fi.module.name.startswith("deep.processor.frame_config"):
            continue
        logs = [c for c in t.calls_in(fi) if _is_log_call(ctx, c, fi)]
        if not logs:
            continue
        params = set(fi.params)
        in_logs = {id(x) for c in logs for a in list(c.args) + [k.value for k in c.keywords] for x in ast.walk(a)}
        exprs = [(a, c) for c in logs for a in list(c.args) + [k.value for k in c.keywords]]
        # locals that exist only to feed a log call: every use of the name is inside a log argument
        for name in {n.id for n in t.nodes_in(fi, ast.Name) if isinstance(n.ctx, ast.Store)}:
            uses = [n for n in t.nodes_in(fi, ast.Name) if n.id == name and isinstance(n.ctx, ast.Load)]
            if uses and all(id(u) in in_logs for u in uses) and name not in params:
                for k, b in t.local_bindings(fi, name):
                    if k == "assign" and isinstance(b, tuple) and b[1] is not None:
                        exprs.append((b[1], logs[0]))
        # a condition that only guards log calls
        for st in t.nodes_in(fi, ast.If):
            body = [s for s in st.body if not isinstance(s, ast.Pass)]
            if body and not st.orelse and all(isinstance(s, ast.Expr) and isinstance(s.value, ast.Call) and any(s.value is c for c in logs) for s in body):
                tst = st.test
                if not (isinstance(tst, ast.Call) and isinstance(tst.func, ast.Attribute) and tst.func.attr in ("isEnabledFor",)):
                    exprs.append((tst, body[0].value))
        bad = []
        for e, c in exprs:
            for node, why in _offences(ctx, e, fi, params):
                bad.append((node, why, c))
        out[t.fkey(fi)] = (fi, len(logs), bad)
    ctx._extra["diag"] = out
    return out


def check(ctx: Ctx, res: Result, pid: str):
    rid = pid + ".DIAG"
    res.rule(rid, "the agent's own log / debug statements are inert: nothing in them can fail, iterate what it was given, compare objects, index, or call back into the mechanism")
    scopes = SCOPES[pid]
    n = 0
    for k, (fi, nlogs, bad) in sorted(analyse(ctx).items()):
        mn = fi.module.name
        if not any(mn == s or (s != "deep" and mn.startswith(s)) for s in scopes):
            continue
        n += nlogs
        seen = set()
        for node, why, c in bad:
            key = (norm(node), why)
            if key in seen:
                continue
            seen.add(key)
            res.fail(Finding(rid, fi.qname, node, fi.loc(node), "the log statement `%s` %s: `%s` - a diagnostic must not be able to fail or to change what the mechanism works with" % (
                norm(c)[:70], why, norm(node)[:60])))
        for _ in range(nlogs - min(nlogs, len(seen))):
            res.ok(rid)
    res.floor("log statements in the scope of " + pid, n, 1)
