"""C16 log tracepoints - see DESIGN.md section 4 (C16)."""
import ast

from .common import is_attach_call, Ctx, Finding, Result, need, term, P, TRUSTED_LOGGING
from ..index import norm
from .. import paths

LOGM = "deep.processor.context.log_action"
SNAP = "deep.processor.context.snapshot_action.SnapshotActionContext"
AC = "deep.processor.context.action_context.ActionContext"
TL = "deep.api.plugin.TracepointLogger"


def run(ctx: Ctx, tier: str) -> Result:
    res = Result("C16")
    res.explanation = (
        "Role binding by origin expansion at every call of TracepointLogger.log_tracepoint (message <- the rendered "
        "log, tp_id <- the action's tracepoint id, ctx_id <- the trigger context id) and inside every implementation "
        "(ctx= / tracepoint= labels paired with the matching parameters); template pipeline shape (constant "
        "'[deep] ' prefix + string.Formatter subclass whose get_field evaluates the field text through eval_watch "
        "with the LOG source, records exactly one watch result per field, merges that evaluation's variables and "
        "returns that evaluation's text); snapshot+log agreement (one process_log result feeds snapshot.log_msg, the "
        "snapshot's watches/variables and the LogActionResult); exactly one log result per processed hit.")
    res.trusted = [TRUSTED_LOGGING, "string.Formatter.vformat handles literal text and doubled braces (stdlib)"]
    res.not_decided = ["rendered text for concrete templates and values (stdlib formatter semantics and str() of runtime values)"]
    for rid, text in (("C16.ROLE", "message / tracepoint id / context id each in its own place"),
                      ("C16.PIPE", "'[deep] ' + Formatter pipeline with fields evaluated as LOG watches"),
                      ("C16.SNAP", "snapshot and log use the same rendered message, watches and variables"),
                      ("C16.ONCE", "exactly one log result per processed hit; sent to the configured logger")):
        res.rule(rid, text)
    p, t = ctx.prog, ctx.types
    absf = p.func(TL + ".log_tracepoint")
    roles = absf.params[1:4]
    need(roles == ["log_msg", "tp_id", "ctx_id"] or len(roles) == 3, "TracepointLogger.log_tracepoint signature changed: %s" % roles)
    R_MSG, R_TP, R_CTX = roles

    # ---------------- ROLE: call sites
    sites = [(f, c) for f in p.functions.values() for c in t.calls_in(f) if absf in t.resolve_call(c, f).repo
             and not (f.cls is not None and f.cls.is_subclass_of(absf.cls))]
    res.floor("log_tracepoint call sites", len(sites), 1)
    for f, c in sites:
        b = t.bind_args(absf, c)
        msg = ctx.expand.expand(b[R_MSG], f) if R_MSG in b else []
        tp = ctx.expand.expand(b[R_TP], f) if R_TP in b else []
        cx = ctx.expand.expand(b[R_CTX], f) if R_CTX in b else []
        ok_tp = len(tp) == 1 and tp[0].endswith("._LocationAction__id")
        ok_cx = len(cx) == 1 and cx[0].endswith("._TriggerContext__id")
        if ok_tp and ok_cx:
            res.ok("C16.ROLE", {"call": norm(c), "tp_id": tp[0], "ctx_id": cx[0]})
        else:
            res.fail(Finding("C16.ROLE", f.qname, c, f.loc(c),
                             "log_tracepoint(log_msg, tp_id, ctx_id) receives tp_id <- %s and ctx_id <- %s: the tracepoint id and the "
                             "trigger context id are not each in its own place" % (tp, cx)))
        # message is the rendered log stored on the result object
        if len(msg) == 1 and msg[0].startswith("@self."):
            fld = msg[0].split(".", 1)[1]
            st = t.field_stores(f.cls, fld)
            init = f.cls.lookup("__init__")
            if st and all(sf is init and isinstance(v, ast.Name) for sf, v, _ in st):
                res.ok("C16.ROLE", {"message": msg[0], "from ctor param": st[0][1].id})
                msg_param = st[0][1].id
                # every construction passes the rendered message (first result of process_log)
                for cf in p.functions.values():
                    for cc in t.calls_in(cf):
                        if f.cls in t.resolve_call(cc, cf).ctor:
                            a = t.bind_args(init, cc).get(msg_param)
                            txt = ctx.expand.expand(a, cf) if a is not None else []
                            # the name is bound once, to the first result of process_log (read from the binding, whatever process_log looks like inside)
                            bnd = t.local_bindings(cf, a.id) if isinstance(a, ast.Name) else []
                            plf = p.func(LOGM + ".LogActionContext.process_log")
                            if len(bnd) == 1 and bnd[0][0] == "assign" and bnd[0][1][2] == 0 and isinstance(bnd[0][1][1], ast.Call) \
                                    and t.resolve_call(bnd[0][1][1], cf).repo == [plf]:
                                txt = ["process_log(...)[0]"]
                            if txt and all("process_log(" in x and x.endswith("[0]") or x.startswith("'[deep] %s' %") for x in txt):
                                res.ok("C16.ROLE", {"constructed with rendered message": cf.qname})
                            else:
                                res.fail(Finding("C16.ROLE", cf.qname, cc, cf.loc(cc), "the log result is not built from the rendered message (process_log's first result): %s" % txt))
            else:
                res.fail(Finding("C16.ROLE", f.qname, c, f.loc(c), "the logged message field is reassigned outside the constructor"))
        else:
            res.fail(Finding("C16.ROLE", f.qname, c, f.loc(c), "log_msg does not receive the rendered message: %s" % msg))
        # the logger is the configured plugin, tested before use
        recv = ctx.expand.expand(c.func.value, f)
        if recv and recv[0].endswith("tracepoint_logger") or any("TracepointLogger" in x for x in recv):
            conds = paths.conditions(p, c, f)
            if any(pol and norm(cc) == norm(c.func.value) for cc, pol in conds) or \
                    any(pol and isinstance(cc, ast.Compare) and "None" in norm(cc) for cc, pol in conds):
                res.ok("C16.ONCE", {"logger": recv[0], "tested": True})
            else:
                res.fail(Finding("C16.ONCE", f.qname, c, f.loc(c), "the tracepoint logger is used without a `configured` test"))
        else:
            res.fail(Finding("C16.ONCE", f.qname, c, f.loc(c), "the message is not sent to the configured tracepoint logger: %s" % recv))

    # a failure while processing another result of the same hit must not swallow the log message (and vice versa)
    from .c20 import isolation
    for f, c in sites:
        bad = isolation(ctx, f, c)
        if bad is None:
            res.ok("C16.ONCE", {"log delivery isolated from the other results of the hit": f.loc(c)})
        else:
            res.fail(Finding("C16.ONCE", f.qname, c, f.loc(c), "delivery of the log message is not isolated from the other results of the same hit: %s" % bad[2]))
    tc_exit = p.func("deep.processor.context.trigger_context.TriggerContext.__exit__")
    rp = [c for c in t.calls_in(tc_exit) if isinstance(c.func, ast.Attribute) and c.func.attr == "process"]
    for c in rp:
        lps = [l for l in paths.enclosing_loops(p, c, tc_exit) if isinstance(l, ast.For)]
        ct = ctx.guards.catching_try(c, tc_exit, "Exception")
        if lps and ct is not None and paths.within(p, ct[0], lps[0]) and not [n for n in ast.walk(lps[0]) if isinstance(n, (ast.Break, ast.Return))]:
            res.ok("C16.ONCE", {"every result of the hit is processed, each in its own guard": tc_exit.loc(c)})
        else:
            res.fail(Finding("C16.ONCE", tc_exit.qname, c, tc_exit.loc(c),
                             "results of one hit are not processed each inside its own guard: one failing result (e.g. a refused snapshot "
                             "upload) drops the log messages queued behind it although their fire budget was used"))

    # ---------------- ROLE: implementations
    impls = [g_ for g_ in t.overrides(absf.cls.qname, "log_tracepoint")]
    res.floor("log_tracepoint implementations", len(impls), 1)
    for g_ in impls:
        ip = g_.params[1:4]
        ok = None
        for n in t.nodes_in(g_, ast.BinOp):
            if isinstance(n.op, ast.Mod) and isinstance(n.left, ast.Constant) and isinstance(n.left.value, str) \
                    and isinstance(n.right, ast.Tuple):
                fmt = n.left.value
                labels = []
                idx = 0
                import re
                for m_ in re.finditer(r"(\w+)=%s", fmt):
                    labels.append(m_.group(1))
                args_ = [norm(x) for x in n.right.elts]
                if len(labels) == len(args_) and labels:
                    pair = dict(zip(labels, args_))
                    want = {"ctx": ip[2], "tracepoint": ip[1]}
                    ok = all(pair.get(k) == v for k, v in want.items() if k in pair) and set(want) <= set(pair)
        uses_msg = any(isinstance(n, ast.Name) and n.id == ip[0] for n in t.nodes_in(g_, ast.Name))
        for n in t.nodes_in(g_, ast.BinOp):
            if isinstance(n.op, ast.Mod) and any(isinstance(x, ast.Name) and x.id == ip[0] for x in ast.walk(n.left)):
                res.fail(Finding("C16.ROLE", g_.qname, n, g_.loc(n), "`%s` uses the rendered message as (part of) a %%-format string: a `%%` in the template's text or in a value makes "
                                 "the formatting fail and the message of that hit is lost" % norm(n)[:70]))
        # the processed message is data: it must never be used as a %-format string (a `%` in the template or in a value would
        # make the logging module fail to render it, and the message is lost)
        for c_ in t.calls_in(g_):
            if not any(e.startswith("logging.") for e in t.resolve_call(c_, g_).ext) and not (isinstance(c_.func, ast.Attribute) and c_.func.attr in (
                    "info", "debug", "warning", "error", "log", "critical")):
                continue
            fi_ = 1 if (isinstance(c_.func, ast.Attribute) and c_.func.attr == "log") else 0
            # a repository forwarder says itself where the format goes (the parameter named msg / message / fmt)
            for cal_ in t.resolve_call(c_, g_).repo:
                off_ = 1 if cal_.cls is not None and not cal_.is_static else 0
                for i_, pn_ in enumerate(cal_.params[off_:]):
                    if pn_ in ("msg", "message", "fmt", "format"):
                        fi_ = i_
            fmt_has_msg = len(c_.args) > fi_ and any(isinstance(n, ast.Name) and n.id == ip[0] for n in ast.walk(c_.args[fi_]))
            extra = c_.args[fi_ + 1:]
            if fmt_has_msg and extra:
                res.fail(Finding("C16.ROLE", g_.qname, c_, g_.loc(c_), "the message is passed to the logging module as part of the format string together with format "
                                 "arguments: a `%` in the text or in a value breaks the rendering and the message is lost"))
            elif fmt_has_msg:
                res.ok("C16.ROLE", {"message handed over as finished text": g_.loc(c_)})
        if ok and uses_msg:
            res.ok("C16.ROLE", {"implementation": g_.qname, "labels": "ctx=%s tracepoint=%s" % (ip[2], ip[1])})
        elif ok is None and uses_msg:
            res.ok("C16.ROLE", {"implementation": g_.qname, "labels": "no labelled format found; message used"})
        else:
            res.fail(Finding("C16.ROLE", g_.qname, "<ctx=/tracepoint= labels>", g_.loc(), "the implementation labels its parameters wrongly (ctx= must show ctx_id, tracepoint= must show tp_id) or drops the message"))

    # ---------------- PIPE
    pl = p.func(LOGM + ".LogActionContext.process_log")
    rets = sorted(t.nodes_in(pl, ast.Return), key=lambda r_: r_.lineno)
    if len(rets) > 1:
        # every message goes through the formatter (which also turns `{{` / `}}` into the single brace): a way out that hands back
        # the template as it is, for templates that `look` field-less, leaves the escapes in the text
        early = [r for r in rets[:-1] if paths.conditions(p, r, pl)]
        for r in early[:1]:
            res.fail(Finding("C16.PIPE", pl.qname, r, pl.loc(r), "when `%s` the message is handed back without going through the formatter: escaped braces stay doubled in the emitted text "
                             "(a template with `}}` and no `{` is not field-less text)" % norm(paths.conditions(p, r, pl)[0][0])[:50]))
        rets = rets[-1:]
    need(len(rets) == 1 and isinstance(rets[0].value, ast.Tuple) and len(rets[0].value.elts) == 3, "process_log: expected `return msg, watches, vars`")
    msg = [x for x in ctx.expand.expand_nodes(rets[0].value.elts[0], pl) if norm(x) != P(pl, 1)]
    need(len(msg) == 1, "process_log: message has %d expansions" % len(msg))
    m_ = msg[0]
    fmt_cls = None
    okp = False
    from .common import fmt_parts
    fp_ = fmt_parts(m_)
    rhs_node = None
    if fp_ is not None and fp_[0] == "[deep] {}" and len(fp_[1]) == 1:
        rhs_node = m_.right if isinstance(m_, ast.BinOp) else [v for v in m_.values if isinstance(v, ast.FormattedValue)][0].value
    if rhs_node is not None:
        rhs = rhs_node
        if isinstance(rhs, ast.Call) and isinstance(rhs.func, ast.Attribute) and rhs.func.attr in ("vformat", "format") \
                and isinstance(rhs.func.value, ast.Call):
            cname = norm(rhs.func.value.func)
            if cname.endswith(".__init__"):
                cname = cname[:-len(".__init__")]
            fmt_cls = p.classes.get(cname)
            tmpl = norm(rhs.args[0]) if rhs.args else ""
            okp = fmt_cls is not None and any("Formatter" in b for b in fmt_cls.ext_base_names()) and tmpl in (P(pl, 1), "<loop:%s>" % pl.params[1])
    if okp:
        res.ok("C16.PIPE", {"message": norm(m_)[:120]})
    else:
        res.fail(Finding("C16.PIPE", pl.qname, rets[0], pl.loc(rets[0]), "the message is not '[deep] ' + <string.Formatter subclass>.vformat(configured text, ...): %s" % norm(m_)[:200]))
    if fmt_cls is not None:
        gf = fmt_cls.own_method("get_field")
        need(gf is not None, "formatter subclass has no get_field")
        aw = p.func(AC + ".eval_watch")
        ew = [c for c in t.calls_in(gf) if aw in t.resolve_call(c, gf).repo]
        if len(ew) == 1:
            b = t.bind_args(aw, ew[0])
            w_txt = ctx.expand.expand(b.get(aw.params[1]), gf) if aw.params[1] in b else []
            s_txt = ctx.expand.expand(b.get(aw.params[2]), gf) if aw.params[2] in b else []
            if w_txt == [P(gf, 1)] and s_txt == ["'LOG'"]:
                res.ok("C16.PIPE", {"field evaluated": "eval_watch(field text, LOG)"})
            else:
                res.fail(Finding("C16.PIPE", gf.qname, ew[0], gf.loc(ew[0]), "field is evaluated as eval_watch(%s, %s), expected (field text, 'LOG')" % (w_txt, s_txt)))
            st = paths.stmt_of(p, ew[0])
            names = [norm(x) for x in st.targets[0].elts] if isinstance(st, ast.Assign) and isinstance(st.targets[0], ast.Tuple) else []
            if len(names) == 3:
                wn, vn, sn = names
                apps = [c for c in t.calls_in(gf) if isinstance(c.func, ast.Attribute) and c.func.attr == "append" and c.args and norm(c.args[0]) == wn]
                upds = [c for c in t.calls_in(gf) if isinstance(c.func, ast.Attribute) and c.func.attr == "update" and c.args and norm(c.args[0]) == vn]
                retg = [r for r in t.nodes_in(gf, ast.Return)]
                ret_ok = len(retg) == 1 and isinstance(retg[0].value, ast.Tuple) and norm(retg[0].value.elts[0]) == sn
                uncond = all(not paths.conditions(p, c, gf) and not paths.enclosing_loops(p, c, gf) for c in apps + upds)
                # the lists written are the ones process_log returns
                ret_w, ret_v = norm(rets[0].value.elts[1]), norm(rets[0].value.elts[2])
                same = apps and upds and norm(apps[0].func.value) == ret_w and norm(upds[0].func.value) == ret_v
                if apps and upds and not same:
                    # the formatter object made for this message carries the two collections: process_log returns `<formatter>.F`,
                    # get_field fills `self.F`, and the constructor starts each message with empty ones
                    def _own(e_, want_):
                        if not (isinstance(e_, ast.Attribute) and isinstance(e_.value, ast.Name)):
                            return None
                        bs_ = t.local_bindings(pl, e_.value.id)
                        if len(bs_) != 1 or bs_[0][0] != "assign" or bs_[0][1][2] is not None or not isinstance(bs_[0][1][1], ast.Call) \
                                or fmt_cls not in t.resolve_call(bs_[0][1][1], pl).ctor or paths.enclosing_loops(p, bs_[0][1][1], pl):
                            return None
                        ini_ = fmt_cls.own_method("__init__")
                        st_ = t.field_stores(fmt_cls, e_.attr)
                        if ini_ is None or len(st_) != 1 or st_[0][0] is not ini_ or norm(st_[0][1]) not in want_:
                            return None
                        return "self." + e_.attr
                    same = norm(apps[0].func.value) == _own(rets[0].value.elts[1], ("[]", "list()")) \
                        and norm(upds[0].func.value) == _own(rets[0].value.elts[2], ("{}", "dict()"))
                if len(apps) == 1 and len(upds) == 1 and ret_ok and uncond and same:
                    res.ok("C16.PIPE", {"per field": "one watch result appended, variables merged, evaluation text returned"})
                else:
                    res.fail(Finding("C16.PIPE", gf.qname, st, gf.loc(st), "get_field does not (unconditionally, once) append the watch result, merge the variables and return the evaluation's text into the lists process_log returns"))
            else:
                res.fail(Finding("C16.PIPE", gf.qname, st, gf.loc(st), "get_field does not unpack (watch result, variables, text) from eval_watch"))
        else:
            res.fail(Finding("C16.PIPE", gf.qname, "<eval_watch>", gf.loc(), "get_field evaluates the field %d times through eval_watch (expected once)" % len(ew)))

    # a snapshot keeps every watch result it is given, in order (one per field of the template, also for a repeated expression)
    esn = p.cls("deep.api.tracepoint.eventsnapshot.EventSnapshot")
    awr = esn.lookup("add_watch_result")
    wprop = esn.lookup("watches")
    if awr is not None and wprop is not None:
        apps_ = [c for c in t.calls_in(awr) if isinstance(c.func, ast.Attribute) and c.func.attr == "append" and c.args and norm(c.args[0]) == awr.params[1]]
        wret = [r for r in t.nodes_in(wprop, ast.Return) if r.value is not None]
        wfield = norm(wret[0].value) if len(wret) == 1 else None
        tgt_ok = len(apps_) == 1 and wfield is not None and norm(apps_[0].func.value) in (wfield, "self.watches") and not paths.conditions(p, apps_[0], awr) \
            and isinstance(wret[0].value, ast.Attribute)
        stores_ = [n for n in t.nodes_in(awr, ast.Subscript) if isinstance(n.ctx, ast.Store)]
        init_ = esn.lookup("__init__")
        fresh_list = [v for sf, v, _ in t.field_stores(esn, wfield.split(".", 1)[1]) if sf is init_] if wfield and "." in wfield else []
        is_list = bool(fresh_list) and all(isinstance(v, ast.List) or (isinstance(v, ast.Call) and norm(v.func) == "list") for v in fresh_list)
        if tgt_ok and not stores_ and is_list:
            res.ok("C16.PIPE", {"the snapshot appends every watch result to the list it hands out": norm(apps_[0])})
        else:
            res.fail(Finding("C16.PIPE", awr.qname, (stores_ or apps_ or [awr.node])[0], awr.loc(), "the snapshot does not keep every watch result it is given in a list, in order "
                             "(results of the same expression - a field used twice, a field that is also a watch - replace one another)"))
    # once the expression has a value, the text of the field is the text of that value - also when the value cannot be
    # recorded any more (variable budget used up): only the watch result says `not recorded`
    ewf_ = p.func("deep.processor.context.action_context.ActionContext.eval_watch")
    pvs_ = [n for n in t.nodes_in(ewf_, ast.Assign) if isinstance(n.value, ast.Call) and any(f_.name == "process_variable" for f_ in t.resolve_call(n.value, ewf_).repo)
            and isinstance(n.targets[0], ast.Tuple) and len(n.targets[0].elts) == 2]
    if len(pvs_) == 1:
        txt_name = norm(pvs_[0].targets[0].elts[1])
        after = [r for r in t.nodes_in(ewf_, ast.Return) if r.lineno > pvs_[0].lineno and paths.dominates(p, pvs_[0], r, ewf_) and
                 not any(isinstance(a_, ast.ExceptHandler) for a_ in p.ancestors(r, stop=ewf_.node))]
        for r in after:
            third = r.value.elts[2] if isinstance(r.value, ast.Tuple) and len(r.value.elts) == 3 else None
            if third is not None and norm(third) == txt_name:
                res.ok("C16.PIPE", {"field text is the value's text": ewf_.loc(r)})
            else:
                res.fail(Finding("C16.PIPE", ewf_.qname, r, ewf_.loc(r), "after the expression was evaluated the text handed back for the field is `%s`, not the text of its value (`%s`): "
                                 "when the value cannot be recorded (variable limit) the log line shows that remark in place of the value" % (
                                     norm(third)[:50] if third is not None else norm(r.value)[:50], txt_name)))
        res.floor("returns of eval_watch after the value was processed", len(after), 2)
    else:
        res.fail(Finding("C16.PIPE", ewf_.qname, "<variable_id, log_str = process_variable(watch, result)>", ewf_.loc(), "eval_watch does not take the text of the value from process_variable"))
    # the text a field is replaced with is the string form of the value, whether or not the value was collected before
    pv_ = p.func("deep.processor.variable_set_processor.VariableSetProcessor.process_variable")
    rets_ = [r for r in t.nodes_in(pv_, ast.Return) if r.value is not None]
    need(rets_, "VariableSetProcessor.process_variable returns nothing")
    for r in rets_:
        txts = ctx.expand.expand(r.value.elts[1], pv_) if isinstance(r.value, ast.Tuple) and len(r.value.elts) == 2 else []
        want_ = "deep.processor.variable_processor.safe_str(%s)" % P(pv_, 2)
        import re as _re
        # the text may be made encodable on its way (`.encode('utf-8', <lenient>).decode('utf-8')` is the identity on valid text)
        txts = [_re.sub(r"\.encode\('utf-8', '(?:backslashreplace|replace|ignore|xmlcharrefreplace|namereplace)'\)\.decode\('utf-8'\)$", "", x) for x in txts]
        direct_ = isinstance(r.value, ast.Tuple) and len(r.value.elts) == 2 and isinstance(r.value.elts[1], ast.Call) and \
            any(f_.qname == "deep.processor.variable_processor.safe_str" for f_ in t.resolve_call(r.value.elts[1], pv_).repo) and \
            r.value.elts[1].args and norm(r.value.elts[1].args[0]) == P(pv_, 2).lstrip("@")
        if direct_:
            res.ok("C16.PIPE", {"field text": "safe_str(%s)" % P(pv_, 2), "at": pv_.loc(r)})
        elif txts and all(x == "f'{type(%s)}@{id(%s)}'" % (P(pv_, 2), P(pv_, 2)) or x in (want_, "str(%s)" % P(pv_, 2)) or x.endswith("safe_str(%s)" % P(pv_, 2)) for x in txts):
            res.ok("C16.PIPE", {"field text": txts[0], "at": pv_.loc(r)})
        else:
            res.fail(Finding("C16.PIPE", pv_.qname, r, pv_.loc(r), "the text of an evaluated field is %s on this path, not the string form of the value: what a "
                             "{field} is replaced with depends on whether the value had been collected before" % txts))

    # ---------------- SNAP
    from .common import expand_through
    sp0 = p.func(SNAP + "._process_action")
    sp, plc, via = sp0, [], None
    for f_, c0_ in [(sp0, None)] + [(x, c0) for c0 in t.calls_in(sp0) for x in t.resolve_call(c0, sp0).repo if x.cls is sp0.cls and x is not sp0]:
        plc = [c for c in t.calls_in(f_) if pl in t.resolve_call(c, f_).repo]
        if plc:
            sp, via = f_, c0_
            break
    if len(plc) != 1:
        res.fail(Finding("C16.SNAP", sp.qname, "<process_log>", sp.loc(), "snapshot action renders the log message %d times (expected once)" % len(plc)))
    else:
        st = paths.stmt_of(p, plc[0])
        names = [norm(x) for x in st.targets[0].elts] if isinstance(st, ast.Assign) and isinstance(st.targets[0], ast.Tuple) else []
        need(len(names) == 3, "snapshot action: process_log result is not unpacked into three names")
        ln, wn, vn = names
        # whether the message is rendered depends on there being a message, on nothing else (not on a logger being configured:
        # the snapshot records the message and the field results either way)
        pc_ = [(norm(x), pol) for x, pol in paths.conditions(p, plc[0], sp)]
        import re as _re16
        extra_ = [c_ for c_, pol in pc_ if not (pol and _re16.fullmatch(r"[\w.]*log[\w.]* is not None", c_, _re16.I)) and not ((not pol) and _re16.fullmatch(r"[\w.]*log[\w.]* is None", c_, _re16.I))]
        if extra_:
            res.fail(Finding("C16.SNAP", sp.qname, plc[0], sp.loc(plc[0]), "the log message of a collecting tracepoint is only rendered when `%s`: otherwise the snapshot goes out without its "
                             "log message and without the watch results of its fields" % extra_[0][:80]))
        else:
            res.ok("C16.SNAP", {"rendered whenever there is a message": [c_ for c_, _ in pc_]})
        arg = expand_through(ctx, plc[0].args[0], sp, sp0, via) if plc[0].args else []
        if arg and "'log_msg'" in arg[0]:
            res.ok("C16.SNAP", {"template": arg[0]})
        else:
            res.fail(Finding("C16.SNAP", sp.qname, plc[0], sp.loc(plc[0]), "the snapshot's log is rendered from %s, not the configured log_msg" % arg))
        setlog = [n for n in t.nodes_in(sp, ast.Assign) if isinstance(n.targets[0], ast.Attribute) and n.targets[0].attr == "log_msg" and norm(n.value) == ln]
        addw = [c for c in t.calls_in(sp) if isinstance(c.func, ast.Attribute) and c.func.attr == "add_watch_result"
                and any(isinstance(l, ast.For) and norm(l.iter) == wn and c.args and norm(c.args[0]) == norm(l.target) for l in paths.enclosing_loops(p, c, sp))]
        mrg = [c for c in t.calls_in(sp) if isinstance(c.func, ast.Attribute) and c.func.attr == "merge_var_lookup" and c.args and norm(c.args[0]) == vn]
        lar = [c for c in t.calls_in(sp) if any(k.name == "LogActionResult" for k in t.resolve_call(c, sp).ctor)]
        ok_lar = len(lar) == 1 and len(lar[0].args) >= 2 and norm(lar[0].args[1]) == ln and \
            isinstance(p.parent_of(lar[0]), ast.Call) and is_attach_call(ctx, p.parent_of(lar[0]), sp)
        for what, okx in (("snapshot.log_msg = rendered message", len(setlog) == 1), ("one watch result per field added to the snapshot", len(addw) == 1),
                          ("field variables merged into the snapshot", len(mrg) == 1), ("LogActionResult attached with the same message", ok_lar)):
            if okx:
                res.ok("C16.SNAP", {what: True})
            else:
                res.fail(Finding("C16.SNAP", sp.qname, "<%s>" % what, sp.loc(), "snapshot+log: missing `%s`" % what))

    # ---------------- ONCE
    lp = p.func(LOGM + ".LogActionContext._process_action")
    lar = [c for c in t.calls_in(lp) if any(k.name == "LogActionResult" for k in t.resolve_call(c, lp).ctor)]
    att = [c for c in t.calls_in(lp) if is_attach_call(ctx, c, lp)]
    if len(lar) == 1 and len(att) == 1 and not paths.conditions(p, att[0], lp) and not paths.enclosing_loops(p, att[0], lp) \
            and any(n is lar[0] for n in ast.walk(att[0])):
        res.ok("C16.ONCE", {"log action attaches exactly one result": lp.loc(att[0])})
    else:
        res.fail(Finding("C16.ONCE", lp.qname, "<attach_result(LogActionResult(...))>", lp.loc(), "a processed log hit does not attach exactly one log result (unconditionally)"))
    tmpl = [c for c in t.calls_in(lp) if pl in t.resolve_call(c, lp).repo]
    if len(tmpl) == 1:
        a = ctx.expand.expand(tmpl[0].args[0], lp) if tmpl[0].args else []
        if a and "'log_msg'" in a[0]:
            res.ok("C16.ONCE", {"template": a[0]})
        else:
            res.fail(Finding("C16.ONCE", lp.qname, tmpl[0], lp.loc(tmpl[0]), "log action renders %s, not the configured log_msg" % a))
    else:
        res.fail(Finding("C16.ONCE", lp.qname, "<process_log>", lp.loc(), "log action renders the message %d times" % len(tmpl)))
    from .common import borrow
    borrow(ctx, res, tier, "c11", ("C11.BUILD",), "C16.BUILD", "exactly one action carries the log message: the snapshot action, or the log action when collection is off")
    borrow(ctx, res, tier, "c10", ("C10.SCOPE", "C10.CONTAIN"), "C16.EVAL", "each field is evaluated in place, in the paused frame; a failing field yields its error text only")
    # one message per permitted hit: the results of an event are processed once, when the trigger context closes after every
    # action of the event has run - a context closed (and its result list processed) once per action emits the earlier
    # actions' messages again for each later action
    from .common import trace_worker
    wk_, _roles_ = trace_worker(ctx)
    TCQ = "deep.processor.context.trigger_context.TriggerContext"
    withs_ = [w_ for w_ in t.nodes_in(wk_, ast.With) if any(ty[0] == "inst" and ty[1] == TCQ for it_ in w_.items for ty in t.type_of(it_.context_expr, wk_))]
    if len(withs_) == 1 and not paths.enclosing_loops(p, withs_[0], wk_):
        res.ok("C16.PIPE", {"the trigger context is closed once per event, after the loop over the actions": wk_.loc(withs_[0])})
    elif withs_:
        res.fail(Finding("C16.PIPE", wk_.qname, withs_[0], wk_.loc(withs_[0]), "the trigger context is entered / closed %s: its results (log messages, snapshots, callbacks) are processed "
                         "more than once per event" % ("inside the loop over the actions" if paths.enclosing_loops(p, withs_[0], wk_) else "%d times" % len(withs_))))
    else:
        res.fail(Finding("C16.PIPE", wk_.qname, "<with trigger_context:>", wk_.loc(), "the trace callback never closes the trigger context: attached log results are not emitted"))
    borrow(ctx, res, tier, "c13", ("C13.ARGS",), "C16.BUILD", "the text an installed log action emits is the one it was registered with: the action's configuration is the builder's own "
           "mapping, not the dict the program passed (and may change or reuse afterwards)")
    borrow(ctx, res, tier, "c04", ("C04.UNITS", "C04.TABLE"), "C16.ONCE", "one message per *permitted* hit: the limiter that permits is fed and compared in one unit")
    borrow(ctx, res, tier, "c02", ("C02.SNAP",), "C16.SNAP", "the watch result of a field carries the field's text as its expression and LOG as its source, also when the field fails")
    return res
