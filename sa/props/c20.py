"""C20 plugins optional and isolated - see DESIGN.md section 4 (C20)."""
import ast
import re

from .common import is_attach_call, Ctx, Finding, Result, need, TRUSTED_LOGGING, P
from ..index import norm
from .. import paths

PLUGIN_MODULES = ("deep.api.plugin",)


def plugin_sites(ctx: Ctx):
    """(function, call node, description) for every call that may run third-party plugin code."""
    out = []
    g = ctx.guards
    for fi in ctx.prog.functions.values():
        if fi.module.name.startswith(PLUGIN_MODULES) and fi.cls is not None and \
                fi.module.name not in ("deep.api.plugin",):
            # implementations of plugins calling their own helpers are the plugin's own business
            continue
        for call in ctx.types.calls_in(fi):
            tg = ctx.types.resolve_call(call, fi)
            pts = [t for t in tg.repo if g.is_extension_point(t) and t.module.name.startswith(PLUGIN_MODULES)]
            if pts:
                if fi.cls is not None and any(fi.cls.is_subclass_of(t.cls) for t in pts if t.cls):
                    continue   # a plugin calling its own interface (super().__init__ ...)
                out.append((fi, call, "callback " + "/".join(sorted({t.cls.name + "." + t.name for t in pts}))))
                continue
            # dynamic dispatch getattr(plugin, name)(...)
            if isinstance(call.func, ast.Call):
                inner = ctx.types.resolve_call(call.func, fi)
                if "builtins.getattr" in inner.ext and call.func.args:
                    for t in ctx.types.type_of(call.func.args[0], fi):
                        if t[0] == "inst" and t[1].startswith(PLUGIN_MODULES):
                            out.append((fi, call, "dynamic dispatch on " + t[1].rsplit(".", 1)[1]))
                            break
            # dynamic import / construction in the loader
            if fi.module.name == "deep.api.plugin" and fi.cls is None:
                if "importlib.import_module" in tg.ext:
                    out.append((fi, call, "dynamic import of plugin module"))
                elif tg.unknown and isinstance(call.func, ast.Name):
                    out.append((fi, call, "construction of dynamically loaded plugin class"))
    return out


def isolation(ctx: Ctx, fi, node, depth=0, seen=None):
    """None if a failure at node costs only its own contribution; else (function, node, reason)."""
    seen = seen or set()
    key = (ctx.types.fkey(fi), id(node))
    if key in seen or depth > 6:
        return None
    seen.add(key)
    g = ctx.guards
    ct = g.catching_try(node, fi, "Exception")
    loops = paths.enclosing_loops(ctx.prog, node, fi)
    # what the failure skips on its way to the guard: a result / snapshot handed over after the plugin's callback, in the same
    # guarded region, is lost with it (the plugin costs more than its own contribution)
    st_node = paths.stmt_of(ctx.prog, node) if not isinstance(node, ast.stmt) else node
    for c2 in ctx.types.calls_in(fi):
        if c2 is node or c2.lineno <= getattr(st_node, "end_lineno", node.lineno) or any(paths.within(ctx.prog, c2, lp_) and paths.within(ctx.prog, node, lp_) for lp_ in loops):
            continue
        if ct is not None and not any(paths.within(ctx.prog, c2, b_) for b_ in ct[0].body):
            continue
        if any(isinstance(a_, ast.ExceptHandler) for a_ in ctx.prog.ancestors(c2, stop=fi.node)):
            continue
        if any(f_.name in ("attach_result", "push_snapshot") for f_ in ctx.types.resolve_call(c2, fi).repo) or is_attach_call(ctx, c2, fi):
            # exclusive branches (if / else) are not 'after'
            cs1 = {(norm(c_), pol) for c_, pol in paths.conditions(ctx.prog, node, fi)}
            cs2 = {(norm(c_), pol) for c_, pol in paths.conditions(ctx.prog, c2, fi)}
            if any((c_, not pol) in cs2 for c_, pol in cs1):
                continue
            return (fi, c2, "a failure of the plugin callback skips `%s` (%s): the plugin costs the whole result, not only its own contribution" % (norm(c2)[:60], fi.loc(c2)))
    if ct is not None:
        tr, h = ct
        for lp in loops:
            if paths.within(ctx.prog, lp, tr):      # loop lies inside the try body: the guard wraps the loop
                return (fi, node, "guard at %s wraps the whole loop: one failing element aborts the rest" % fi.loc(tr))
        # the handler is the last line of defence: what it does must not fail in turn
        for s_, e_ in g.unguarded_sites(fi):
            if any(paths.within(ctx.prog, s_.node, st) for st in h.body):
                return (fi, s_.node, "the handler at %s can fail itself (`%s` may raise %s): the failure it was meant to contain escapes after all" % (
                    fi.loc(h), norm(s_.node)[:50], "/".join(sorted(e_))))
        return None
    # statement-level loops without a guard inside: a failure aborts the remaining iterations in any case
    for lp in loops:
        if isinstance(lp, (ast.For, ast.While)):
            return (fi, node, "no guard inside the loop at %s: one failing element aborts the rest" % fi.loc(lp))
    callers = ctx.types.callers.get(ctx.types.fkey(fi), [])
    if fi.is_property:
        callers = [(cf, n) for cf in ctx.prog.functions.values() for n in ctx.types.nodes_in(cf, ast.Attribute)
                   if fi in ctx.types.property_targets(n, cf)]
    if not callers:
        return (fi, node, "unguarded, and %s has no in-repo caller to contain it" % fi.qname)
    for cf, call in callers:
        r = isolation(ctx, cf, call, depth + 1, seen)
        if r is not None:
            return r
    return None


def _plain_switch_key(subj: str) -> bool:
    """the key of getattr(config, KEY, ..) is PLUGIN_<NAME> put together from the literal and the plugin's name, upper-cased
    - and nothing else done to it (a rewritten key is another key than the documented one)"""
    try:
        e = ast.parse(subj.replace("@", ""), mode="eval").body
    except SyntaxError:
        return False
    if not (isinstance(e, ast.Call) and len(e.args) >= 2):
        return False
    for n in ast.walk(e.args[1]):
        if isinstance(n, ast.Call):
            if not (isinstance(n.func, ast.Attribute) and n.func.attr in ("upper", "format") and not n.keywords and (n.func.attr == "format" or not n.args)):
                return False
        elif isinstance(n, (ast.Subscript, ast.IfExp, ast.BoolOp, ast.Lambda, ast.ListComp, ast.GeneratorExp)):
            return False
    return True


def key_calls_order(ctx: Ctx, key: ast.expr, fi) -> bool:
    """The sort key (lambda or function reference) yields the plugin's order()."""
    def has_order(nodes, owner):
        for n in nodes:
            if isinstance(n, ast.Call) and any(t.name == "order" for t in ctx.types.resolve_call(n, owner).repo):
                return True
        return False
    if isinstance(key, ast.Lambda):
        return has_order(ast.walk(key.body), fi)
    for t in ctx.types.type_of(key, fi):
        if t[0] in ("func", "bound"):
            f = ctx.prog.functions.get(t[1])
            if f is not None and has_order(ctx.types.calls_in(f), f):
                return True
    return False


def run(ctx: Ctx, tier: str) -> Result:
    res = Result("C20")
    res.explanation = (
        "Plugin call-site isolation: every call that can run third-party plugin code (methods declared on the "
        "plugin interfaces, dynamic getattr dispatch on a metric processor, dynamic import/construction in the "
        "loader) must be enclosed - in its own function or on every in-repo call path - by a handler catching "
        "Exception that does not re-raise, and when the site sits in a loop the guard must lie inside the loop "
        "body. Loader shape: inactive plugins are skipped, result ordered by order().")
    res.trusted = [TRUSTED_LOGGING]
    res.not_decided = ["faults that do not surface as exceptions (hangs)", "third-party plugin internals"]
    res.rule("C20.ISO", "plugin callback site isolated (guard catching Exception, inside the loop)")
    res.rule("C20.LOAD", "loader skips inactive plugins and orders by order()")

    sites = plugin_sites(ctx)
    res.floor("plugin callback sites", len(sites), 11)
    for fi, call, desc in sorted(sites, key=lambda s: (s[0].qname, s[1].lineno)):
        bad = isolation(ctx, fi, call)
        if bad is None:
            res.ok("C20.ISO", {"site": norm(call)[:100], "at": fi.loc(call), "kind": desc})
        else:
            bf, bn, why = bad
            res.fail(Finding("C20.ISO", fi.qname, call, fi.loc(call),
                             "%s is not isolated: %s" % (desc, why)))

    # every plugin of the configured collection is called: the loops over plugins run over the whole collection, without
    # break, and what a plugin contributes is taken exactly when it contributed something
    PLUGIN_COLLS = ("snapshot_decorators", "metric_processors", "span_processors", "resource_providers", "plugins")
    nloops = 0
    for fi, call, desc in sites:
        for lp_ in [l for l in paths.enclosing_loops(ctx.prog, call, fi) if isinstance(l, ast.For)][:1]:
            src = ctx.expand.expand(lp_.iter, fi)
            raw = norm(lp_.iter)
            if not (any(("." + c_) in raw for c_ in PLUGIN_COLLS) or any("__plugin_generator(" in x or x.endswith("._plugins") for x in src)):
                continue
            nloops += 1
            cut = [n for n in ast.walk(lp_.iter) if isinstance(n, ast.Subscript) or (isinstance(n, ast.Call) and norm(n.func) in ("next", "itertools.islice", "islice"))]
            brk = [n for n in ast.walk(lp_) if isinstance(n, ast.Break)] + [n for n in ast.walk(lp_) if isinstance(n, ast.Return)]
            if cut or brk:
                res.fail(Finding("C20.ISO", fi.qname, (cut or brk)[0], fi.loc((cut or brk)[0]), "the loop over the plugins (%s) does not visit every plugin (`%s`): the others never run" % (
                    desc, norm((cut or brk)[0])[:50])))
            else:
                res.ok("C20.ISO", {"every plugin visited": fi.loc(lp_), "collection": src[0][-40:]})
            # contribution taken iff provided
            st = paths.stmt_of(ctx.prog, call)
            if desc.startswith("callback") and isinstance(st, ast.Assign) and isinstance(st.targets[0], ast.Name) and st.value is call:
                got = st.targets[0].id
                uses = [n for n in ast.walk(lp_) if isinstance(n, ast.Call) and any(isinstance(a, ast.Name) and a.id == got for a in n.args)]
                if not uses:
                    res.fail(Finding("C20.ISO", fi.qname, st, fi.loc(st), "what the plugin contributed (`%s`) is never used: healthy plugins lose their contribution" % got))
                for u in uses:
                    # what the plugin handed back is the plugin's too: taking it in (merging it) happens under a guard inside the loop
                    ct_u = ctx.guards.catching_try(u, fi, "Exception")
                    if ct_u is None or not paths.within(ctx.prog, ct_u[0], lp_):
                        res.fail(Finding("C20.ISO", fi.qname, u, fi.loc(u), "`%s` takes in what the plugin returned outside the per-plugin guard: a plugin answering with something that "
                                         "cannot be merged costs the whole snapshot / resource and the plugins after it" % norm(u)[:60]))
                        continue
                    cs_ = [(norm(c_), pol) for c_, pol in paths.conditions(ctx.prog, u, fi) if paths.within(ctx.prog, c_, lp_)]
                    okc = cs_ in ([(got, True)], [("%s is not None" % got, True)], [("%s is None" % got, False)], [("not %s" % got, False)])
                    if okc:
                        res.ok("C20.ISO", {"contribution used when provided": norm(u)[:60]})
                    else:
                        res.fail(Finding("C20.ISO", fi.qname, u, fi.loc(u), "what the plugin contributed (`%s`) is used when `%s`, not exactly when it contributed something: healthy "
                                         "plugins lose their contribution" % (got, " and ".join(("" if pol else "not ") + c_ for c_, pol in cs_) or "always")))
    res.floor("loops over plugin collections", nloops, 4)
    # the snapshot decorations collected from the plugins reach the snapshot
    dec = ctx.prog.func("deep.processor.context.snapshot_action.DeferredSnapshotActionResult._decorate_snapshot") \
        if "deep.processor.context.snapshot_action.DeferredSnapshotActionResult._decorate_snapshot" in ctx.prog.functions else None
    if dec is not None:
        acc = [n for n in ctx.types.nodes_in(dec, ast.Assign) if isinstance(n.value, ast.Call) and any(k.name == "BoundedAttributes" for k in ctx.types.resolve_call(n.value, dec).ctor)]
        okd = False
        if len(acc) == 1 and isinstance(acc[0].targets[0], ast.Name):
            an = acc[0].targets[0].id
            kw = {k.arg: norm(k.value) for k in acc[0].value.keywords}
            fin = [c for c in ctx.types.calls_in(dec) if isinstance(c.func, ast.Attribute) and c.func.attr in ("merge_in", "update") and len(c.args) == 1 and not c.keywords and norm(c.args[0]) == an
                   and not paths.conditions(ctx.prog, c, dec) and not paths.enclosing_loops(ctx.prog, c, dec)]
            okd = kw.get("immutable") == "False" and len(fin) == 1 and norm(fin[0].func.value).endswith("snapshot.attributes")
        if okd:
            res.ok("C20.ISO", {"decorations collected in a mutable set and merged into the snapshot": dec.loc(acc[0])})
        else:
            res.fail(Finding("C20.ISO", dec.qname, acc[0] if acc else "<attributes>", dec.loc(), "the decorations of the healthy plugins do not reach the snapshot (the collecting "
                             "attribute set is immutable, or it is never merged into the snapshot's attributes)"))

    # ---- loader shape
    lp = ctx.prog.func("deep.api.plugin.load_plugins")
    # a plugin is built from the configuration *by name*: the interface's constructor is (name, config) while the metric plugins'
    # is (config) - only `config=` means the same for all of them (given positionally the base class takes it for the name, and
    # the plugin's switch is then looked up on nothing)
    pinit0 = ctx.prog.func("deep.api.plugin.Plugin.__init__")
    for lf in [f_ for f_ in ctx.prog.functions.values() if f_.module.name == "deep.api.plugin" and f_.cls is None]:
        for c_ in ctx.types.calls_in(lf):
            tg_ = ctx.types.resolve_call(c_, lf)
            if tg_.unknown and isinstance(c_.func, ast.Name) and not tg_.repo and not tg_.ext and (c_.args or c_.keywords) and \
                    any(norm(a_) == "config" or norm(a_) == P(lf, 0).lstrip("@") for a_ in list(c_.args) + [k_.value for k_ in c_.keywords]):
                if c_.args or not any(k_.arg == "config" for k_ in c_.keywords):
                    res.fail(Finding("C20.LOAD", lf.qname, c_, lf.loc(c_), "`%s` hands the configuration to the plugin class by position: Plugin.__init__ is (name, config), so a plugin "
                                     "using the base constructor gets no configuration, reads its PLUGIN_<NAME> switch from None and can no longer be switched off" % norm(c_)[:40]))
                else:
                    res.ok("C20.LOAD", {"plugin constructed with config=": norm(c_)[:40]})
    appends = [c for c in ctx.types.calls_in(lp) if isinstance(c.func, ast.Attribute) and c.func.attr == "append"]
    need(appends, "load_plugins: no append of loaded plugin found")
    def _active_holds(node, f_):
        for test, pol in paths.conditions(ctx.prog, node, f_):
            inner = test.operand if isinstance(test, ast.UnaryOp) and isinstance(test.op, ast.Not) else test
            if isinstance(inner, ast.Name):
                # the answer held in a local first: `active = bool(plugin.is_active())` ... `if active:`
                lb_ = ctx.types.local_bindings(f_, inner.id)
                if len(lb_) == 1 and lb_[0][0] == "assign" and lb_[0][1][2] is None and lb_[0][1][1] is not None:
                    v_ = lb_[0][1][1]
                    if isinstance(v_, ast.Call) and isinstance(v_.func, ast.Name) and v_.func.id == "bool" and len(v_.args) == 1:
                        v_ = v_.args[0]
                    if isinstance(v_, ast.Call) and any(t.name == "is_active" for t in ctx.types.resolve_call(v_, f_).repo):
                        if (inner is not test) != pol:
                            return True
            for c in ast.walk(test):
                if isinstance(c, ast.Call) and any(t.name == "is_active" for t in ctx.types.resolve_call(c, f_).repo):
                    # active => kept : either `if x.is_active(): append` or `if not x.is_active(): continue`
                    neg = isinstance(test, ast.UnaryOp) and isinstance(test.op, ast.Not)
                    if neg != pol:
                        return True
        return False

    for a in appends:
        ok = _active_holds(a, lp)
        if not ok and a.args and isinstance(a.args[0], ast.Name):
            # the plugin comes from a creating helper that answers None for a plugin to skip: the append happens only for a
            # value that is not None, and the helper returns a plugin only with the is_active() test holding
            nm_ = a.args[0].id
            cs_ = [(norm(c_), pol) for c_, pol in paths.conditions(ctx.prog, a, lp)]
            notnone = any((t_ == "%s is None" % nm_ and not pol) or (t_ == "%s is not None" % nm_ and pol) for t_, pol in cs_)
            binds = [b for k_, b in ctx.types.local_bindings(lp, nm_) if k_ == "assign"]
            if notnone and len(binds) == 1 and isinstance(binds[0][1], ast.Call):
                hs = ctx.types.resolve_call(binds[0][1], lp).repo
                if len(hs) == 1 and hs[0].qname in ctx.prog.functions:
                    h = hs[0]
                    rets = [r for r in ctx.types.nodes_in(h, ast.Return) if r.value is not None and not (isinstance(r.value, ast.Constant) and r.value.value is None)]
                    ok = bool(rets) and all(_active_holds(r, h) for r in rets)
        if ok:
            res.ok("C20.LOAD", {"append only when active": norm(a), "at": lp.loc(a)})
        else:
            res.fail(Finding("C20.LOAD", lp.qname, a, lp.loc(a), "plugin appended without the is_active() test holding"))
    # the switch itself: a plugin is inactive exactly when its PLUGIN_<NAME> setting is text that reads as false
    ia = ctx.prog.func("deep.api.plugin.Plugin.is_active")
    from ..dtable import Table
    itb = Table(ctx, ia)
    rets_ = [r for r in ctx.types.nodes_in(ia, ast.Return) if r.value is not None]
    okia = len(itb.rows) >= 2
    setting = None
    for r in itb.rows:
        cs_ = [(norm(c_), pol) for c_, pol in r.conds]
        if r.kind != "return" or r.result is None or len(cs_) != 1 or not cs_[0][0].endswith(" is None"):
            okia = False
            break
        subj = cs_[0][0][: -len(" is None")]
        setting = setting or subj
        if subj != setting or "getattr(@self.config" not in subj or "plugin_" not in subj.lower():
            okia = False
        elif not _plain_switch_key(subj):
            okia = False
        elif cs_[0][1]:
            okia = okia and isinstance(r.result, ast.Constant) and r.result.value is True
        else:
            # the truth of the text: str2bool(setting) (possibly inlined as `.lower() in (...)`)
            txt = norm(r.result)
            okia = okia and (txt == "deep.utils.str2bool(%s)" % subj or txt.startswith(subj + ".lower() in ") or txt.startswith("str(%s).lower() in " % subj))
    if okia:
        res.ok("C20.LOAD", {"is_active": "str2bool(PLUGIN_<NAME> setting), active when the setting is absent"})
    else:
        res.fail(Finding("C20.LOAD", ia.qname, rets_[0] if rets_ else "<return>", ia.loc(), "Plugin.is_active does not answer str2bool(<PLUGIN_NAME setting>) (true only by default when the "
                         "setting is absent): a plugin switched off by configuration is loaded, or an enabled one is skipped"))
    # configured plugins are used unless none were given
    cp_ = lp.params[1] if len(lp.params) > 1 else None
    for kind, b in (ctx.types.local_bindings(lp, cp_) if cp_ else []):
        if kind != "assign":
            continue
        st_ = paths.stmt_of(ctx.prog, b[1])
        cs_ = [(norm(c_), pol) for c_, pol in paths.enclosing_conditions(ctx.prog, st_, lp)]
        if cs_ in ([("%s is None" % cp_, True)], [("not %s" % cp_, True)]) and isinstance(b[1], (ast.List, ast.Tuple)) and not b[1].elts:
            res.ok("C20.LOAD", {"configured plugin list replaced by [] only when absent": lp.loc(st_)})
        else:
            res.fail(Finding("C20.LOAD", lp.qname, st_, lp.loc(st_), "the configured plugin list `%s` is replaced when %s: configured plugins are not loaded" % (
                cp_, " and ".join(("" if pol else "not ") + c_ for c_, pol in cs_) or "always")))
    # the set of plugins loaded is a function of the configuration: no in-place mutation of module-level lists
    mod = lp.module
    consts = {n for n, v in mod.consts.items() if isinstance(v, (ast.List, ast.Dict, ast.Set))}
    for f in [x for x in ctx.prog.functions.values() if x.module is mod]:
        aliases = set(consts)
        for n in ctx.types.nodes_in(f, ast.Assign):
            if isinstance(n.value, ast.Name) and n.value.id in aliases and isinstance(n.targets[0], ast.Name):
                aliases.add(n.targets[0].id)
        local_rebinds = {n.targets[0].id for n in ctx.types.nodes_in(f, ast.Assign)
                         if isinstance(n.targets[0], ast.Name) and not (isinstance(n.value, ast.Name) and n.value.id in aliases)}
        for n in ctx.types.nodes_in(f):
            tgt = None
            if isinstance(n, ast.AugAssign) and isinstance(n.target, ast.Name):
                tgt = n.target.id
            elif isinstance(n, ast.Call) and isinstance(n.func, ast.Attribute) and isinstance(n.func.value, ast.Name) and \
                    n.func.attr in ("append", "extend", "insert", "remove", "pop", "clear", "update", "sort", "reverse"):
                tgt = n.func.value.id
            elif isinstance(n, (ast.Assign, ast.Delete)):
                for x in (n.targets if isinstance(n, (ast.Assign, ast.Delete)) else []):
                    if isinstance(x, ast.Subscript) and isinstance(x.value, ast.Name):
                        tgt = x.value.id
            if tgt is not None and tgt in aliases and tgt not in (local_rebinds - consts):
                res.fail(Finding("C20.LOAD", f.qname, n, f.loc(n),
                                 "the module-level plugin list `%s` is modified in place: plugins configured for one start leak into every "
                                 "later start (loaded twice, or loaded although no longer configured)" % tgt))
    gen_calls = [c for c in ctx.types.calls_in(lp) if any(x.name.endswith("plugin_generator") for x in ctx.types.resolve_call(c, lp).repo)]
    if len(gen_calls) == 1 and gen_calls[0].args:
        srcs = ctx.expand.expand(gen_calls[0].args[0], lp)
        custom_p = P(lp, 1)
        if all(("DEEP_PLUGINS" in x or "'deep.api.plugin" in x) for x in srcs) and any(custom_p in x for x in srcs):
            res.ok("C20.LOAD", {"plugins to load": srcs[0][:120]})
        else:
            res.fail(Finding("C20.LOAD", lp.qname, gen_calls[0], lp.loc(gen_calls[0]), "the plugins to load are not `system plugins + configured plugins`: %s" % [x[:100] for x in srcs]))
    else:
        res.fail(Finding("C20.LOAD", lp.qname, "<__plugin_generator(DEEP_PLUGINS + custom)>", lp.loc(), "the loader does not iterate the configured plugins once"))

    sorted_by_order = False
    for c in ctx.types.calls_in(lp):
        tg = ctx.types.resolve_call(c, lp)
        if any(e.endswith(".sort") or e == "builtins.sorted" for e in tg.ext):
            for kw in c.keywords:
                if kw.arg == "key":
                    if key_calls_order(ctx, kw.value, lp):
                        sorted_by_order = not any(k.arg == "reverse" for k in c.keywords)
                        # the sorted list is the one handed back: `x.sort(...)` on the returned list, or the value of
                        # `sorted(...)` returned (directly or through one local)
                        rets_l = [r for r in ctx.types.nodes_in(lp, ast.Return) if r.value is not None]
                        if any(e == "builtins.sorted" for e in tg.ext):
                            st_c = paths.stmt_of(ctx.prog, c)
                            used = isinstance(st_c, ast.Return) and st_c.value is c or \
                                (isinstance(st_c, ast.Assign) and st_c.value is c and isinstance(st_c.targets[0], ast.Name)
                                 and any(isinstance(r.value, ast.Name) and r.value.id == st_c.targets[0].id for r in rets_l))
                        else:
                            used = isinstance(c.func, ast.Attribute) and isinstance(c.func.value, ast.Name) and \
                                bool(rets_l) and all(isinstance(r.value, ast.Name) and r.value.id == c.func.value.id for r in rets_l)
                        sorted_by_order = sorted_by_order and used
    # a plugin whose order() answers nothing (None) sorts as 0: the comparison of None with a number raises outside every guard
    # and takes the start of the agent with it
    for c in ctx.types.calls_in(lp):
        tg = ctx.types.resolve_call(c, lp)
        if not any(e.endswith(".sort") or e == "builtins.sorted" for e in tg.ext):
            continue
        for kw in c.keywords:
            if kw.arg != "key":
                continue
            bodies = []
            if isinstance(kw.value, ast.Lambda):
                bodies = [(lp, kw.value.body)]
            else:
                for ty in ctx.types.type_of(kw.value, lp):
                    if ty[0] in ("func", "bound") and ty[1] in ctx.prog.functions:
                        kf = ctx.prog.functions[ty[1]]
                        bodies += [(kf, r.value) for r in ctx.types.nodes_in(kf, ast.Return) if r.value is not None]
            for kf, e in bodies:
                calls_ = [n for n in ast.walk(e) if isinstance(n, ast.Call) and any(t_.name == "order" for t_ in ctx.types.resolve_call(n, kf).repo)]
                if not calls_:
                    continue
                dflt = isinstance(e, ast.BoolOp) and isinstance(e.op, ast.Or) and e.values[0] is calls_[0] and isinstance(e.values[-1], ast.Constant) and isinstance(e.values[-1].value, int)
                dflt = dflt or (isinstance(e, ast.IfExp))
                if isinstance(e, ast.Call) and isinstance(e.func, ast.Name) and e.func.id in ("int", "round", "abs", "bool"):
                    res.fail(Finding("C20.LOAD", kf.qname, e, kf.loc(e), "the sort key is `%s`, not the declared order itself: orders that differ (0.2 / 0.7, -0.5 / 0) are made equal and "
                                     "the plugins fall back to configuration order" % norm(e)[:50]))
                    continue
                guarded = ctx.guards.catching_try(c, lp, "TypeError") is not None
                if dflt or guarded:
                    res.ok("C20.LOAD", {"an order() of None sorts as a number": norm(e)[:50]})
                else:
                    res.fail(Finding("C20.LOAD", kf.qname, e, kf.loc(e), "the sort key is `%s` as it comes: a plugin whose order() returns None makes the sort raise TypeError outside "
                                     "every guard - no plugin is loaded and the agent does not start" % norm(e)[:50]))
    if sorted_by_order:
        res.ok("C20.LOAD", {"sorted by order()": True})
    else:
        res.fail(Finding("C20.LOAD", lp.qname, "<sort by order()>", lp.loc(), "loaded plugins are not sorted ascending by order()"))
    # the plugins the agent works with are the ones loaded by this start: nothing remembered from an earlier plugin list
    # outlives the assignment of a new one
    from .common import stale_memo_fields
    nmemo = 0
    for c_ in ctx.prog.classes.values():
        if not c_.module.name.startswith("deep.config"):
            continue
        nmemo += 1
        for m2, n_, k_, f_, m_ in stale_memo_fields(ctx, c_):
            res.fail(Finding("C20.LOAD", m2.qname, n_, m2.loc(n_), "`%s` gets a new value here but `self.%s`, which %s fills from it and consults first, is left as it is: after a "
                             "second start the plugins of the first one (switched off or shut down since) are still the ones that are called" % (norm(n_), k_, m_.name)))
    res.ok("C20.LOAD", {"no memo of an instance field survives its reassignment (configuration classes)": nmemo})
    # what is remembered is stored complete: an entry put into a shared field and filled in afterwards is seen half-filled by a
    # second thread asking at that moment (its hit runs only some of the active plugins)
    from .common import _MUTATORS
    for c_ in ctx.prog.classes.values():
        if not c_.module.name.startswith("deep.config"):
            continue
        for m_ in [m for lst in c_.methods.values() for m in lst if m.name != "__init__"]:
            for n_ in ctx.types.nodes_in(m_, ast.Assign):
                shared_t = [tg for tg in n_.targets if isinstance(tg, ast.Subscript) and isinstance(tg.value, ast.Attribute) and isinstance(tg.value.value, ast.Name)
                            and tg.value.value.id == "self"]
                if not shared_t:
                    continue
                names_ = [tg.id for tg in n_.targets if isinstance(tg, ast.Name)] + ([n_.value.id] if isinstance(n_.value, ast.Name) else [])
                for nm_ in names_:
                    later = [x for x in ctx.types.calls_in(m_) if isinstance(x.func, ast.Attribute) and x.func.attr in _MUTATORS and isinstance(x.func.value, ast.Name)
                             and x.func.value.id == nm_ and x.lineno > n_.lineno]
                    if later:
                        res.fail(Finding("C20.LOAD", m_.qname, later[0], m_.loc(later[0]), "`%s` goes on filling `%s` after it was stored in `%s`, a field every thread reads: a thread asking "
                                         "meanwhile gets the half-filled list and runs only some of the active plugins for its hit" % (norm(later[0])[:40], nm_, norm(shared_t[0])[:40])))
    from .common import unsound_memos
    for c_ in ctx.prog.classes.values():
        if not c_.module.name.startswith("deep.config"):
            continue
        um_ = unsound_memos(ctx, c_)
        for m_, n_, what_ in um_:
            res.fail(Finding("C20.LOAD", m_.qname, n_, m_.loc(n_), "%s - the plugins asked are those of an earlier plugin set (a switched-off plugin keeps being called, a newly "
                             "enabled one never is)" % what_))
        if not um_:
            res.ok("C20.LOAD", {"%s: no cached answer outlives the plugin list it was worked out from" % c_.name: True})
    from .common import borrow
    borrow(ctx, res, tier, "c19", ("C19.CHAIN",), "C20.SWITCH", "a plugin switch given in configuration resolves as documented (a falsy value is a value)")
    # every plugin hands its name and the configuration to the base constructor in their own places (the switch
    # PLUGIN_<NAME> is read from `config` under `name`)
    pinit = ctx.prog.func("deep.api.plugin.Plugin.__init__")
    nsup = 0
    for f_ in ctx.prog.functions.values():
        if f_.name != "__init__" or f_.cls is None or not any(k.qname == "deep.api.plugin.Plugin" for k in f_.cls.mro[1:]):
            continue
        for c_ in ctx.types.calls_in(f_):
            if not (isinstance(c_.func, ast.Attribute) and c_.func.attr == "__init__" and pinit in ctx.types.resolve_call(c_, f_).repo):
                continue
            nsup += 1
            b_ = ctx.types.bind_args(pinit, c_)
            bad_ = []
            for pn, a_ in b_.items():
                if pn in ("name", "config") and isinstance(a_, ast.Name) and a_.id in ("name", "config") and a_.id != pn:
                    bad_.append((pn, a_.id))
                if pn == "config" and isinstance(a_, ast.Constant) and isinstance(a_.value, str):
                    bad_.append((pn, repr(a_.value)))
                if pn == "name" and isinstance(a_, ast.Name) and a_.id.lower().endswith("config"):
                    bad_.append((pn, a_.id))
            if bad_:
                res.fail(Finding("C20.LOAD", f_.qname, c_, f_.loc(c_), "the base constructor receives %s: the plugin's switch is looked up on the wrong object and always reads as "
                                 "`active` - a plugin switched off by configuration is loaded" % ", ".join("`%s` as its %s" % (v, k) for k, v in bad_)))
            else:
                res.ok("C20.LOAD", {"base constructor gets name/config in place": f_.qname})
    res.floor("plugin constructors calling the base constructor", nsup, 2)
    return res
