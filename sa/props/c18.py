"""C18 resource identity and bounded attributes - see DESIGN.md section 4 (C18)."""
import ast

from .common import Ctx, Finding, Result, need, term, P, TRUSTED_LOGGING
from .c03 import table_rule
from ..index import norm
from ..dtable import Table, Vars
from .. import paths

BA = "deep.api.attributes.BoundedAttributes"
RES = "deep.api.resource.Resource"
MUT_CALLS = {"popitem", "pop", "clear", "update", "setdefault", "move_to_end", "__setitem__", "__delitem__"}


def dict_mutations(ctx: Ctx, f, field="_dict"):
    out = []
    for n in ctx.types.nodes_in(f):
        if isinstance(n, ast.Subscript) and isinstance(n.ctx, (ast.Store, ast.Del)) and norm(n.value) == "self." + field:
            out.append(n)
        elif isinstance(n, ast.Call) and isinstance(n.func, ast.Attribute) and n.func.attr in MUT_CALLS and norm(n.func.value) == "self." + field:
            out.append(n)
        elif isinstance(n, (ast.Assign, ast.AugAssign)) and f.name != "__init__":
            tg = n.targets[0] if isinstance(n, ast.Assign) else n.target
            if norm(tg) == "self." + field:
                out.append(n)
    return out




def _elem_type_text(x, value):
    """the expansion denotes the type of an element of the value: `type(<elem>(value))`, or an element of the list of the
    types of the (cleaned, non-None) elements"""
    import re as _re
    if x.startswith("type(") and ("<elem>(%s)" % value in x or "<loop:" in x):
        return True
    m = _re.match(r"^<elem>\(\[type\((\w+)\) for \1 in (.+)\]\)$", x)
    return bool(m) and value in m.group(2)

def _fold_step_ok(ctx, step):
    """step(acc, provider) answers `acc.merge(<provider.resource()>)` or `acc` itself on every path"""
    p, t = ctx.prog, ctx.types
    ps = [a for a in step.params if a not in ("self", "cls")]
    if len(ps) != 2:
        return False
    acc, item = ps
    pm = [c for c in t.calls_in(step) if any(x.qname == RES + ".merge" for x in t.resolve_call(c, step).repo)]
    if len(pm) != 1 or norm(pm[0].func.value) != acc or not pm[0].args:
        return False
    src = ctx.expand.expand(pm[0].args[0], step)[0]
    if "resource()" not in src or item not in src:
        return False
    for x in t.nodes_in(step, (ast.Assign, ast.AugAssign)):
        for tg in (x.targets if isinstance(x, ast.Assign) else [x.target]):
            if isinstance(tg, ast.Name) and tg.id == item:
                return False
            if isinstance(tg, ast.Name) and tg.id == acc and not (isinstance(x, ast.Assign) and x.value is pm[0]):
                return False
    rets = [r for r in t.nodes_in(step, ast.Return)]
    if not rets or not all(r.value is pm[0] or (isinstance(r.value, ast.Name) and r.value.id == acc) for r in rets):
        return False
    # the step ends in a return on every path (no fall-through answering None)
    return isinstance(step.node.body[-1], ast.Return)


def _plugin_fold(ctx, ds0):
    """Other shapes of the plugin accumulation: `config.resource = reduce(step, providers, Resource.create())`, or
    `for provider in providers: acc = step(acc, provider)` - where `step` is a function as in _fold_step_ok."""
    p, t = ctx.prog, ctx.types

    def step_of(e):
        for ty in t.type_of(e, ds0):
            if ty[0] in ("func", "bound") and ty[1] in p.functions:
                return p.functions[ty[1]]
        return None
    for n in t.nodes_in(ds0, ast.Assign):
        if not (isinstance(n.targets[0], ast.Attribute) and n.targets[0].attr == "resource"):
            continue
        v = n.value
        if isinstance(v, ast.Name):
            accn = v.id
            bs = [b for k, b in t.local_bindings(ds0, v.id) if k == "assign"]
            if len(bs) == 1:
                v = bs[0][1]
            elif len(bs) == 2:
                # loop form: acc = Resource.create(); for provider in providers: acc = step(acc, provider)
                init = [b for b in bs if not paths.enclosing_loops(p, b[1], ds0)]
                upd = [b for b in bs if paths.enclosing_loops(p, b[1], ds0)]
                if len(init) != 1 or len(upd) != 1 or "Resource.create()" not in ctx.expand.expand(init[0][1], ds0)[0]:
                    continue
                c = upd[0][1]
                lps = [l for l in paths.enclosing_loops(p, c, ds0) if isinstance(l, ast.For)]
                if not (isinstance(c, ast.Call) and len(c.args) == 2 and lps and isinstance(lps[0].target, ast.Name)):
                    continue
                it_ = ctx.expand.expand(lps[0].iter, ds0)[0]
                step = step_of(c.func)
                if step is None and t.resolve_call(c, ds0).repo:
                    step = t.resolve_call(c, ds0).repo[0]
                if step is not None and norm(c.args[0]) == accn and norm(c.args[1]) == lps[0].target.id and not paths.conditions(p, c, ds0) and \
                        ("resource_providers" in it_ or "ResourceProvider" in it_) and _fold_step_ok(ctx, step) and \
                        not [x for x in ast.walk(lps[0]) if isinstance(x, (ast.Break, ast.Return))]:
                    return True
                continue
            else:
                continue
        if not (isinstance(v, ast.Call) and len(v.args) == 3 and not v.keywords and "functools.reduce" in t.resolve_call(v, ds0).ext):
            continue
        step = step_of(v.args[0])
        if step is None:
            continue
        it_ = ctx.expand.expand(v.args[1], ds0)[0]
        if ("resource_providers" not in it_ and "ResourceProvider" not in it_) or "Resource.create()" not in ctx.expand.expand(v.args[2], ds0)[0]:
            continue
        if _fold_step_ok(ctx, step):
            return True
    return False

def run(ctx: Ctx, tier: str) -> Result:
    res = Result("C18")
    res.explanation = (
        "Shape rules of the attribute container and the resource: every mutation of the backing dict is dominated by "
        "the `_immutable` test that raises and holds the instance lock, the backing dict never escapes; a new key "
        "with capacity 0 is dropped and counted, at capacity exactly one oldest entry is evicted (popitem(last=False)) "
        "and counted, a replaced key evicts nothing; only the non-None result of _clean_attribute is stored; cleaning "
        "tables; Resource.merge writes nothing to either operand, starts from a copy of self updated with other and "
        "follows the schema-URL table; Resource.create chains default -> environment -> code -> service-name "
        "fallback; Deep.start merges each plugin resource onto the accumulated one in plugin order; the default "
        "resource has the three telemetry.sdk.* keys.")
    res.trusted = [TRUSTED_LOGGING, "OrderedDict.popitem(last=False) removes the oldest entry; dict.copy()/update() semantics"]
    res.not_decided = ["contents after concrete operation sequences (dropped counter values)", "environment parsing of concrete strings"]
    for rid, text in (("C18.FROZEN", "mutations guarded by the immutable test; backing dict never escapes"),
                      ("C18.CAP", "capacity: drop at 0, evict oldest exactly once when full, replace evicts nothing, all under the lock"),
                      ("C18.CLEAN", "only cleaned non-None values stored; cleaning rules"),
                      ("C18.MERGE", "merge is pure, right-biased, schema-URL table"),
                      ("C18.CHAIN", "source precedence: default < environment < code < service-name fallback; plugins onto accumulated")):
        res.rule(rid, text)
    p, t, g = ctx.prog, ctx.types, ctx.guards
    ba = p.cls(BA)

    # ---------------- FROZEN
    nm = 0
    for lst in ba.methods.values():
        for f in lst:
            muts = dict_mutations(ctx, f)
            for n in muts:
                nm += 1
                if f.name == "__init__":
                    continue
                conds = paths.conditions(p, n, f)
                def is_flag(c):
                    return norm(c) in ("self._immutable", "getattr(self, '_immutable', False)", "getattr(self, '_immutable', None)")
                guarded = any(not pol and is_flag(c) for c, pol in conds)
                raises = [r for r in t.nodes_in(f, ast.Raise) if any(pol and is_flag(c) for c, pol in paths.conditions(p, r, f))]
                locked = any(isinstance(a, ast.With) and any("_lock" in norm(i.context_expr) for i in a.items) for a in p.ancestors(n, stop=f.node))
                if guarded and raises:
                    res.ok("C18.FROZEN", {"method": f.name, "mutation": norm(n)[:50]})
                else:
                    res.fail(Finding("C18.FROZEN", f.qname, n, f.loc(n), "the backing dict is modified without the `_immutable` test that raises dominating it: a frozen container can be changed"))
                if locked:
                    res.ok("C18.CAP", {"method": f.name, "under lock": norm(n)[:50]})
                else:
                    res.fail(Finding("C18.CAP", f.qname, n, f.loc(n), "the backing dict is modified outside `with self._lock`"))
            for r in t.nodes_in(f, (ast.Return, ast.Yield)):
                if r.value is not None and norm(r.value) in ("self._dict", "iter(self._dict)", "self._dict.items()", "self._dict.values()", "self._dict.keys()"):
                    res.fail(Finding("C18.FROZEN", f.qname, r, f.loc(r), "the backing dict (or a live view of it) is handed out: callers can modify a frozen container"))
    res.floor("backing-dict mutation sites", nm, 4)
    # the backing store is the container's own: every binding of `_dict` is a new empty mapping (entries arrive through
    # __setitem__, cleaned and counted) - a mapping taken over from the caller is neither cleaned nor frozen
    nbind = 0
    for sf_, v_, _ in t.field_stores(ba, "_dict"):
        nbind += 1
        own = isinstance(v_, ast.Call) and norm(v_.func) in ("OrderedDict", "collections.OrderedDict", "dict") and not v_.args and not v_.keywords
        own = own or (isinstance(v_, ast.Dict) and not v_.keys)
        if own:
            res.ok("C18.CLEAN", {"backing store created empty in": sf_.name})
        else:
            res.fail(Finding("C18.CLEAN", sf_.qname, v_, sf_.loc(v_), "the backing store is set to `%s`, not to a new empty mapping filled through __setitem__: the values are stored "
                             "uncleaned and the mapping stays shared with whoever passed it (a frozen container changes when the caller changes its mapping)" % norm(v_)[:50]))
    res.floor("bindings of the backing store", nbind, 1)
    init = ba.lookup("__init__")
    imm = [(sf, v) for sf, v, _ in t.field_stores(ba, "_immutable")]
    sets = [c for c in t.nodes_in(init, ast.Subscript) if isinstance(c.ctx, ast.Store) and norm(c.value) == "self"]
    last_stmt = init.node.body[-1]
    if imm and all(sf is init and norm(v) == init.params[3] for sf, v in imm) and paths.stmt_of(p, imm[0][1]) is last_stmt and \
            all(s_.lineno < imm[0][1].lineno for s_ in sets):
        res.ok("C18.FROZEN", {"_immutable set last in __init__ from its parameter": True})
    else:
        res.fail(Finding("C18.FROZEN", init.qname, "<self._immutable = immutable>", init.loc(), "the immutable flag is not set once, from the constructor argument, after the initial attributes were stored"))
    # the initial attributes go in one by one through __setitem__, all of them: capacity, cleaning and the drop count are decided
    # there per entry (an entry that is rejected takes no slot and evicts nothing - a count worked out from the sizes is wrong)
    okinit = False
    if len(sets) == 1:
        lps_i = [l for l in paths.enclosing_loops(p, sets[0], init) if isinstance(l, ast.For)]
        st_i = paths.stmt_of(p, sets[0])
        if len(lps_i) == 1 and isinstance(lps_i[0].target, ast.Tuple) and len(lps_i[0].target.elts) == 2:
            it_x = ctx.expand.expand(lps_i[0].iter, init)
            okinit = it_x == ["%s.items()" % P(init, 2)] and norm(sets[0].slice) == norm(lps_i[0].target.elts[0]) and norm(st_i.value) == norm(lps_i[0].target.elts[1]) \
                and not [n for n in ast.walk(lps_i[0]) if isinstance(n, (ast.Break, ast.Continue, ast.Return))] \
                and not [c_ for c_, pol in paths.conditions(p, sets[0], init) if paths.within(p, c_, lps_i[0])]
    drops_i = [n for n in t.nodes_in(init, (ast.Assign, ast.AugAssign)) if any(norm(x) == "self.dropped" for x in (n.targets if isinstance(n, ast.Assign) else [n.target]))
               and not (isinstance(n, ast.Assign) and isinstance(n.value, ast.Constant) and n.value.value == 0)]
    if okinit and not drops_i:
        res.ok("C18.CAP", {"initial attributes stored one by one through __setitem__": True})
    elif not sets and not any(True for _ in [0] if init.params[2:3]):
        pass
    else:
        bad_ = drops_i[0] if drops_i else (sets[0] if sets else init.node)
        res.fail(Finding("C18.CAP", init.qname, bad_, init.loc(bad_), "the constructor does not put every initial attribute through __setitem__ (or sets the drop count itself): entries that "
                         "would have been rejected are counted as if they had taken a slot, and valid older entries are lost for them"))
    default_imm = None
    a = init.node.args
    for prm, d in zip((a.posonlyargs + a.args)[len(a.posonlyargs + a.args) - len(a.defaults):], a.defaults):
        if prm.arg == init.params[3]:
            default_imm = norm(d)
    rinit = p.cls(RES).lookup("__init__")
    rc = [c for c in t.calls_in(rinit) if ba in t.resolve_call(c, rinit).ctor]
    if default_imm == "True" and len(rc) == 1 and not any(k.arg == "immutable" for k in rc[0].keywords) and len(rc[0].args) < 3:
        res.ok("C18.FROZEN", {"resources hold frozen attributes": norm(rc[0])})
    else:
        res.fail(Finding("C18.FROZEN", rinit.qname, rc[0] if rc else "<BoundedAttributes(...)>", rinit.loc(), "a Resource's attributes are not frozen (immutable default %s)" % default_imm))

    # ---------------- CAP
    si = ba.lookup("__setitem__")
    stores = [n for n in t.nodes_in(si, ast.Subscript) if isinstance(n.ctx, ast.Store) and norm(n.value) == "self._dict"]
    pops = [c for c in t.calls_in(si) if isinstance(c.func, ast.Attribute) and c.func.attr == "popitem"]
    drops = [n for n in t.nodes_in(si, ast.AugAssign) if norm(n.target) == "self.dropped"]
    need(len(stores) == 1, "__setitem__: expected exactly one store into the backing dict")
    # the fullness / membership tests that decide the eviction must be made under the same lock as the insert
    reads = [n for n in t.nodes_in(si, ast.Attribute) if norm(n) == "self._dict" and isinstance(n.ctx, ast.Load)]
    unlocked = [n for n in reads if not any(isinstance(a, ast.With) and any("_lock" in norm(i.context_expr) for i in a.items) for a in p.ancestors(n, stop=si.node))]
    if reads and not unlocked:
        res.ok("C18.CAP", {"capacity decision and insert in one critical section": len(reads)})
    for n in unlocked[:2]:
        st_ = paths.stmt_of(p, n)
        res.fail(Finding("C18.CAP", si.qname, st_, si.loc(st_), "the container is inspected outside `with self._lock` to decide the eviction: two threads inserting new keys at capacity-1 both "
                         "see `not full` and the container exceeds its capacity without counting a drop"))
    # capacity 0
    def is_zero(c):
        return norm(c) in ("self.max_length is not None and self.max_length == 0", "self.max_length == 0", "self.max_length is not None and self.max_length <= 0")
    zero = [d for d in drops if any(pol and is_zero(c) for c, pol in paths.conditions(p, d, si))]
    okz = False
    if len(zero) == 1:
        blk = paths.block_position(p, zero[0])
        sibs = getattr(blk[0], blk[1])
        okz = isinstance(zero[0].op, ast.Add) and norm(zero[0].value) == "1" and any(isinstance(x, ast.Return) for x in sibs[blk[2] + 1:]) \
            and all(not paths.dominates(p, stores[0], zero[0], si) for _ in [0])
    if okz and any(not pol and is_zero(c) for c, pol in paths.conditions(p, stores[0], si)):
        res.ok("C18.CAP", {"capacity 0": "count one drop and return before storing"})
    else:
        res.fail(Finding("C18.CAP", si.qname, "<max_length == 0: dropped += 1; return>", si.loc(), "a container of capacity 0 does not drop (and count) every value"))
    # eviction
    oke = False
    _evict_stmt = None
    if not pops:
        # the oldest entry removed by hand: `del self._dict[next(iter(self._dict))]` (the key possibly held in a local)
        for d_ in t.nodes_in(si, ast.Delete):
            for tg_ in d_.targets:
                if isinstance(tg_, ast.Subscript) and norm(tg_.value) == "self._dict":
                    k_ = tg_.slice
                    if isinstance(k_, ast.Name):
                        lb_ = [b for kk, b in t.local_bindings(si, k_.id) if kk == "assign"]
                        k_ = lb_[0][1] if len(lb_) == 1 and len(t.local_bindings(si, k_.id)) == 1 and lb_[0][2] is None else k_
                    if norm(k_) == "next(iter(self._dict))":
                        pops.append(ast.copy_location(ast.Call(func=ast.Attribute(value=tg_.value, attr="popitem", ctx=ast.Load()), args=[],
                                                               keywords=[ast.keyword(arg="last", value=ast.Constant(False))]), d_))
                        ctx._extra.setdefault("keepalive", []).append(pops[-1])
                        _evict_stmt = d_
    if len(pops) == 1:
        kw = {k.arg: norm(k.value) for k in pops[0].keywords}
        anchor_ = pops[0] if id(pops[0]) in p.parent else _evict_stmt
        conds = [(norm(c), pol) for c, pol in paths.conditions(p, anchor_, si)]
        new_key = any(("in self._dict" in c and "key" in c and not pol) for c, pol in conds)
        full = any(pol and "len(self._dict) == self.max_length" in c and "max_length is not None" in c for c, pol in conds)
        blk = paths.block_position(p, paths.stmt_of(p, anchor_))
        sibs = getattr(blk[0], blk[1])
        counted = [d for d in drops if d in sibs and isinstance(d.op, ast.Add) and norm(d.value) == "1"]
        oke = kw.get("last") == "False" and new_key and full and len(counted) == 1 and pops[0].lineno < stores[0].lineno
    if oke:
        res.ok("C18.CAP", {"eviction": "new key and full -> popitem(last=False), dropped += 1, then store"})
    else:
        res.fail(Finding("C18.CAP", si.qname, pops[0] if pops else "<popitem(last=False)>", si.loc(),
                         "a new key inserted into a full container does not evict exactly the oldest entry and count one drop"))
    if len(drops) == 2:
        res.ok("C18.CAP", {"drops counted only for capacity-0 and eviction": True})
    else:
        res.fail(Finding("C18.CAP", si.qname, "<self.dropped += 1>", si.loc(), "the dropped counter is changed at %d places (expected 2: capacity 0, eviction)" % len(drops)))
    dels = [n for n in t.nodes_in(si, ast.Delete) if n is not _evict_stmt]
    okr = dels and all(any(pol and "in self._dict" in norm(c) for c, pol in paths.conditions(p, d, si)) for d in dels) and \
        not any(paths.within(p, pops[0], b) for d in dels for b in [paths.block_position(p, d)[0]] if pops and isinstance(b, ast.If) and paths.within(p, _evict_stmt or pops[0], ast.Module(body=b.body, type_ignores=[])))
    if okr or not dels:
        res.ok("C18.CAP", {"replacing an existing key evicts nothing": True})
    else:
        res.fail(Finding("C18.CAP", si.qname, dels[0], si.loc(dels[0]), "replacing an existing key also evicts another entry"))

    # ---------------- CLEAN
    sv = ctx.expand.expand(paths.stmt_of(p, stores[0]).value, si)
    conds = [(norm(c), pol) for c, pol in paths.conditions(p, stores[0], si)]
    k_, v_ = P(si, 1), P(si, 2)
    want = "deep.api.attributes._clean_attribute(%s, %s, @self.max_value_len)" % (k_, v_)
    want2 = want.replace(v_ + ",", "<loop:%s>," % v_[1:])
    others = [x for x in sv if x != v_]
    if others and all(x in (want, want2) for x in others) and any((c.endswith("is not None") and pol) or (c.endswith(" is None") and not pol) for c, pol in conds):
        res.ok("C18.CLEAN", {"stored value": want, "only when": "not None"})
    else:
        res.fail(Finding("C18.CLEAN", si.qname, stores[0], si.loc(stores[0]), "the stored value is not the non-None result of _clean_attribute(key, value, max_value_len): %s under %s" % (sv, conds)))
    cav = p.func("deep.api.attributes._clean_attribute_value")
    ct = Table(ctx, cav)
    V, L = P(cav, 0), P(cav, 1)
    rv = Vars()
    rv.enum(V, None); rv.enum(L, None)
    isb = [k for k in ct.vars.truths if k.startswith("isinstance(") and "bytes" in k]
    iss = [k for k in ct.vars.truths if k.startswith("isinstance(") and ", str)" in k]
    if len(isb) == 1 and len(iss) >= 1:
        def refc(w):
            if w.enum[V] is None:
                return lambda got: got[0] == "return" and got[1] is None
            is_bytes = w.truth[isb[0]]
            dec = [k for k in iss if ".decode()" in k]
            plain = [k for k in iss if ".decode()" not in k]
            if is_bytes:
                if dec and not w.truth[dec[0]]:
                    return lambda got: True       # infeasible: decoded bytes are text
                is_text = True
            else:
                is_text = bool(plain) and w.truth[plain[0]]
            cut = w.enum[L] is not None and is_text
            return lambda got: got[0] == "return" and isinstance(got[1], str) and (got[1].endswith("[:%s]" % L) == cut) \
                and (".decode()" in got[1]) == is_bytes
        for k in isb + iss:
            rv.truth(k)
        table_rule(res, "C18.CLEAN", ct, rv, refc, "None -> None; text cut to the limit when a limit is set; other values unchanged")
    else:
        res.fail(Finding("C18.CLEAN", cav.qname, "<isinstance(value, bytes) / isinstance(value, str)>", cav.loc(), "value cleaning does not distinguish bytes and text"))
    dec = [c for c in t.calls_in(cav) if isinstance(c.func, ast.Attribute) and c.func.attr == "decode"]
    if dec and g.catching_try(dec[0], cav, "UnicodeDecodeError") is not None:
        tr, h = g.catching_try(dec[0], cav, "UnicodeDecodeError")
        if all(isinstance(r.value, ast.Constant) and r.value.value is None for r in ast.walk(h) if isinstance(r, ast.Return)):
            res.ok("C18.CLEAN", {"undecodable bytes rejected": True})
        else:
            res.fail(Finding("C18.CLEAN", cav.qname, h, cav.loc(h), "undecodable bytes are not rejected"))
    else:
        res.fail(Finding("C18.CLEAN", cav.qname, "<value.decode()>", cav.loc(), "bytes are not decoded inside a guard for UnicodeDecodeError"))
    ca = p.func("deep.api.attributes._clean_attribute")
    first = [s_ for s_ in ca.node.body if not (isinstance(s_, ast.Expr) and isinstance(s_.value, ast.Constant))][0]
    okk = isinstance(first, ast.If) and "isinstance(%s, str)" % ca.params[0] in norm(first.test) and paths.always_exits(first.body) and \
        all(isinstance(r.value, ast.Constant) and r.value.value is None for r in ast.walk(first) if isinstance(r, ast.Return))
    rets = [r for r in t.nodes_in(ca, ast.Return)]
    tup = [r for r in rets if isinstance(r.value, ast.Call) and norm(r.value.func) == "tuple"]
    prim = [r for r in rets if isinstance(r.value, ast.Call) and "_clean_attribute_value" in norm(r.value.func)]
    nones = [r for r in rets if isinstance(r.value, ast.Constant) and r.value.value is None]
    mixed = [n for n in t.nodes_in(ca, ast.Compare) if isinstance(n.ops[0], ast.NotEq) and "type" in norm(n)]
    # every element of a sequence must itself be of a valid primitive type: the rejection returns None
    inval = [r for r in nones if any(pol and isinstance(c, ast.Compare) and len(c.ops) == 1 and isinstance(c.ops[0], ast.NotIn)
                                     and norm(c.comparators[0]) == "_VALID_ATTR_VALUE_TYPES"
                                     and all(_elem_type_text(x, P(ca, 1)) for x in ctx.expand.expand(c.left, ca))
                                     for c, pol in paths.conditions(p, r, ca)) and paths.enclosing_loops(p, r, ca)]
    if inval:
        res.ok("C18.CLEAN", {"sequence element of an invalid type rejects the value": ca.loc(inval[0])})
    else:
        res.fail(Finding("C18.CLEAN", ca.qname, "<element type not in _VALID_ATTR_VALUE_TYPES -> None>", ca.loc(),
                         "a sequence holding an element of an invalid type (dict, object, nested list) is no longer rejected: invalid values are stored"))
    if okk and len(tup) == 1 and len(prim) == 1 and len(nones) >= 4 and len(rets) == len(tup) + len(prim) + len(nones) and mixed \
            and any(pol and any("isinstance(%s, _VALID_ATTR_VALUE_TYPES)" % ca.params[1] in norm(c) for c, _ in [(c, pol)]) for c, pol in paths.conditions(p, prim[0], ca)):
        res.ok("C18.CLEAN", {"_clean_attribute": "invalid key -> None; primitive -> cleaned; homogeneous sequence -> tuple; mixed/invalid -> None"})
    else:
        res.fail(Finding("C18.CLEAN", ca.qname, "<cleaning rules>", ca.loc(), "attribute cleaning no longer rejects invalid keys / mixed sequences or no longer freezes sequences into tuples"))

    # ---------------- MERGE
    mi = ba.lookup("merge_in")
    need(mi is not None, "BoundedAttributes.merge_in not found")
    mst = [n for n in t.nodes_in(mi, ast.Subscript) if isinstance(n.ctx, ast.Store) and norm(n.value) == "self"]
    okmi = False
    if len(mst) == 1:
        lps_ = [l for l in paths.enclosing_loops(p, mst[0], mi) if isinstance(l, ast.For)]
        st_ = paths.stmt_of(p, mst[0])
        okmi = len(lps_) == 1 and norm(lps_[0].iter) in ("%s.items()" % mi.params[1], "list(%s.items())" % mi.params[1]) and not paths.conditions(p, mst[0], mi) \
            and isinstance(lps_[0].target, ast.Tuple) and norm(mst[0].slice) == norm(lps_[0].target.elts[0]) and norm(st_.value) == norm(lps_[0].target.elts[1]) \
            and not list(t.nodes_in(mi, (ast.Break, ast.Return)))
    if okmi:
        res.ok("C18.MERGE", {"merge_in stores every item through __setitem__": True})
    else:
        res.fail(Finding("C18.MERGE", mi.qname, mst[0] if mst else "<self[k] = v for every item>", mi.loc(), "merge_in does not store every (key, value) of the other attributes"))
    # the resource keeps every key of every source: its own store has no capacity (a bounded one evicts oldest-first, and
    # the oldest keys of a resource are the SDK identity and the service name)
    rinit = p.cls(RES).lookup("__init__")
    bac = p.cls(BA)
    bainit = bac.lookup("__init__")
    rctors = [c for c in t.calls_in(rinit) if bac in t.resolve_call(c, rinit).ctor]
    if not rctors:
        res.fail(Finding("C18.MERGE", rinit.qname, "<BoundedAttributes(attributes=...)>", rinit.loc(), "the resource does not keep its attributes in the attribute container"))
    for c in rctors:
        cap = t.bind_args(bainit, c).get(bainit.params[1])
        if cap is None or (isinstance(cap, ast.Constant) and cap.value is None):
            res.ok("C18.MERGE", {"the resource's store has no capacity": norm(c)[:70]})
        else:
            res.fail(Finding("C18.MERGE", rinit.qname, c, rinit.loc(c), "the resource's attribute store gets a capacity (`%s`): when the sources together exceed it the oldest keys - the SDK "
                             "identity keys and the service name - are evicted from the resource sent with every poll and snapshot" % norm(cap)[:50]))
    mg = p.func(RES + ".merge")
    writes = [n for n in t.nodes_in(mg) if (isinstance(n, (ast.Assign, ast.AugAssign)) and any(
        isinstance(x, (ast.Attribute, ast.Subscript)) and norm(x).split(".")[0].split("[")[0] in ("self", mg.params[1]) for x in (n.targets if isinstance(n, ast.Assign) else [n.target])))]
    mutcalls = [c for c in t.calls_in(mg) if isinstance(c.func, ast.Attribute) and c.func.attr in ("update", "merge_in", "clear", "pop", "setdefault", "__setitem__")
                and any(x in norm(c.func.value) for x in ("self.", mg.params[1] + "."))]
    if not writes and not mutcalls:
        res.ok("C18.MERGE", {"merge writes nothing to either operand": True})
    for n in writes + mutcalls:
        res.fail(Finding("C18.MERGE", mg.qname, n, mg.loc(n), "merge modifies one of its operands"))
    cps = [n for n in t.nodes_in(mg, ast.Assign) if isinstance(n.value, ast.Call) and isinstance(n.value.func, ast.Attribute) and n.value.func.attr == "copy"]
    upd = [c for c in t.calls_in(mg) if isinstance(c.func, ast.Attribute) and c.func.attr == "update"]
    okm = len(cps) == 1 and len(upd) == 1 and ctx.expand.expand(cps[0].value.func.value, mg) == ["@self._attributes"] and \
        norm(upd[0].func.value) == norm(cps[0].targets[0]) and ctx.expand.expand(upd[0].args[0], mg) == ["%s._attributes" % P(mg, 1)] and \
        paths.dominates(p, cps[0], upd[0], mg)
    if not okm and not upd:
        # the same thing as one display: `{**self.attributes, **other.attributes}` - a new mapping, right operand wins
        for n_ in t.nodes_in(mg, ast.Dict):
            if len(n_.keys) == 2 and n_.keys == [None, None]:
                l_ = n_.values[0].func.value if isinstance(n_.values[0], ast.Call) and isinstance(n_.values[0].func, ast.Attribute) and n_.values[0].func.attr == "copy" \
                    and not n_.values[0].args else n_.values[0]
                okm = ctx.expand.expand(l_, mg) == ["@self._attributes"] and ctx.expand.expand(n_.values[1], mg) == ["%s._attributes" % P(mg, 1)]
    if okm:
        res.ok("C18.MERGE", {"merged attributes": "copy of self updated with other (other wins)"})
    else:
        res.fail(Finding("C18.MERGE", mg.qname, cps[0] if cps else "<copy + update>", mg.loc(), "the merged attributes are not a copy of self updated with other (later source must win key by key)"))
    mt = Table(ctx, mg)
    S, O = "@self._schema_url", "%s._schema_url" % P(mg, 1)
    rv = Vars(); rv.enum(S, ""); rv.enum(O, ""); rv.rel(S, O, False)

    def refs(w):
        s_empty, o_empty = w.enum[S] == "", w.enum[O] == ""
        if s_empty and o_empty and w.relation(S, O) != "EQ":
            return lambda got: True          # infeasible world
        if (not s_empty or not o_empty) and (s_empty != o_empty) and w.relation(S, O) == "EQ":
            return lambda got: True          # infeasible world
        if s_empty:
            want = O
        elif o_empty:
            want = S
        elif w.relation(S, O) == "EQ":
            want = O
        else:
            return lambda got: got[0] == "return" and got[1] == "@self"
        def chk(got):
            nd = got[3]
            return got[0] == "return" and isinstance(nd, ast.Call) and "Resource" in norm(nd.func) and len(nd.args) == 2 and norm(nd.args[1]) in (want, S if want == O and w.relation(S, O) == "EQ" else want)
        return chk
    table_rule(res, "C18.MERGE", mt, rv, refs, "schema url: empty side yields the other; equal keeps it; different -> self unchanged")

    # ---------------- CHAIN
    cr = p.func(RES + ".create")
    firsts = [n for n in t.nodes_in(cr, ast.Assign) if isinstance(n.targets[0], ast.Name)]
    chain = None
    for n in firsts:
        txt = norm(n.value)
        if txt.startswith("_DEFAULT_RESOURCE.merge("):
            chain = n
    okc = False
    upstream_ = set()
    if chain is not None:
        v = chain.value
        # (_DEFAULT_RESOURCE.merge(<detector>.detect())).merge(Resource(attributes, schema_url))
        okc = isinstance(v, ast.Call) and isinstance(v.func, ast.Attribute) and v.func.attr == "merge" and \
            isinstance(v.func.value, ast.Call) and norm(v.func.value.func) == "_DEFAULT_RESOURCE.merge" and \
            "DeepResourceDetector().detect()" in norm(v.func.value.args[0]) and norm(v.args[0]).startswith("Resource(%s" % cr.params[0])
    if not okc:
        # the same chain written with named intermediates: the first, unconditional binding of the returned name
        rets0 = [r for r in t.nodes_in(cr, ast.Return) if isinstance(r.value, ast.Name)]
        cand = [n for n in firsts if rets0 and n.targets[0].id == rets0[0].value.id and not paths.conditions(p, n, cr) and not paths.enclosing_loops(p, n, cr)]
        if cand:
            import re as _re3
            c0 = min(cand, key=lambda n: n.lineno)
            ex_ = ctx.expand.expand(c0.value, cr)
            pat = r"^deep\.api\.resource\._DEFAULT_RESOURCE\.merge\([\w.]+\(\)\.detect\(\)\)\.merge\(deep\.api\.resource\.Resource\.__init__\((@%s|\{\}), @%s\)\)$" % (cr.params[0], cr.params[1])
            dets_ = [c for c in t.calls_in(cr) if isinstance(c.func, ast.Attribute) and c.func.attr == "detect"]
            if ex_ and all(_re3.match(pat, x) for x in ex_) and len(dets_) == 1 and \
                    [f_.qname for f_ in t.resolve_call(dets_[0], cr).repo] == ["deep.api.resource.DeepResourceDetector.detect"]:
                chain, okc = c0, True
                todo_ = [x.id for x in ast.walk(c0.value) if isinstance(x, ast.Name)]
                while todo_:
                    nm_ = todo_.pop()
                    if nm_ in upstream_:
                        continue
                    upstream_.add(nm_)
                    for k_, b_ in t.local_bindings(cr, nm_):
                        if k_ == "assign" and b_[1] is not None:
                            todo_ += [x.id for x in ast.walk(b_[1]) if isinstance(x, ast.Name)]
    if okc:
        res.ok("C18.CHAIN", {"create": "default.merge(environment).merge(code attributes)"})
    else:
        res.fail(Finding("C18.CHAIN", cr.qname, chain if chain is not None else "<default.merge(env).merge(code)>", cr.loc(), "Resource.create does not combine default < environment < code attributes in that order"))
    fb = [c for c in t.calls_in(cr) if isinstance(c.func, ast.Attribute) and c.func.attr == "merge" and c is not (chain.value if chain is not None else None)
          and not (chain is not None and paths.within(p, c, chain))
          and not (isinstance(paths.stmt_of(p, c), ast.Assign) and isinstance(paths.stmt_of(p, c).targets[0], ast.Name) and paths.stmt_of(p, c).targets[0].id in upstream_
                   and paths.stmt_of(p, c) is not chain and paths.stmt_of(p, c).lineno < chain.lineno)]
    okf = False
    if len(fb) == 1:
        conds = [(norm(c), pol) for c, pol in paths.conditions(p, fb[0], cr)]
        okf = any("'service.name'" in ctx.expand.expand(ast.parse(c, mode="eval").body, cr)[0] if False else ("SERVICE_NAME" in c) for c, pol in conds) and \
            ("SERVICE_NAME" in norm(fb[0].args[0]) or all(x.startswith("deep.api.resource.Resource.__init__({'service.name':") for x in ctx.expand.expand(fb[0].args[0], cr))) \
            and norm(fb[0].func.value) == norm(chain.targets[0]) if chain is not None else False
    # "a service name" is a non-empty one: the fallback is taken whenever the combined sources hold none *or an empty one*
    # (the condition is the truth of the name, after negation normalisation: (get(service.name), False)), not `is None`
    if okf and len(fb) == 1:
        raw = paths.conditions(p, fb[0], cr)
        by_truth = any((not pol) and isinstance(c_, ast.Call) and "SERVICE_NAME" in norm(c_) for c_, pol in raw) or \
            any(pol and isinstance(c_, ast.Compare) and "SERVICE_NAME" in norm(c_) and any(isinstance(o, (ast.Eq, ast.In)) for o in c_.ops) and "''" in norm(c_) for c_, pol in raw)
        if not by_truth:
            okf = False
            res.fail(Finding("C18.CHAIN", cr.qname, raw[0][0] if raw else fb[0], cr.loc(fb[0]), "the service-name fallback is taken only when `%s`: a service.name that is present but empty "
                             "is kept, and the resource sent with every poll and snapshot names no service" % (norm(raw[0][0])[:60] if raw else "?")))
    rets = [r for r in t.nodes_in(cr, ast.Return)]
    if okf and len(rets) == 1 and chain is not None and norm(rets[0].value) == norm(chain.targets[0]):
        res.ok("C18.CHAIN", {"service name fallback": norm(fb[0])[:90]})
    else:
        res.fail(Finding("C18.CHAIN", cr.qname, fb[0] if fb else "<service.name fallback>", cr.loc(), "a resource without service.name does not get the unknown_service fallback merged in"))
    # the environment source is read afresh for every resource: the map the detector fills is created in that call, never kept
    # between calls (the detector also writes the service-name override into it)
    det = p.func("deep.api.resource.DeepResourceDetector.detect")
    rcs = [c for c in t.calls_in(det) if any(k.qname == RES for k in t.resolve_call(c, det).ctor)]
    need(len(rcs) >= 1, "DeepResourceDetector.detect: Resource construction not found")
    for c in rcs:
        a0 = c.args[0] if c.args else None
        fresh = False
        if isinstance(a0, ast.Name):
            bs = [b for k, b in t.local_bindings(det, a0.id)]
            vals = [b[1] for k, b in t.local_bindings(det, a0.id) if k == "assign"]
            fresh = len(bs) == len(vals) and bool(vals) and all(
                (isinstance(v, ast.Dict) and not v.keys) or (isinstance(v, ast.Call) and norm(v.func) in ("dict", "OrderedDict") and not v.args) for v in vals)
        elif isinstance(a0, ast.Dict) or a0 is None:
            fresh = True
        if fresh:
            res.ok("C18.CHAIN", {"environment attributes collected into a map created by this call": norm(a0) if a0 is not None else "{}"})
        else:
            res.fail(Finding("C18.CHAIN", det.qname, c, det.loc(c), "the map of environment attributes is not created afresh in each detection (`%s` comes from state kept "
                             "between calls): an override written into it (service name) or an earlier environment leaks into later resources" % (norm(a0)[:40] if a0 is not None else "")))
    # an environment attribute is taken over as it was written: percent-decoded (the documented form), nothing else done to it
    # (`unquote_plus` would turn every literal `+` - a version `1.4.2+build.7`, a UTC offset - into a blank)
    env_stores = [n for n in t.nodes_in(det, ast.Assign) if isinstance(n.targets[0], ast.Subscript) and isinstance(n.targets[0].value, ast.Name)
                  and paths.enclosing_loops(p, n, det)]
    for n in env_stores:
        vx = ctx.expand.expand(n.value, det)
        import re as _re2
        okv = bool(vx) and all(x.startswith("urllib.parse.unquote(") and _re2.search(r"\)(?:\.strip\(\))?$", x) and "unquote_plus" not in x and
                               all(m_ in ("urllib.parse.unquote", "os.environ.get", "os.getenv", "<elem>") or m_.rsplit(".", 1)[-1] in ("strip", "split", "get")
                                   for m_ in _re2.findall(r"([A-Za-z_<][\w.<>]*)\(", x)) for x in vx)
        if okv:
            res.ok("C18.CHAIN", {"environment value taken over percent-decoded": vx[0][:60]})
        else:
            res.fail(Finding("C18.CHAIN", det.qname, n.value, det.loc(n.value), "an environment-provided attribute value is stored as `%s`, not as the percent-decoded text that was "
                             "written: the resource carries another value than the one configured" % (vx[0][:70] if vx else norm(n.value))))
    res.floor("stores of environment attributes in the detector", len(env_stores), 1)
    rm = p.modules["deep.api.resource"]
    dflt = rm.consts.get("_DEFAULT_RESOURCE")
    keys = []
    if isinstance(dflt, ast.Call) and dflt.args and isinstance(dflt.args[0], ast.Dict):
        for k in dflt.args[0].keys:
            try:
                keys.append(p.literal(rm, k))
            except KeyError:
                keys.append(norm(k))
    if sorted(keys) == ["telemetry.sdk.language", "telemetry.sdk.name", "telemetry.sdk.version"]:
        res.ok("C18.CHAIN", {"default resource keys": keys})
    else:
        res.fail(Finding("C18.CHAIN", "deep.api.resource", "_DEFAULT_RESOURCE", rm.relpath, "the default resource does not carry exactly the three telemetry.sdk.* identity keys: %s" % keys))
    ds0 = p.func("deep.api.deep.Deep.start")
    ds, pm = ds0, []
    for f_ in [ds0] + [x for c0 in t.calls_in(ds0) for x in t.resolve_call(c0, ds0).repo if x.cls is ds0.cls]:
        pm = [c for c in t.calls_in(f_) if any(x.qname == RES + ".merge" for x in t.resolve_call(c, f_).repo)]
        if pm:
            ds = f_
            break
    okp = False
    if len(pm) == 1:
        st = paths.stmt_of(p, pm[0])
        acc = norm(st.targets[0]) if isinstance(st, ast.Assign) else None
        lps = [l for l in paths.enclosing_loops(p, pm[0], ds) if isinstance(l, ast.For)]
        okp = acc is not None and norm(pm[0].func.value) == acc and pm[0].args and "resource()" in ctx.expand.expand(pm[0].args[0], ds)[0] and \
            bool(lps) and ("resource_providers" in ctx.expand.expand(lps[0].iter, ds)[0] or "ResourceProvider" in ctx.expand.expand(lps[0].iter, ds)[0])
        # the accumulated resource starts from Resource.create() and ends up in the config
        inits = [n for n in t.nodes_in(ds, ast.Assign) if norm(n.targets[0]) == acc and not paths.within(p, n, lps[0])] if lps and acc else []
        fin = [n for n in t.nodes_in(ds0, ast.Assign) if isinstance(n.targets[0], ast.Attribute) and n.targets[0].attr == "resource"]
        stored = False
        for n in fin:
            if ds is ds0:
                stored = stored or norm(n.value) == acc
            else:
                rets_ = [r for r in t.nodes_in(ds, ast.Return) if r.value is not None]
                stored = stored or (isinstance(n.value, ast.Call) and ds in t.resolve_call(n.value, ds0).repo and len(rets_) == 1 and norm(rets_[0].value) == acc) \
                    or (isinstance(n.value, ast.Name) and any(k == "assign" and isinstance(b[1], ast.Call) and ds in t.resolve_call(b[1], ds0).repo
                                                              for k, b in t.local_bindings(ds0, n.value.id)) and len(rets_) == 1 and norm(rets_[0].value) == acc)
        okp = okp and len(inits) == 1 and "Resource.create()" in norm(inits[0].value) and stored
    if not okp:
        okp = _plugin_fold(ctx, ds0)
    if okp:
        res.ok("C18.CHAIN", {"plugins": "accumulated.merge(plugin resource) in plugin order, stored as the client resource"})
    else:
        res.fail(Finding("C18.CHAIN", ds.qname, pm[0] if pm else "<resource.merge(plugin)>", ds.loc(), "plugin resources are not merged onto the accumulated resource (later plugin wins) starting from Resource.create()"))
    # every request identifies the client with the resource the configuration holds at that moment (it is set again on
    # every start): what goes on the wire is converted from config.resource where the request is built, not remembered
    import re as _re
    nreq = 0
    for f_ in p.functions.values():
        if not f_.module.name.startswith(("deep.poll", "deep.push")):
            continue
        for c in t.calls_in(f_):
            if not any(e.endswith(".PollRequest") or e.endswith(".Snapshot") for e in t.resolve_call(c, f_).ext):
                continue
            for k in c.keywords:
                if k.arg != "resource":
                    continue
                nreq += 1
                src = ctx.expand.expand(k.value, f_)
                live = [x for x in src if _re.search(r"config\._?resource", x) or (_re.search(r"@%s\._?resource\._?attributes" % (f_.params[0] if f_.params else "-"), x)
                                                                                   and not f_.params[0] == "self")]
                if src and len(live) == len(src):
                    res.ok("C18.CHAIN", {"request resource converted where the request is built": f_.loc(c)})
                else:
                    res.fail(Finding("C18.CHAIN", f_.qname, k.value, f_.loc(k.value), "the request's resource is `%s`, not the configuration's resource converted for this request: after "
                                     "the resource was replaced (a second start, plugins changed) requests still carry the old identity" % (src[0][:60] if src else norm(k.value))))
    res.floor("requests that carry the client resource", nreq, 2)
    # ... and a snapshot takes the resource of the configuration when it is created
    esc = p.cls("deep.api.tracepoint.eventsnapshot.EventSnapshot")
    esinit = esc.lookup("__init__")
    for f_ in p.functions.values():
        for c in t.calls_in(f_):
            if esc in t.resolve_call(c, f_).ctor:
                a_ = t.bind_args(esinit, c).get("resource")
                src = ctx.expand.expand(a_, f_) if a_ is not None else []
                if src and all(_re.search(r"config\._?resource$", x) for x in src):
                    res.ok("C18.CHAIN", {"snapshot created with the configuration's resource": f_.loc(c)})
                else:
                    res.fail(Finding("C18.CHAIN", f_.qname, c, f_.loc(c), "the snapshot is not created with the resource the configuration holds (%s)" % (src or "no resource argument")))
    from .common import borrow
    borrow(ctx, res, tier, "c20", ("C20.LOAD",), "C18.CHAIN", "plugin-provided attributes override one another in the plugins' declared order: the list the providers "
           "are taken from is the loaded list sorted by order()")
    borrow(ctx, res, tier, "c20", ("C20.ISO",), "C18.CHAIN", "a provider that fails costs its own attributes only: the providers after it are still asked and merged")
    return res
